"""Effect summaries with ownership roots, closed over the (class-hierarchy) call graph.

For every function the analysis lists the *writes* it can perform — attribute stores,
subscript stores, in-place tensor methods, dictionary updates, structural module edits,
training-mode switches, and forward passes it triggers — each with the **root** of the
written object expressed in terms of the function's own parameters:

    self | p:<param> | fresh (created in this activation, or a deep copy) | global | unknown
    sh:<root>  a torch.fx.GraphModule built over <root>: the container is fresh, but the leaf
               sub-modules it hands out (get_submodule, modules(), ...) are owned by <root>.

Summaries are instantiated at call sites (callee roots substituted by the roots of the
actual arguments; a constructor's ``self`` is fresh) and closed transitively.  Dynamic
dispatch is resolved by isinstance guards on the path, else by class-hierarchy analysis on
the method name.
"""
from __future__ import annotations

import ast
from dataclasses import dataclass, field
from typing import Dict, FrozenSet, List, Optional, Set, Tuple

from .model import AnalysisError, ClassInfo, FunctionInfo, Repo
from .sym import NONE, State, Term, mentions, show, subterms
from .util import SELF, arg, callee, guards_of, is_call, method_call, paths, returning

Roots = FrozenSet[str]
FRESH: Roots = frozenset({'fresh'})

ACCESSORS = {'get_submodule', 'modules', 'named_modules', 'children', 'named_children',
             'parameters', 'named_parameters', 'buffers', 'named_buffers', 'values', 'items',
             'keys', 'get', 'to', 'cpu', 'cuda', 'float', 'double', 'half', 'view', 'reshape',
             'detach', 'squeeze', 'unsqueeze', 'flatten', 't', 'eval', 'train',
             'requires_grad_', 'state_dict', 'nas_parameters', 'net_parameters',
             'named_nas_parameters', 'named_net_parameters', 'setdefault', 'pop', 'index',
             'all_input_nodes', 'users'}
COPYING = {'clone', 'copy', 'tolist', 'item', 'sum', 'mean', 'bool', 'numel', 'size', 'dim',
           'abs', 'argmax', 'max', 'min', 'eq', 'ne', 'le', 'ge', 'lt', 'gt', 'isclose',
           'replace', 'split', 'rsplit', 'join', 'lower', 'upper', 'format', 'startswith',
           'endswith', 'count'}
VIEW_BUILTINS = {'builtins.list', 'builtins.tuple', 'builtins.set', 'builtins.sorted',
                 'builtins.zip', 'builtins.enumerate', 'builtins.reversed', 'builtins.iter',
                 'builtins.next', 'builtins.dict', 'builtins.getattr', 'builtins.filter',
                 'builtins.map'}
PURE_BUILTINS = {'builtins.len', 'builtins.int', 'builtins.float', 'builtins.str',
                 'builtins.bool', 'builtins.isinstance', 'builtins.hasattr', 'builtins.type',
                 'builtins.range', 'builtins.print', 'builtins.sum', 'builtins.max',
                 'builtins.min', 'builtins.any', 'builtins.all', 'builtins.abs', 'builtins.round',
                 'builtins.id', 'builtins.repr', 'builtins.callable', 'builtins.issubclass',
                 'builtins.super', 'builtins.ValueError', 'builtins.TypeError',
                 'builtins.KeyError', 'builtins.AttributeError', 'builtins.NotImplementedError'}
STRUCT = {'add_submodule', 'add_module', 'register_buffer', 'register_parameter',
          'delete_all_unused_submodules', 'delete_submodule', 'recompile', 'erase_node',
          'replace_all_uses_with', 'replace_input_with', 'eliminate_dead_code', 'lint',
          'call_module', 'call_function', 'inserting_after', 'inserting_before',
          'register_forward_hook'}
CONTAINER_MUT = {'append', 'extend', 'insert', 'update', 'add', 'remove', 'clear', 'sort',
                 'pop', 'popitem', 'setdefault', 'discard', 'reverse'}


def _derive(a: str) -> str:
    """Root atom of something reached from ``a`` through an attribute / element / accessor."""
    if a in ('fresh', 'unknown', 'global') or a.startswith(('g:', 'd:')):
        return a
    if a.startswith('sh:'):
        return 'd:' + owner(a[3:])  # a leaf handed out by a GraphModule built over a[3:]
    return 'd:' + a


def owner(a: str) -> str:
    while a.startswith('d:'):
        a = a[2:]
    return a


@dataclass
class Effect:
    kind: str                 # setattr | setitem | inplace | update | struct | mode | forward
    roots: Roots
    name: str                 # attribute / key / method
    detail: str
    fn: FunctionInfo
    lineno: int
    chain: Tuple[str, ...] = ()
    value: Optional[Term] = None
    recv: Optional[Term] = None
    arg_roots: Optional[list] = None

    def key(self):
        return (self.kind, self.roots, self.name, self.fn.qualname, self.lineno)

    @property
    def owners(self) -> Roots:
        return frozenset(owner(a) for a in self.roots)

    def where(self) -> str:
        return f'{self.fn.module.relpath}:{self.lineno}'


class Effects:
    _impure_getters = None

    def __init__(self, repo: Repo):
        self.repo = repo
        self._summary: Dict[str, List[Effect]] = {}
        self._active: Set[str] = set()
        self.unresolved: List[Tuple[str, str]] = []
        self.resolved_calls = 0
        self.tracer_base = 'torch.fx.Tracer'
        self._fresh_fn: Dict[str, bool] = {}
        self._fresh_m: Dict[str, bool] = {}
        self._stored_guard: Set[tuple] = set()
        self._alias: Dict[Tuple[str, str], List[FunctionInfo]] = {}
        self._getters: Dict[str, List[FunctionInfo]] = {}

    # -- roots ---------------------------------------------------------------------------
    def root(self, t: Term, p: State, fn: FunctionInfo, depth: int = 0) -> Roots:
        if depth > 12:
            return frozenset({'unknown'})
        k = t[0]
        if k == 'param':
            if t[1] == 'self' and fn.cls is not None and fn.kind != 'static':
                return frozenset({'self'})
            return frozenset({'p:' + t[1]})
        if k in ('const', 'lambda', 'localfn', 'fstr', 'cmp', 'bool', 'un', 'isnone', 'undef',
                 'unknown', 'exception', 'bound'):
            return FRESH
        if k == 'global':
            q = t[1]
            if q.startswith(('builtins.', 'torch.', 'typing.', 'math.', 'copy.', 'operator.',
                             'networkx.', 'numpy.', 'enum.', 'abc.', 'warnings.', 'itertools.',
                             'collections.')):
                return FRESH
            if q in self.repo.classes or q in self.repo.functions:
                return FRESH
            return frozenset({'global'})
        if k == 'attr':
            base = t[1]
            # tracer.root is the model handed to tracer.trace(...)
            if t[2] == 'root' and self._is_tracer(base):
                for e in p.calls():
                    mc = method_call(e.data[0])
                    if mc and mc[0] == base and mc[1] == 'trace' and mc[2]:
                        return self.root(mc[2][0], p, fn, depth + 1)
                return frozenset({'unknown'})
            r = self.root(base, p, fn, depth + 1)
            out = set()
            for a in r:
                if a.startswith('sh:'):
                    # direct attributes of a GraphModule over R: the graph and bookkeeping are
                    # fresh; anything else may be a shared leaf
                    out.add('fresh' if t[2] in ('graph', 'meta', '_modules', 'code')
                            else _derive(a))
                elif t[2] == 'graph' and a not in ('fresh', 'unknown', 'global') and \
                        not a.startswith('g:'):
                    out.add('g:' + owner(a))   # the fx graph owned by a (nodes, meta, users)
                else:
                    out.add(_derive(a))
            return frozenset(out)
        if k == 'sub' and t[2][0] == 'const' and t[2][1] in (0, 1, 2) and \
                self._is_leaf_triple(t[1]):
            # NamedLeafModules = List[Tuple[str, fx.Node, nn.Module]] (graph/utils.py)
            r = self.root(t[1], p, fn, depth + 1)
            if t[2][1] == 0:
                return FRESH
            if t[2][1] == 1:
                return frozenset(a if a in ('fresh', 'unknown', 'global') or a.startswith('g:')
                                 else 'g:' + owner(a[3:] if a.startswith('sh:') else a)
                                 for a in r)
            return frozenset(_derive(a) for a in r)
        if k in ('sub', 'elem', 'starred', 'enter'):
            r = self.root(t[1], p, fn, depth + 1)
            return frozenset(_derive(a) for a in r)
        if k in ('tuple', 'list', 'set'):
            out = set()
            for x in t[1]:
                out |= self.root(x, p, fn, depth + 1)
            out |= self._stored_into(t, p, fn, depth)
            return frozenset(out or {'fresh'})
        if k == 'dict':
            out = set()
            for _, v in t[1]:
                out |= self.root(v, p, fn, depth + 1)
            out |= self._stored_into(t, p, fn, depth)
            return frozenset(out or {'fresh'})
        if k == 'comp':
            out = set()
            for x in t[2]:
                out |= self.root(x, p, fn, depth + 1)
            return frozenset(out or {'fresh'})
        if k == 'ifexp':
            return self.root(t[2], p, fn, depth + 1) | self.root(t[3], p, fn, depth + 1)
        if k == 'phi':
            out = set()
            for x in t[1]:
                out |= self.root(x, p, fn, depth + 1)
            return frozenset(out)
        if k == 'bin':
            return FRESH
        if k == 'call':
            return self.call_root(t, p, fn, depth)
        return frozenset({'unknown'})

    def _stored_into(self, lit: Term, p: State, fn: FunctionInfo, depth: int) -> Set[str]:
        """Roots of the values that this path stores into a local container literal (through
        subscript stores, append / add / extend / setdefault on it or on its elements)."""
        gkey = (lit, id(p))
        if gkey in self._stored_guard:
            return set()
        self._stored_guard.add(gkey)
        try:
            return self._stored_into_inner(lit, p, fn)
        finally:
            self._stored_guard.discard(gkey)

    def _stored_into_inner(self, lit: Term, p: State, fn: FunctionInfo) -> Set[str]:
        depth = 0

        def bottoms_at(x: Term) -> bool:
            while x[0] in ('sub', 'elem'):
                x = x[1]
            mc_ = method_call(x) if x[0] == 'call' else None
            if mc_ and mc_[1] in ('setdefault', 'get'):
                return bottoms_at(mc_[0])
            return x == lit
        out: Set[str] = set()
        for e in p.events:
            if e.kind == 'setitem' and bottoms_at(e.data[0]):
                v = e.data[2]
                if not (v[0] in ('list', 'dict') and not v[1]):
                    out |= {a for a in self.root(v, p, fn, 0) if a != 'fresh'}
            elif e.kind == 'call':
                mc = method_call(e.data[0])
                if mc and mc[1] in ('append', 'add', 'extend', 'insert', 'setdefault') and \
                        bottoms_at(mc[0]) and mc[2]:
                    v = mc[2][-1]
                    out |= {a for a in self.root(v, p, fn, 0) if a != 'fresh'}
        return {_derive(a) for a in out}

    @staticmethod
    def _is_leaf_triple(t: Term) -> bool:
        """An element of a NamedLeafModules list: produced by named_leaf_modules /
        uniquify_leaf_modules or stored in the *_leaf_modules attributes."""
        if t[0] != 'elem':
            return False
        src = t[1]
        for x in subterms(src):
            if x[0] == 'attr' and x[2] in ('_leaf_modules', '_unique_leaf_modules'):
                return True
            c = callee(x) if x[0] == 'call' else None
            if c and c.endswith(('named_leaf_modules', 'uniquify_leaf_modules')):
                return True
        return False

    def _method_returns_fresh(self, name: str) -> bool:
        """Every repository method of that name returns a container built in its own
        activation (dict / list literal or comprehension), e.g. summary()."""
        if name not in self._fresh_m:
            ms = [c.methods[name] for c in self.repo.classes.values() if name in c.methods]
            ok = bool(ms)
            for m in ms:
                rets = [q.retval for q in paths(self.repo, m) if q.status == 'return']
                if not rets:
                    continue        # abstract (raises)
                for r in rets:
                    if r is None or not (r[0] in ('dict', 'list', 'comp', 'set') or
                                         callee(r) in ('builtins.dict', 'builtins.list')):
                        ok = False
            self._fresh_m[name] = ok
        return self._fresh_m[name]

    def _is_tracer(self, t: Term) -> bool:
        c = callee(t)
        if c in self.repo.classes:
            return any('Tracer' in str(b) for b in self.repo.mro(self.repo.classes[c]))
        return False

    def call_root(self, t: Term, p: State, fn: FunctionInfo, depth: int) -> Roots:
        c = callee(t)
        mc = method_call(t)
        if c == 'copy.deepcopy':
            return FRESH
        if c == 'builtins.vars' and t[2]:
            return self.root(t[2][0], p, fn, depth + 1)
        if c in PURE_BUILTINS:
            return FRESH
        if c == 'torch.fx.GraphModule' or (c and c.endswith('.GraphModule')):
            r = self.root(t[2][0], p, fn, depth + 1) if t[2] else FRESH
            return frozenset('sh:' + owner(a) if not a.startswith('sh:') and a != 'fresh' else a
                             for a in r)
        if c in VIEW_BUILTINS:
            out = set()
            for a in t[2]:
                out |= self.root(a, p, fn, depth + 1)
            return frozenset(_derive(a) for a in (out or {'fresh'}))
        if c is not None and (c.startswith('torch.') or c.startswith('math.') or
                              c.startswith('numpy.') or c.startswith('networkx.') or
                              c.startswith('operator.') or c.startswith('itertools.')):
            return FRESH            # tensors / modules / graphs created by the call
        if c in self.repo.classes:
            return FRESH            # constructor
        if mc is not None:
            recv, name = mc[0], mc[1]
            r = self.root(recv, p, fn, depth + 1)
            if name in ACCESSORS:
                return frozenset(_derive(a) for a in r)
            if name in COPYING or name.startswith('__'):
                return FRESH
            if name == 'get_modified_vars':
                return FRESH        # verified to return dict(vars(self)) by C04/C05
            if name in ('apply',):
                return FRESH
            if name in ('trace', 'graph_copy') and (self._is_tracer(recv) or name == 'graph_copy'):
                return FRESH        # Tracer.trace builds a new fx.Graph
            if self._method_returns_fresh(name):
                return FRESH
            out = set(r)
            for a in t[2]:
                out |= self.root(a, p, fn, depth + 1)
            return frozenset(_derive(a) for a in out)
        if c in self.repo.functions:
            f = self.repo.functions[c]
            if f.name in ('shapes_dict', 'fx_to_nx_graph', 'get_graph_inputs',
                          'get_graph_outputs', 'uniquify_leaf_modules', 'parent_name'):
                return FRESH if f.name in ('shapes_dict', 'fx_to_nx_graph', 'parent_name') \
                    else frozenset().union(*[self.root(a, p, fn, depth + 1) for a in t[2]] or
                                           [FRESH])
            out = set()
            for a in t[2]:
                out |= self.root(a, p, fn, depth + 1)
            for _, a in t[3]:
                out |= self.root(a, p, fn, depth + 1)
            return frozenset(out or {'fresh'})
        # call of a call / of a local value
        out = set(self.root(t[1], p, fn, depth + 1))
        for a in t[2]:
            out |= self.root(a, p, fn, depth + 1)
        return frozenset(out or {'unknown'})

    @staticmethod
    def fresh_container(t: Term) -> bool:
        """Direct writes into this object cannot reach caller-owned state.  A chain of
        subscripts that bottoms at a container literal created in this activation designates
        a nested local container (``d = {}; d[k] = []; d[k].append(x)``)."""
        while t[0] in ('sub',):
            t = t[1]
        mc0 = method_call(t) if t[0] == 'call' else None
        if mc0 and mc0[1] in ('setdefault', 'get'):
            # d.setdefault(k, {}) / d.get(k): a nested container of d
            return Effects.fresh_container(mc0[0])
        if t[0] in ('dict', 'list', 'set', 'comp', 'tuple'):
            return True
        c = callee(t)
        if c in ('builtins.dict', 'builtins.list', 'builtins.set', 'copy.deepcopy',
                 'copy.copy'):
            return True
        mc = method_call(t)
        if mc and mc[1] in ('get_modified_vars', 'copy', 'clone'):
            return True
        return False

    def fresh_result(self, t: Term) -> bool:
        """A call of a repository function whose every return value is a container built in
        that activation (list/dict literal filled locally, comprehension)."""
        c = callee(t)
        f = self.repo.functions.get(c) if c else None
        if f is None or f.cls is not None:
            return False
        if c not in self._fresh_fn:
            rets = [q.retval for q in paths(self.repo, f) if q.status == 'return']
            self._fresh_fn[c] = bool(rets) and all(
                r is not None and (r[0] in ('list', 'dict', 'comp', 'set') or
                                   callee(r) in ('builtins.list', 'builtins.dict'))
                for r in rets)
        return self._fresh_fn[c]

    # -- call resolution --------------------------------------------------------------------
    def resolve(self, t: Term, p: State, fn: FunctionInfo, ev) -> List[Tuple[FunctionInfo, str]]:
        """Candidate callees: (function, binding kind 'func' | 'method' | 'ctor')."""
        c = callee(t)
        repo = self.repo
        out: List[Tuple[FunctionInfo, str]] = []
        if c is not None and not c.startswith('.'):
            if c in repo.functions and repo.functions[c].cls is None:
                return [(repo.functions[c], 'func')]
            if c in repo.classes:
                init = repo.find_method(repo.classes[c], '__init__')
                return [(init, 'ctor')] if init is not None else []
            if c.endswith('.apply') and c[:-6] in repo.classes:
                f = repo.classes[c[:-6]].methods.get('forward')
                return [(f, 'static')] if f else []
            # Class.method(...)  (static methods such as export / autoimport)
            if '.' in c and c.rsplit('.', 1)[0] in repo.classes:
                m = repo.find_method(repo.classes[c.rsplit('.', 1)[0]], c.rsplit('.', 1)[1])
                return [(m, 'static' if m.kind == 'static' else 'method')] if m else []
            return []
        mc = method_call(t)
        if mc is None:
            return []
        recv, name = mc[0], mc[1]
        if name.startswith('__') and name != '__init__' and name != '__call__':
            return []
        # super().__init__(...)
        if is_call(recv, 'builtins.super'):
            if fn.cls is None:
                return []
            mro = [x for x in repo.mro(fn.cls) if isinstance(x, ClassInfo)]
            # the class whose method we are in
            owner = None
            for x in mro:
                if fn.name in x.methods and x.methods[fn.name] is fn:
                    owner = x
            start = mro.index(owner) + 1 if owner in mro else 1
            for x in mro[start:]:
                if name in x.methods:
                    return [(x.methods[name], 'method')]
            return []
        if recv == SELF and fn.cls is not None:
            m = repo.find_method(fn.cls, name)
            cands = [(m, 'method')] if m is not None else []
            # overriding subclasses (the entry's dynamic type may be a subclass)
            for sub in repo.subclasses(fn.cls, strict=True):
                if name in sub.methods:
                    cands.append((sub.methods[name], 'method'))
            if not cands:
                # function-valued attribute: may-alias set of the methods stored into it
                for target in self.attr_aliases(fn.cls, name):
                    cands.append((target, 'method'))
            if not cands:
                # attribute holding a module: calling it runs its forward
                from .util import attr_classes
                seenq = set()
                for k in attr_classes(repo, fn.cls, name):
                    for k2 in repo.subclasses(k):
                        f = repo.find_method(k2, 'forward')
                        if f is not None and f.qualname not in seenq:
                            seenq.add(f.qualname)
                            cands.append((f, 'attrcall'))
            return cands
        # isinstance guards on the path / cast(T, x)
        classes: List[ClassInfo] = []
        ty = p.types.get(recv)
        if ty in repo.classes:
            classes += repo.subclasses(repo.classes[ty])
        for a, v in p.assumptions:
            if v and is_call(a, 'builtins.isinstance') and len(a[2]) == 2 and a[2][0] == recv:
                tys = a[2][1][1] if a[2][1][0] == 'tuple' else (a[2][1],)
                for ty in tys:
                    if ty[0] == 'global' and ty[1] in repo.classes:
                        classes += repo.subclasses(repo.classes[ty[1]])
        if not classes:
            classes = self._declared_element_classes(recv, fn)
        if not classes:
            # class-hierarchy analysis on the method name
            classes = [c2 for c2 in repo.classes.values() if name in c2.methods]
        seen = set()
        for c2 in classes:
            m = repo.find_method(c2, name)
            if m is not None and m.qualname not in seen:
                seen.add(m.qualname)
                # arity filter
                npos = len(t[2])
                params = m.params[1:] if m.kind != 'static' else m.params
                ndef = len([x for x in params if x in m.defaults()])
                if len(params) - ndef <= npos + len(t[3]) <= len(params) or m.node.args.vararg:
                    out.append((m, 'static' if m.kind == 'static' else 'method'))
        return out

    def _declared_element_classes(self, recv: Term, fn: FunctionInfo) -> List[ClassInfo]:
        """Receiver = (component of) an element of ``self.<helper>()`` whose return annotation
        declares the element type (``Iterator[Tuple[str, MPSModule]]``): the declared class and
        its subclasses.  Keeps the narrowing of an ``isinstance`` filter that was moved into a
        generator helper."""
        repo = self.repo
        t, k = recv, None
        if t[0] == 'sub' and t[2][0] == 'const' and isinstance(t[2][1], int):
            t, k = t[1], t[2][1]
        if t[0] != 'elem' or t[1][0] != 'call' or fn.cls is None:
            return []
        mc = method_call(t[1])
        if mc is None or mc[0] != SELF:
            return []
        g = repo.find_method(fn.cls, mc[1])
        if g is None or g.node.returns is None or not isinstance(g.node.returns, ast.Subscript):
            return []
        inner = g.node.returns.slice
        if isinstance(inner, ast.Tuple) and ast.unparse(g.node.returns.value).endswith('Generator'):
            inner = inner.elts[0]
        if k is not None:
            if not (isinstance(inner, ast.Subscript) and isinstance(inner.slice, ast.Tuple) and
                    ast.unparse(inner.value).endswith('Tuple') and k < len(inner.slice.elts)):
                return []
            inner = inner.slice.elts[k]
        if not isinstance(inner, (ast.Name, ast.Attribute)):
            return []
        q = repo.resolve_name(g.module, ast.unparse(inner))
        q = repo.canonical(q) if q else None
        if q in repo.classes:
            return list(repo.subclasses(repo.classes[q]))
        return []

    def attr_aliases(self, ci: ClassInfo, attr: str) -> List[FunctionInfo]:
        """Methods that ``self.<attr> = self.<method>`` stores put into a function-valued
        attribute, over the class family (e.g. sample_alpha in {sample_alpha_sm, _gs, _none})."""
        key = (ci.qualname, attr)
        if key in self._alias:
            return self._alias[key]
        self._alias[key] = []
        out: List[FunctionInfo] = []
        family = [c for c in self.repo.classes.values()
                  if self.repo.is_subclass(c, ci.qualname) or self.repo.is_subclass(ci, c.qualname)]
        for c in family:
            for m in c.methods.values():
                for p in paths(self.repo, m):
                    for e in p.events:
                        if e.kind == 'setattr' and e.data[0] == SELF and e.data[1] == attr:
                            # every alternative of a conditional expression is a candidate
                            alts, work = [], [e.data[2]]
                            while work:
                                v = work.pop()
                                if v[0] == 'ifexp':
                                    work += [v[2], v[3]]
                                else:
                                    alts.append(v)
                            for v in alts:
                                if v[0] == 'attr' and v[1] == SELF:
                                    for c2 in family:
                                        t = self.repo.find_method(c2, v[2])
                                        if t is not None and t not in out:
                                            out.append(t)
        self._alias[key] = out
        return out

    def reachable(self, fn: FunctionInfo, _seen: Optional[Dict[str, FunctionInfo]] = None
                  ) -> Dict[str, FunctionInfo]:
        """Functions reachable from fn through resolved calls and property reads on self."""
        seen = _seen if _seen is not None else {}
        key = fn.qualname + ('#s' if fn.kind == 'setter' else '')
        if key in seen:
            return seen
        seen[key] = fn
        for p in paths(self.repo, fn):
            for ev in p.events:
                if ev.kind == 'call':
                    for cf, _ in self.resolve(ev.data[0], p, fn, ev):
                        self.reachable(cf, seen)
            # property getters read on self / typed receivers (by name, class-family wide)
            terms = [x for ev in p.events for x in ev.data if isinstance(x, tuple)]
            terms += [a for a, _ in p.assumptions]
            if p.retval is not None:
                terms.append(p.retval)
            for t in terms:
                for x in subterms(t):
                    if x[0] == 'attr':
                        for c in self._getter_owners(x[2]):
                            self.reachable(c, seen)
        return seen

    def _getter_owners(self, name: str) -> List[FunctionInfo]:
        if name not in self._getters:
            self._getters[name] = [c.getters[name] for c in self.repo.classes.values()
                                   if name in c.getters]
        return self._getters[name]

    def attrs_read(self, fns) -> Set[str]:
        out: Set[str] = set()
        for fn in fns:
            for p in paths(self.repo, fn):
                terms = [x for ev in p.events for x in ev.data if isinstance(x, tuple)]
                terms += [a for a, _ in p.assumptions]
                if p.retval is not None:
                    terms.append(p.retval)
                for t in terms:
                    for x in subterms(t):
                        if x[0] == 'attr':
                            out.add(x[2])
                        if is_call(x, 'builtins.getattr') and \
                                len(x[2]) >= 2 and x[2][1][0] == 'const':
                            out.add(x[2][1][1])
        return out

    # -- summaries ----------------------------------------------------------------------------
    def summary(self, fn: FunctionInfo, cbind: Optional[Dict[str, Term]] = None) -> List[Effect]:
        cbind = cbind or {}
        key = fn.qualname + ('#setter' if fn.kind == 'setter' else '') + \
            ''.join(f'|{k}={v[1]!r}' for k, v in sorted(cbind.items()))
        if key in self._summary:
            return self._summary[key]
        if key in self._active:
            return []           # recursion: fixpoint approximated by the direct effects
        self._active.add(key)
        effs: Dict[tuple, Effect] = {}

        def add(e: Effect):
            if e.roots == FRESH or not e.roots:
                return
            effs.setdefault(e.key(), e)
        for p in paths(self.repo, fn, cbind or None):
            for i, ev in enumerate(p.events):
                ln = getattr(ev.node, 'lineno', fn.node.lineno)
                if ev.kind == 'setattr':
                    recv, attr, val = ev.data[0], ev.data[1], ev.data[2]
                    r = self.root(recv, p, fn)
                    r = frozenset('fresh' if a.startswith('sh:') else a for a in r)
                    add(Effect('setattr', r, attr, show(val)[:120], fn, ln, (), val, recv))
                    # property setter dispatch
                    self._setter_effects(recv, attr, val, p, fn, ln, add)
                elif ev.kind == 'setitem':
                    obj, idx, val = ev.data[0], ev.data[1], ev.data[2]
                    if self.fresh_container(obj):
                        continue
                    r = self.root(obj, p, fn)
                    r = frozenset('fresh' if a.startswith('sh:') else a for a in r)
                    add(Effect('setitem', r, show(idx)[:60], show(val)[:120], fn, ln, (), val,
                               obj))
                elif ev.kind == 'call':
                    self._call_effects(ev, p, fn, ln, add)
                elif ev.kind == 'augname':
                    # ``x += v`` where x names, by reference, a tensor owned by somebody else
                    # (a buffer / parameter attribute, or a property that hands one out
                    # unchanged): the owner's tensor is modified in place
                    cur = ev.data[1]
                    if cur[0] in ('attr', 'sub', 'elem') and self._by_reference(cur):
                        r = self.root(cur, p, fn)
                        r = frozenset('fresh' if a.startswith('sh:') else a for a in r)
                        add(Effect('inplace', r, '+=', f'{ev.data[0]} += ... on {show(cur)[:80]}',
                                   fn, ln, (), None, cur))
            # property reads: a getter that has effects of its own (e.g. an in-place update of
            # a value it hands out by reference) performs them at every read
            if self._impure_getters is None:
                self._impure_getters = {}
                for ci in self.repo.classes.values():
                    for gname, g in ci.getters.items():
                        if g is not fn and any(ev2.kind == 'augname' or
                                               (ev2.kind == 'call' and method_call(ev2.data[0]) and
                                                method_call(ev2.data[0])[1].endswith('_') and
                                                not method_call(ev2.data[0])[1].startswith('_'))
                                               for q in paths(self.repo, g) for ev2 in q.events):
                            self._impure_getters.setdefault(gname, []).append(g)
            if self._impure_getters:
                seen_reads = set()
                for ev in p.events:
                    for d in ev.data:
                        if not isinstance(d, tuple):
                            continue
                        for x in subterms(d):
                            if x[0] == 'attr' and x[2] in self._impure_getters and \
                                    x not in seen_reads:
                                seen_reads.add(x)
                                ln = getattr(ev.node, 'lineno', fn.node.lineno)
                                for g in self._impure_getters[x[2]]:
                                    if g is fn:
                                        continue
                                    self._instantiate_roots(
                                        g, 'method', self.root(x[1], p, fn), [], {}, {}, {},
                                        f'{fn.qualname.split("plinio.")[-1]}:{ln}', add)
        res = list(effs.values())
        self._active.discard(key)
        self._summary[key] = res
        return res

    def _by_reference(self, t: Term) -> bool:
        """The attribute chain ends in a registered buffer / parameter name, or in a property
        some class of the repository implements by returning an attribute unchanged."""
        while t[0] in ('sub', 'elem'):
            t = t[1]
        if t[0] != 'attr':
            return False
        name = t[2]
        if not hasattr(self, '_ref_names'):
            from .pitlib import storage_kinds
            names = set()
            for ci in self.repo.classes.values():
                try:
                    names |= {k for k, v in storage_kinds(self.repo, ci).items()
                              if v in ('param', 'buffer')}
                except Exception:       # noqa: BLE001
                    pass
                for gname, g in ci.getters.items():
                    for q in returning(paths(self.repo, g)):
                        r = q.retval
                        while r is not None and r[0] == 'call' and callee(r) == 'typing.cast':
                            r = r[2][-1]
                        if r is not None and (r[0] == 'attr' or is_call(r, 'builtins.getattr')):
                            names.add(gname)
            self._ref_names = names
        return name in self._ref_names

    def _setter_effects(self, recv, attr, val, p, fn, ln, add):
        """``obj.attr = v`` where attr is a property with a setter in the repository."""
        repo = self.repo
        cands: List[FunctionInfo] = []
        if recv == SELF and fn.cls is not None:
            s = repo.find_setter(fn.cls, attr)
            if s is not None:
                cands.append(s)
            for sub in repo.subclasses(fn.cls, strict=True):
                if attr in sub.setters:
                    cands.append(sub.setters[attr])
        else:
            for c in repo.classes.values():
                if attr in c.setters:
                    cands.append(c.setters[attr])
        for s in cands:
            if s is fn:
                continue
            self._instantiate(s, 'method', recv, (val,), (), p, fn, ln, add)

    def _instantiate(self, callee_fn: FunctionInfo, kind: str, recv: Optional[Term], args: tuple,
                     kws: tuple, p: State, fn: FunctionInfo, ln: int, add):
        if kind == 'ctor':
            self_roots = FRESH
        elif kind == 'method':
            self_roots = self.root(recv, p, fn) if recv is not None else frozenset({'unknown'})
        else:
            self_roots = FRESH
        pos_roots = [self.root(a[1] if a[0] == 'starred' else a, p, fn) for a in args]
        kw_roots = {k: self.root(a, p, fn) for k, a in kws}
        params = callee_fn.params
        pos = params[1:] if kind in ('method', 'ctor') and params else params
        # constant string / bool / None arguments select the callee's branches; function-valued
        # arguments (lambdas, functions) are kept so that calls through them can be followed
        cbind: Dict[str, Term] = {}
        fbind: Dict[str, Tuple[Term, State, FunctionInfo]] = {}
        for i, a in enumerate(args):
            if i < len(pos):
                if a[0] == 'const' and isinstance(a[1], (str, bool, type(None))):
                    cbind[pos[i]] = a
                if a[0] in ('lambda', 'localfn') or (a[0] == 'global' and
                                                     a[1] in self.repo.functions):
                    fbind[pos[i]] = (a, p, fn)
        for k, a in kws:
            if a[0] == 'const' and isinstance(a[1], (str, bool, type(None))):
                cbind[k] = a
            if a[0] in ('lambda', 'localfn') or (a[0] == 'global' and a[1] in self.repo.functions):
                fbind[k] = (a, p, fn)
        self._instantiate_roots(callee_fn, kind, self_roots, pos_roots, kw_roots, cbind, fbind,
                                f'{fn.qualname.split("plinio.")[-1]}:{ln}', add)

    def _instantiate_roots(self, callee_fn: FunctionInfo, kind: str, self_roots: Roots,
                           pos_roots: List[Roots], kw_roots: Dict[str, Roots],
                           cbind: Dict[str, Term], fbind, site: str, add):
        self.resolved_calls += 1
        params = callee_fn.params
        pos = params[1:] if kind in ('method', 'ctor') and params else params
        bind: Dict[str, Roots] = {}
        vararg = callee_fn.node.args.vararg.arg if callee_fn.node.args.vararg else None
        extra: Set[str] = set()
        for i, ra in enumerate(pos_roots):
            if i < len(pos):
                bind[pos[i]] = ra
            else:
                extra |= ra
        if vararg:
            bind[vararg] = frozenset(extra or {'fresh'})
        bind.update(kw_roots)

        def map_roots(rs: Roots, ekind: str) -> Roots:
            roots: Set[str] = set()
            for a in rs:
                g = a.startswith('g:')
                d = a.startswith('d:')
                a0 = a[2:] if (g or d) else a
                if a0 == 'self':
                    act = self_roots
                elif a0.startswith('p:'):
                    act = bind.get(a0[2:], FRESH)
                else:
                    act = frozenset({a0})
                for x in act:
                    if g:
                        roots.add('fresh' if x.startswith('sh:') or x == 'fresh' else
                                  (x if x.startswith('g:') or x in ('unknown', 'global')
                                   else 'g:' + owner(x)))
                    elif d:
                        roots.add(_derive(x))
                    else:
                        roots.add(x)
            # a write performed *directly* on a GraphModule built in this activation (setattr,
            # add_submodule, ...) stays in the fresh container; anything else reaches the owner
            return frozenset('fresh' if x.startswith('sh:') and ekind in ('setattr', 'struct',
                                                                          'update', 'setitem')
                             else ('d:' + x[3:] if x.startswith('sh:') else x) for x in roots)
        for e in self.summary(callee_fn, cbind):
            if e.kind == 'callparam':
                # a call through a function-valued parameter
                arg_roots = [map_roots(r, 'arg') for r in e.arg_roots]
                if e.name in fbind:
                    self._follow_function_value(fbind[e.name], arg_roots, (site,) + e.chain, add)
                else:
                    add(Effect('callparam', map_roots(e.roots, 'arg'), e.name, e.detail, e.fn,
                               e.lineno, (site,) + e.chain, None, None, arg_roots))
                continue
            roots2 = map_roots(e.roots, e.kind)
            if roots2 == FRESH or not roots2:
                continue
            add(Effect(e.kind, roots2, e.name, e.detail, e.fn, e.lineno, (site,) + e.chain,
                       e.value, e.recv))

    def _follow_function_value(self, fb, arg_roots: List[Roots], chain, add):
        ft, p, fn = fb
        if ft[0] == 'global' and ft[1] in self.repo.functions:
            g = self.repo.functions[ft[1]]
            self._instantiate_roots(g, 'func', FRESH, arg_roots, {}, {}, {}, chain[0], add)
            return
        if ft[0] == 'lambda':
            params, body = ft[1], ft[2]
            if body[0] != 'call':
                return
            c = callee(body)
            g = self.repo.functions.get(c) if c else None
            if g is None or g.cls is not None:
                return
            pr: List[Roots] = []
            cb: Dict[str, Term] = {}
            for i, a in enumerate(body[2]):
                if a[0] == 'bound' and a[1] in params:
                    k = list(params).index(a[1])
                    pr.append(arg_roots[k] if k < len(arg_roots) else frozenset({'unknown'}))
                else:
                    pr.append(self.root(a, p, fn))
            self._instantiate_roots(g, 'func', FRESH, pr, {}, cb, {}, chain[0], add)

    def _call_effects(self, ev, p: State, fn: FunctionInfo, ln: int, add):
        t = ev.data[0]
        mc = method_call(t)
        c = callee(t)
        if c in PURE_BUILTINS:
            return
        if c == 'torch.fx.GraphModule' or (c and c.endswith('.GraphModule')):
            # GraphModule(root, graph) adopts `graph` (its setter stores the object and rewrites
            # graph.owning_module): the new module's graph IS the argument, so every later
            # edit through the new module edits the graph's previous owner as well
            gt = t[2][1] if len(t[2]) > 1 else arg(t, 1, 'graph')
            if gt is not None:
                gr = self.root(gt, p, fn)
                gr = frozenset(a for a in gr if a != 'fresh')
                if gr:
                    add(Effect('struct', frozenset(a if a.startswith('g:') or a in
                                                   ('unknown', 'global') else 'g:' + owner(a)
                                                   for a in gr),
                               'GraphModule', 'adopts the graph ' + show(gt)[:60] +
                               ' without copying it', fn, ln))
            return
        # ShapeProp(mod).propagate(x) / mod(x) / x.forward(...): a forward pass over the graph
        if mc is not None:
            recv, name = mc[0], mc[1]
            r = self.root(recv, p, fn)
            r_owner = frozenset(a[3:] if a.startswith('sh:') else a for a in r)
            if name == 'propagate' and is_call(recv, 'torch.fx.passes.shape_prop.ShapeProp'):
                ro = self.root(recv[2][0], p, fn)
                ro = frozenset(a[3:] if a.startswith('sh:') else a for a in ro)
                add(Effect('forward', ro, 'ShapeProp.propagate', 'runs every layer\'s forward',
                           fn, ln))
                return
            if name == 'forward' and r_owner != FRESH:
                cands = self.resolve(t, p, fn, ev)
                if not cands:
                    add(Effect('forward', r_owner, 'forward', 'forward pass', fn, ln))
                    return
            if name in ('eval', 'train') and len(mc[2]) <= 1:
                add(Effect('mode', r_owner, name, show(t)[:80], fn, ln, (), None, recv))
                return
            if name == 'requires_grad_':
                add(Effect('setattr', r_owner, 'requires_grad', show(t)[:80], fn, ln))
                return
            if name.endswith('_') and not name.startswith('_') and name not in ACCESSORS:
                add(Effect('inplace', r_owner, name, show(t)[:100], fn, ln, (), None, recv))
                return
            if name in STRUCT:
                rr = frozenset('fresh' if a.startswith('sh:') else a for a in r)
                add(Effect('struct', rr, name, show(t)[:100], fn, ln, (), None, recv))
                return
            if name in CONTAINER_MUT and not self.fresh_container(recv) and \
                    not self.fresh_result(recv):
                rr = frozenset('fresh' if a.startswith('sh:') else a for a in r)
                add(Effect('update', rr, name, show(t)[:120], fn, ln, (),
                           mc[2][0] if mc[2] else None, recv))
                # a dict.update is not a repository call
                if name in ('update', 'append', 'extend', 'add', 'insert'):
                    return
        # calling a module object: mod(x), mod.to(dev)(x)
        if t[1][0] == 'call' or (t[1][0] in ('param', 'attr', 'sub', 'elem') and
                                 c is None and mc is None):
            r = self.root(t[1], p, fn)
            r_owner = frozenset(a[3:] if a.startswith('sh:') else a for a in r)
            is_module = t[1][0] == 'call'
            if t[1][0] == 'param':
                ann = None
                a_ = fn.node.args
                for x in a_.posonlyargs + a_.args + a_.kwonlyargs:
                    if x.arg == t[1][1] and x.annotation is not None:
                        ann = ast.unparse(x.annotation)
                is_module = ann is not None and ('Module' in ann) and 'Callable' not in ann
                if t[1][1] == 'self' and fn.cls is not None and fn.kind != 'static' and \
                        self.repo.find_method(fn.cls, 'forward') is not None:
                    is_module = True        # self(x): the module's own forward pass
            if is_module and r_owner != FRESH:
                add(Effect('forward', r_owner, '__call__', show(t)[:80], fn, ln))
            if t[1][0] == 'param' and not is_module:
                ar = [self.root(a, p, fn) for a in t[2]]
                eff = Effect('callparam', frozenset({'p:' + t[1][1]}), t[1][1], show(t)[:80], fn,
                             ln, (), None, None, ar)
                add(eff)
            if t[1][0] in ('call', 'param'):
                return
            if t[1][0] in ('elem', 'sub') and r_owner != FRESH and \
                    not mentions(t[1], lambda x: x[0] == 'param' and x[1] != 'self'):
                # element of a self-owned container called like a module: any forward of
                # compatible arity (class-hierarchy analysis)
                for k in self.repo.classes.values():
                    f = k.methods.get('forward')
                    if f is None or not any('torch.nn' in str(b) for b in self.repo.mro(k)):
                        continue
                    if len(f.params) - 1 == len(t[2]):
                        self._instantiate(f, 'method', t[1], t[2], t[3], p, fn, ln, add)
                return
        cands = self.resolve(t, p, fn, ev)
        if not cands:
            if c is not None and not c.startswith(('.', 'torch.', 'builtins.', 'math.', 'copy.',
                                                   'networkx.', 'numpy.', 'warnings.',
                                                   'operator.', 'typing.', 'itertools.')):
                self.unresolved.append((fn.qualname, show(t)[:80]))
            return
        for cf, kind in cands:
            recv = mc[0] if mc is not None else None
            if kind == 'attrcall':
                recv, kind = t[1], 'method'
            self._instantiate(cf, kind, recv, t[2], t[3], p, fn, ln, add)

    # -- entry -------------------------------------------------------------------------------
    def closure(self, fn: FunctionInfo) -> List[Effect]:
        return self.summary(fn)
