#!/venv/bin/python
"""Entry point: ``python sa/check.py C01 --tier quick``.

exit 0  every obligation of the property's rules discharged (or is a listed known finding)
exit 1  a refuted obligation that known_findings.json does not list (VIOLATION line)
exit 2  ANALYSIS-ERROR: the analysis cannot give a verdict (never reported as VIOLATION)
"""
from __future__ import annotations

import argparse
import importlib
import json
import os
import sys
import traceback
from pathlib import Path

HERE = Path(__file__).resolve().parent
sys.path.insert(0, str(HERE.parent))

from sa.model import AnalysisError  # noqa: E402
from sa.report import Ctx, finish  # noqa: E402


def main(argv=None) -> int:
    ap = argparse.ArgumentParser()
    ap.add_argument('prop')
    ap.add_argument('--tier', default=os.environ.get('VERIF_TIER', 'quick'),
                    choices=['quick', 'thorough'])
    ap.add_argument('--replay', default=None)
    args = ap.parse_args(argv)
    prop = args.prop.upper()
    seed = int(os.environ.get('VERIF_SEED', '0') or 0)
    if args.replay:
        # a replay re-runs the (deterministic) analysis and shows the recorded construct
        try:
            print(json.dumps(json.loads(Path(args.replay).read_text()), indent=1))
        except Exception as e:      # noqa: BLE001
            print(f'cannot read replay file: {e}')
    try:
        mod = importlib.import_module(f'sa.rules.{prop.lower()}')
    except ModuleNotFoundError:
        print(f'ANALYSIS-ERROR property={prop}: no rule module')
        return 2
    try:
        ctx = Ctx(prop, args.tier, seed)
        mod.run(ctx)
        if not ctx.obligations:
            raise AnalysisError('no obligation was generated (rules matched nothing)')
        return finish(ctx, getattr(mod, 'LEVEL', 'other'), mod.EXPLANATION, mod.RULE_TEXT)
    except AnalysisError as e:
        print(f'ANALYSIS-ERROR property={prop}: {e}')
        return 2
    except Exception as e:      # noqa: BLE001
        traceback.print_exc()
        print(f'ANALYSIS-ERROR property={prop}: internal error {type(e).__name__}: {e}')
        return 2


if __name__ == '__main__':
    sys.exit(main())
