#!/venv/bin/python
"""Entry point: ``python sa/check.py C01 --tier quick``.

exit 0  every obligation of the property's rules discharged (or is a listed known finding)
exit 1  a refuted obligation that known_findings.json does not list (VIOLATION line)
exit 2  ANALYSIS-ERROR: the analysis cannot give a verdict (never reported as VIOLATION)
"""
from __future__ import annotations

import argparse
import importlib
import json
import os
import sys
import traceback
from pathlib import Path

HERE = Path(__file__).resolve().parent
sys.path.insert(0, str(HERE.parent))

from sa.model import AnalysisError  # noqa: E402
from sa.report import Ctx, finish  # noqa: E402


def thorough_selftest(ctx: Ctx, prop: str) -> None:
    """Thorough tier: after deciding the property on the current tree, re-run this property's
    rules on every variant of the self-test corpus (textual mutants, benign twins and the
    independently seeded patches) applied to scratch copies of the CURRENT tree: each breaking
    variant must be reported, each benign twin must stay silent.  A rule that has gone blind or
    trigger-happy makes the run ANALYSIS-ERROR (exit 2): the verdict on the tree is then not to
    be believed.  A variant whose anchor text no longer exists in the tree (STALE) is listed in
    the evidence and does not fail the run."""
    import subprocess
    runpy = HERE.parent / 'selftest' / 'run.py'
    env = dict(os.environ, VERIF_NO_SELFTEST='1', VERIF_TIER='quick')
    r = subprocess.run([sys.executable, str(runpy), '--only', prop, '--json'], env=env,
                       capture_output=True, text=True, cwd=str(HERE.parent))
    try:
        res = json.loads(r.stdout.strip().splitlines()[-1])
    except Exception:       # noqa: BLE001
        raise AnalysisError('self-test corpus could not be run: ' + (r.stdout + r.stderr)[-400:])
    ctx.coverage_extra['selftest'] = res
    bad = [x for x in res['results'] if x['status'] not in ('OK', 'STALE')]
    print(f'[{prop}] thorough: self-test corpus {res["as_expected"]}/{res["variants"]} variants '
          f'as expected ({res["must_fire"]} must-fire incl. {res["seeded"]} seeded patches, '
          f'{res["benign"]} benign twins, {res["stale"]} stale)')
    if bad:
        raise AnalysisError('self-test corpus: ' + ', '.join(f'{x["id"]}={x["status"]}' for x in bad))


def main(argv=None) -> int:
    ap = argparse.ArgumentParser()
    ap.add_argument('prop')
    ap.add_argument('--tier', default=os.environ.get('VERIF_TIER', 'quick'),
                    choices=['quick', 'thorough'])
    ap.add_argument('--replay', default=None)
    args = ap.parse_args(argv)
    prop = args.prop.upper()
    seed = int(os.environ.get('VERIF_SEED', '0') or 0)
    if args.replay:
        # a replay re-runs the (deterministic) analysis and shows the recorded construct
        try:
            print(json.dumps(json.loads(Path(args.replay).read_text()), indent=1))
        except Exception as e:      # noqa: BLE001
            print(f'cannot read replay file: {e}')
    try:
        mod = importlib.import_module(f'sa.rules.{prop.lower()}')
    except ModuleNotFoundError:
        print(f'ANALYSIS-ERROR property={prop}: no rule module')
        return 2
    try:
        ctx = Ctx(prop, args.tier, seed)
        mod.run(ctx)
        if not ctx.obligations:
            raise AnalysisError('no obligation was generated (rules matched nothing)')
        if args.tier == 'thorough' and not os.environ.get('VERIF_NO_SELFTEST'):
            thorough_selftest(ctx, prop)
        return finish(ctx, getattr(mod, 'LEVEL', 'other'), mod.EXPLANATION, mod.RULE_TEXT)
    except AnalysisError as e:
        print(f'ANALYSIS-ERROR property={prop}: {e}')
        return 2
    except Exception as e:      # noqa: BLE001
        traceback.print_exc()
        print(f'ANALYSIS-ERROR property={prop}: internal error {type(e).__name__}: {e}')
        return 2


if __name__ == '__main__':
    sys.exit(main())
