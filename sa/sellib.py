"""Selection-source analysis shared by C02, C03, C06, C10.

selsrc domain: for an index expression, the tensor it is the arg-max of, the dim, and the
chain of order-preserving maps applied first (division by a positive scalar, softmax along
the same dim).  Two selections agree for every coefficient vector without ties iff they have
the same source tensor and dim.
"""
from __future__ import annotations

from typing import Dict, List, Optional, Tuple

from .model import AnalysisError, ClassInfo, FunctionInfo, Repo
from .sym import NONE, State, Term, mentions, show, subterms
from .util import (SELF, arg, callee, is_call, method_call, paths, resolve_stores, returning,
                   short)


def strip_scalar(t: Term) -> Term:
    """int(x) / x.item() / int(x.item()) -> x"""
    while True:
        if is_call(t, 'builtins.int') and len(t[2]) == 1:
            t = t[2][0]
            continue
        mc = method_call(t)
        if mc and mc[1] in ('item', 'long', 'int') and not mc[2]:
            t = mc[0]
            continue
        return t


def order_preserving_source(t: Term, dim: Optional[int]) -> Tuple[Term, List[str]]:
    """Peel order-preserving maps (along ``dim``) off a tensor expression."""
    chain: List[str] = []
    while True:
        if is_call(t, 'torch.nn.functional.softmax', 'torch.softmax'):
            d = arg(t, 1, 'dim')
            if d is not None and d[0] == 'const' and (dim is None or d[1] == dim):
                chain.append('softmax')
                t = t[2][0] if t[2] else arg(t, None, 'input')
                continue
            break
        if t[0] == 'bin' and t[1] == '/':
            chain.append(f'/ {short(t[3], 40)} (> 0 assumed)')
            t = t[2]
            continue
        if t[0] == 'bin' and t[1] == '*' and t[3][0] == 'const' and t[3][1] > 0:
            chain.append(f'* {t[3][1]}')
            t = t[2]
            continue
        break
    return t, chain


def argmax_source(t: Term) -> Optional[Tuple[Term, Optional[int], List[str]]]:
    """If t is argmax(X[, dim]) (after scalar conversions): (source tensor, dim, chain)."""
    t = strip_scalar(t)
    if is_call(t, 'torch.argmax') and t[2]:
        d = arg(t, 1, 'dim')
        dim = d[1] if d is not None and d[0] == 'const' else None
        src, chain = order_preserving_source(t[2][0], dim if dim is not None else 0)
        return src, dim, chain
    mc = method_call(t)
    if mc and mc[1] == 'argmax':
        d = arg(t, 0, 'dim')
        dim = d[1] if d is not None and d[0] == 'const' else None
        src, chain = order_preserving_source(mc[0], dim if dim is not None else 0)
        return src, dim, chain
    return None


def onehot_source(repo: Repo, t: Term) -> Optional[Tuple[Term, Optional[int], List[str]]]:
    """If t is a one-hot of an arg-max (STEArgmax.apply(X) or F.one_hot(argmax(X, dim=0),
    num_classes=len(X))[.t()/.to()]): the arg-max source."""
    x = t
    while True:
        mc = method_call(x)
        if mc and mc[1] in ('to', 't', 'float', 'type', 'detach'):
            x = mc[0]
            continue
        break
    c = callee(x)
    if c is not None and c.endswith('STEArgmax.apply') and x[2]:
        # resolve through the autograd function's forward
        cls = repo.classes.get(c[:-6])
        fwd = cls.methods.get('forward') if cls else None
        if fwd is None:
            return None
        rets = returning(paths(repo, fwd))
        if len(rets) != 1:
            return None
        inner = onehot_source(repo, rets[0].retval)
        if inner is None:
            return None
        src, dim, chain = inner
        a0 = ('sub', ('param', 'args'), ('const', 0))
        if src != a0 and src != ('param', fwd.params[1] if len(fwd.params) > 1 else ''):
            return None
        s2, ch2 = order_preserving_source(x[2][0], dim if dim is not None else 0)
        return s2, dim, chain + ch2
    if is_call(x, 'torch.nn.functional.one_hot') and x[2]:
        am = argmax_source(x[2][0])
        if am is None:
            return None
        src, dim, chain = am
        nc = arg(x, 1, 'num_classes')
        # num_classes must be the length of the same tensor (or of its source)
        if nc is not None and not (is_call(nc, 'builtins.len') and nc[2]):
            return None
        return src, dim, chain
    return None


def is_prob(t: Term) -> Optional[str]:
    """'softmax' / 'gumbel' if t is a probability vector along dim 0 by construction."""
    if is_call(t, 'torch.nn.functional.softmax', 'torch.softmax'):
        d = arg(t, 1, 'dim')
        return 'softmax' if d == ('const', 0) else None
    if is_call(t, 'torch.nn.functional.gumbel_softmax'):
        d = arg(t, 3, 'dim')
        return 'gumbel' if d == ('const', 0) else None
    return None
