"""C17 — a checkpointed search resumes to an observationally identical model (structural).

 R17a state placement: for every nn.Module subclass of plinio.methods, a PLAIN attribute
      (neither nn.Parameter, registered buffer nor sub-module) that (i) can change after
      construction — written by a method other than __init__, by a property setter, or stored
      from outside on an instance — and (ii) is read on an observation path (forward,
      get_cost, get_modified_vars, summary, export, sampling) is state outside the
      state_dict, unless every forward recomputes it before reading it.
 R17d per-tensor training flags (requires_grad, grad) are not saved: no observation path reads
      them.
 R17b stable key set: no register_buffer / register_parameter / add_module / nn.Parameter
      assignment is reachable from forward, get_cost, get_modified_vars or summary (the key
      set of the state_dict is fixed at conversion time); buffer names are per instance.
"""
from __future__ import annotations

from pathlib import Path
from typing import Dict, List, Optional, Set, Tuple

from ..effects import Effects
from ..model import AnalysisError, ClassInfo, FunctionInfo, Repo
from ..pitlib import nonpersistent_buffers, storage_kinds
from ..sym import NONE, Term, mentions, show, subterms
from ..util import (SELF, arg, callee, is_call, method_call, paths, returning, short, where)
from .c07 import recomputed_before_read

EXPLANATION = ('Storage-kind analysis of every nn.Module subclass of plinio.methods (parameter / '
               'buffer / sub-module / plain, following super().__init__ chains), enumeration of '
               'all writers of each plain attribute (own methods, setters, stores from other '
               'classes), read-sets of the observation paths, recompute-before-read check on the '
               'forwards, and reachability of state_dict-key-changing calls from forward/cost/'
               'summary. Equality of outputs after load_state_dict is not computed.')
RULE_TEXT = ('obligation = (class, plain attribute) for R17a, (class.method) for R17b; a positive '
             'control fixture must be flagged on every run')

OBS_METHODS = ('forward', 'get_cost', 'get_modified_vars', 'summary', 'export',
               'sample_alpha_sm', 'sample_alpha_gs', 'sample_alpha_none')
MODULE_HINTS = ('Masker', 'Quantizer', 'Qtz', 'Module', 'ModuleList', 'Sequential', 'BatchNorm',
                'Conv', 'Linear', 'Pad', 'Combiner')


def module_classes(repo: Repo, prefix: str = 'plinio.methods') -> List[ClassInfo]:
    return [c for c in repo.classes.values()
            if c.module.name.startswith(prefix) and
            any('torch.nn' in str(b) for b in repo.mro(c))]


def external_stores(repo: Repo) -> Dict[str, List[Tuple[FunctionInfo, int]]]:
    """attribute names stored on a receiver other than self, outside constructors."""
    out: Dict[str, List[Tuple[FunctionInfo, int]]] = {}
    for fn in repo.all_functions():
        if fn.name == '__init__':
            continue
        for p in paths(repo, fn):
            for e in p.events:
                if e.kind == 'setattr' and e.data[0] != SELF:
                    recv = e.data[0]
                    # skip objects created in this function (new layers being configured)
                    if recv[0] == 'call' and callee(recv) and (
                            callee(recv) in repo.classes or callee(recv).startswith('torch.nn.')):
                        continue
                    out.setdefault(e.data[1], []).append((fn, getattr(e.node, 'lineno', 0)))
    return out


def class_family_functions(repo: Repo, ci: ClassInfo) -> List[FunctionInfo]:
    out = []
    for c in repo.mro(ci):
        if isinstance(c, ClassInfo):
            out += list(c.methods.values()) + list(c.getters.values()) + list(c.setters.values())
    for c in repo.subclasses(ci, strict=True):
        out += list(c.methods.values()) + list(c.getters.values()) + list(c.setters.values())
    return out


def is_module_valued(repo: Repo, ci: ClassInfo, attr: str) -> bool:
    for c in repo.mro(ci):
        if not isinstance(c, ClassInfo):
            continue
        for m in c.methods.values():
            for p in paths(repo, m):
                for e in p.events:
                    if e.kind == 'setattr' and e.data[0] == SELF and e.data[1] == attr:
                        v = e.data[2]
                        cl = callee(v)
                        if cl and ((cl.startswith('torch.nn.') and
                                    cl.split('.')[-1][:1].isupper() and
                                    'functional' not in cl and 'Parameter' not in cl) or (
                                cl in repo.classes and any(
                                    'torch.nn' in str(b) for b in repo.mro(repo.classes[cl])))):
                            return True
                        if v[0] == 'param':
                            a = m.node.args
                            for x in a.posonlyargs + a.args + a.kwonlyargs:
                                if x.arg == v[1] and x.annotation is not None:
                                    import ast as _ast
                                    s = _ast.unparse(x.annotation)
                                    if any(h in s for h in MODULE_HINTS):
                                        return True
                        if v[0] == 'ifexp' and all(callee(x) for x in (v[2], v[3])):
                            return True
    return False


def is_abstract(repo: Repo, ci: ClassInfo) -> bool:
    f = repo.find_method(ci, 'forward')
    if f is None:
        return False
    return not any(p.status == 'return' for p in paths(repo, f))


def runtime_mutable(repo: Repo, E: Effects) -> Dict[str, list]:
    """Attribute names that a *public run-time entry point* of a wrapper (any public method or
    setter other than the constructor, or the precision-refinement utility) can store on an
    object owned by the NAS model, with the entry points that do so.  Conversion-time code is
    reached only through the constructor and is therefore excluded, except where a public
    method re-enters it (export -> convert(..., 'export'), resolved path-sensitively)."""
    out: Dict[str, list] = {}
    dnas = repo.cls('DNAS')
    entries: List[Tuple[str, FunctionInfo]] = []
    for w in repo.subclasses(dnas):
        for f in list(w.methods.values()) + list(w.setters.values()):
            if f.name.startswith('_') and f.name not in ('__call__',):
                continue
            entries.append((f'{w.name}.{f.name}' + ('=' if f.kind == 'setter' else ''), f))
    entries.append(('optimize_prec_assignment', repo.fn('optimize_prec_assignment')))
    # every forward pass is a run-time entry point too
    for c in repo.classes.values():
        f = c.methods.get('forward')
        if f is not None and c.module.name.startswith('plinio.methods') and \
                any('torch.nn' in str(b) for b in repo.mro(c)) and \
                not repo.is_subclass(c, dnas.qualname):
            entries.append((f'{c.name}.forward', f))
    for label, f in entries:
        first = 'p:' + f.params[0] if f.cls is None else 'self'
        for e in E.closure(f):
            if e.kind == 'setattr' and first in e.owners:
                out.setdefault(e.name, [])
                item = (label, e.fn, e.recv == SELF)
                if item not in out[e.name]:
                    out[e.name].append(item)
    return out


def mutators_of(repo: Repo, mutable, ci: ClassInfo, attr: str) -> List[str]:
    """Entry points that can store ``attr`` on an instance of ``ci``: a store on ``self`` must
    be in a method of ci's own hierarchy; a store on another receiver must come from the same
    method package (a wrapper only contains layers of its own method)."""
    out = []
    pk = '.'.join(ci.module.name.split('.')[:3])
    for label, fn, on_self in mutable.get(attr, []):
        if on_self and fn.cls is not None:
            if repo.is_subclass(ci, fn.cls.qualname) or repo.is_subclass(fn.cls, ci.qualname):
                out.append(label)
        elif fn.module.name.startswith(pk):
            out.append(label)
    return sorted(set(out))


def r17a(ctx, repo: Repo, classes: List[ClassInfo], label: str = ''):
    E = Effects(repo)
    mutable = runtime_mutable(repo, E)
    dnas = repo.cls('DNAS')
    n = 0
    reported = set()
    for ci in sorted(classes, key=lambda c: c.qualname):
        if repo.is_subclass(ci, dnas.qualname):
            continue        # wrapper-level mirrors of the options are constructor arguments
        if is_abstract(repo, ci):
            continue        # storage kinds are decided by the concrete subclasses
        kinds = storage_kinds(repo, ci)
        fam = class_family_functions(repo, ci)
        own = [f for c in repo.mro(ci) if isinstance(c, ClassInfo)
               for f in list(c.methods.values()) + list(c.setters.values())]
        own_attrs = set(kinds)
        for f in own:
            for p in paths(repo, f):
                for e in p.events:
                    if e.kind == 'setattr' and e.data[0] == SELF:
                        own_attrs.add(e.data[1])
        obs_fns = [f for f in fam if f.name in OBS_METHODS or f.kind == 'getter']
        reads = E.attrs_read(obs_fns)
        nonpers = nonpersistent_buffers(repo, ci)
        for a in sorted(own_attrs):
            kind = kinds.get(a, 'plain')
            if kind == 'buffer' and a in nonpers:
                kind = 'plain'      # registered with persistent=False: not in the state_dict
            if kind in ('param', 'buffer') or a.startswith('__') or a == 'training':
                continue
            muts = mutators_of(repo, mutable, ci, a)
            if not muts or a not in reads:
                continue
            if is_module_valued(repo, ci, a):
                continue
            if repo.find_setter(ci, a) is not None or repo.find_getter(ci, a) is not None:
                continue        # a property: its backing field is judged instead
            owner = next((c for c in reversed([x for x in repo.mro(ci)
                                               if isinstance(x, ClassInfo)])
                          if any(a in [e.data[1] for p in paths(repo, m) for e in p.events
                                       if e.kind == 'setattr' and e.data[0] == SELF]
                                 for m in list(c.methods.values()) + list(c.setters.values()))),
                         ci)
            if is_abstract(repo, owner) and kinds.get(a) is not None and \
                    any(storage_kinds(repo, sub).get(a) != kinds.get(a)
                        for sub in repo.subclasses(owner, strict=True)
                        if not is_abstract(repo, sub)):
                owner = ci      # siblings store it differently: judge each concrete class
            key = (owner.name, a)
            if key in reported:
                continue
            reported.add(key)
            n += 1
            fam_pref = ('.'.join(ci.module.name.split('.')[:3]),)
            recomputed = a in _forward_written(repo, E, ci) and \
                recomputed_before_read(ctx, E, a, fam_pref)
            ctx.ob('R17a', f'{label}{owner.name}.{a}', recomputed,
                   'recomputed by every forward before it is read' if recomputed else
                   f'{owner.name}.{a} is a plain attribute (not in the state_dict) that '
                   f'{", ".join(muts[:3])} can change after construction and that '
                   f'forward / cost / summary / export paths read: a model restored from a '
                   f'checkpoint into a fresh wrapper does not get it back', owner.where)
    return n


def _forward_written(repo: Repo, E: Effects, ci: ClassInfo) -> Set[str]:
    out = set()
    f = repo.find_method(ci, 'forward')
    if f is not None:
        for e in E.closure(f):
            if 'self' in e.owners and e.kind == 'setattr':
                out.add(e.name)
    return out


def r17b(ctx, repo: Repo, classes: List[ClassInfo], label: str = '') -> int:
    E = Effects(repo)
    hits = 0
    for ci in sorted(classes, key=lambda c: c.qualname):
        for name in ('forward', 'get_cost', 'get_modified_vars', 'summary'):
            f = ci.methods.get(name)
            if f is None:
                continue
            bad = []
            for e in E.closure(f):
                if e.kind == 'struct' and e.name in ('register_buffer', 'register_parameter',
                                                     'add_module', 'add_submodule'):
                    bad.append(e)
                if e.kind == 'setattr' and e.value is not None and \
                        is_call(e.value, 'torch.nn.Parameter', 'torch.nn.parameter.Parameter'):
                    bad.append(e)
            hits += len(bad)
            ctx.ob('R17b', f'{label}{ci.name}.{name} keeps the state_dict key set', not bad,
                   'no buffer/parameter/sub-module registration reachable' if not bad else
                   f'{bad[0].name} ({bad[0].detail[:70]}) at {bad[0].where()} is reachable from '
                   f'{name}: the key set of the state_dict changes after conversion (missing / '
                   f'unexpected keys on load)', where(f), nontrivial=bool(bad))
    return hits


TENSOR_FLAGS = ('requires_grad', 'grad', 'grad_fn')


def r17d(ctx, repo: Repo, classes: List[ClassInfo]):
    """Per-tensor training flags are state outside the state_dict: ``requires_grad`` (switched by
    train_net_only / train_nas_only and by the train_* setters) and the accumulated ``grad`` are
    not saved, and a freshly constructed wrapper has the constructor's flags.  No observation
    path (forward, cost, summary, export, sampling; property getters included) may read them:
    a mask or a cost that depends on whether a parameter is currently trainable differs between
    the checkpointed model and the restored one."""
    E = Effects(repo)
    entry: List[Tuple[str, FunctionInfo]] = []
    for ci in classes:
        for m in OBS_METHODS:
            f = ci.methods.get(m)
            if f is not None:
                entry.append((f'{ci.name}.{m}', f))
    from .c18 import observers
    for w, f in observers(ctx):
        entry.append((f'{w.name}.{f.name}', f))
    cache: Dict[str, List[Tuple[FunctionInfo, str]]] = {}

    def flag_reads(g: FunctionInfo):
        k = g.qualname + ('#s' if g.kind == 'setter' else '')
        if k not in cache:
            rd = E.attrs_read([g]) if g.kind != 'setter' else set()
            cache[k] = [(g, a) for a in TENSOR_FLAGS if a in rd]
        return cache[k]
    n = 0
    for lbl, f in entry:
        n += 1
        # attribute names resolve class-family wide: a layer only contains layers of its own
        # method (plinio.methods.<method>), the DNAS base class any of them
        fam = '.'.join(f.module.name.split('.')[:3])
        bad = [x for g in E.reachable(f).values() for x in flag_reads(g)
               if fam == 'plinio.methods.dnas_base' or g.module.name.startswith(fam) or
               not g.module.name.startswith('plinio.methods')]
        ctx.ob('R17d', f'{lbl} does not depend on training flags', not bad,
               'no requires_grad / grad read on the observation path' if not bad else
               f'{bad[0][0].qualname.split("plinio.")[-1]} reads .{bad[0][1]} and is reached from '
               f'{lbl}: the flag is not part of the state_dict (train_net_only / train_nas_only '
               f'and the train_* setters change it), so the restored model, built with the '
               f'constructor\'s flags, is observed differently from the checkpointed one',
               where(bad[0][0]) if bad else where(f))
    ctx.floor('R17d', 'observation entry points', n, 60)


PROTOCOL = ('load_state_dict', '_load_from_state_dict', 'state_dict', '_save_to_state_dict',
            '__setstate__', '__getstate__', 'set_extra_state', 'get_extra_state')
HOOKS = ('register_load_state_dict_post_hook', '_register_load_state_dict_pre_hook',
         'register_load_state_dict_pre_hook', 'register_state_dict_pre_hook',
         '_register_state_dict_hook', 'register_state_dict_post_hook')


def r17e(ctx, repo: Repo, classes: List[ClassInfo]) -> int:
    """Saving and loading are exact: an override of the checkpoint protocol (load_state_dict,
    state_dict, their per-module workers, pickling, extra state) or a hook registered on it
    neither runs a forward pass -- in training mode, the default when a search is resumed, a
    forward pass updates every BatchNorm's running statistics with the example input and
    re-samples the selection coefficients, also under no_grad -- nor switches the mode nor
    writes a tensor in place.  Returns the number of protocol entry points judged."""
    E = Effects(repo)
    n = 0
    entries = []
    for ci in classes:
        for name in PROTOCOL:
            fn = ci.methods.get(name)
            if fn is not None:
                entries.append((f'{ci.name}.{name}', fn))
        for fn in ci.methods.values():
            for p in paths(repo, fn):
                for e in p.calls():
                    mc = method_call(e.data[0])
                    if mc is None or mc[1] not in HOOKS or not mc[2]:
                        continue
                    h = mc[2][0]
                    tgt = None
                    if h[0] == 'attr' and h[1] == SELF:
                        tgt = repo.find_method(ci, h[2])
                    elif h[0] == 'global' and h[1] in repo.functions:
                        tgt = repo.functions[h[1]]
                    if tgt is None:
                        raise AnalysisError(f'R17e: {ci.name}.{fn.name} registers the checkpoint '
                                            f'hook {show(h)[:60]}, which is not a method or a '
                                            f'module-level function')
                    entries.append((f'{ci.name}.{fn.name} hook {tgt.name}', tgt))
    seen = set()
    for label, fn in entries:
        if (label, fn.qualname) in seen:
            continue
        seen.add((label, fn.qualname))
        n += 1
        bad = [e for e in E.closure(fn) if e.kind in ('forward', 'mode', 'inplace') and
               e.owners & {'self', 'g:self', 'unknown', 'global'}]
        ctx.ob('R17e', f'{label} restores / reports the state only', not bad,
               'no forward pass, mode switch or in-place tensor write' if not bad else
               '; '.join(f'{e.kind} {e.name} at {e.where()}' for e in bad[:3]) +
               ': loading a checkpoint into a wrapper in training mode (the default when a search '
               'is resumed) then rewrites state that the checkpoint has just restored (BatchNorm '
               'running statistics, sampled coefficients, observed ranges), so the resumed model '
               'differs from the saved one', f'{fn.module.relpath}:{fn.node.lineno}')
    return n


def run(ctx):
    # the sampler flags live outside the state_dict (known findings below); a wrapper rebuilt
    # with the same constructor arguments matches the checkpointed one only as long as nothing
    # changes the flags behind the user's back: partial option updates keep the others (C11)
    from .c11 import option_defaults_rule
    option_defaults_rule(ctx, 'R17c')
    repo = ctx.repo
    classes = module_classes(repo)
    ctx.floor('C17', 'nn.Module subclasses in plinio.methods', len(classes), 40)
    n = r17a(ctx, repo, classes)
    ctx.floor('R17a', 'mutable observed plain attributes', n, 5)
    r17b(ctx, repo, classes)
    r17d(ctx, repo, classes)
    ne = r17e(ctx, repo, classes + [c for c in repo.classes.values() if c not in classes and
                                    any('torch.nn' in str(b) for b in repo.mro(c))])
    ctx.count('R17e checkpoint-protocol overrides and hooks in plinio', ne)
    # positive control for the zero-count rule R17b
    fx_root = Path(__file__).resolve().parent.parent.parent / 'selftest' / 'fixtures' / 'c17'
    if not (fx_root / 'plinio').is_dir():
        raise AnalysisError('positive-control fixture for R17b is missing')
    fx = Repo(fx_root)

    class _Null:
        def __init__(self):
            self.obs = []

        def ob(self, rule, construct, ok, msg, where='', nontrivial=True, **kw):
            self.obs.append((rule, construct, ok))
            return ok
    null = _Null()
    fx_classes = [c for c in fx.classes.values()]
    r17b(null, fx, fx_classes)
    fired = [o for o in null.obs if not o[2]]
    ctx.ob('R17b', 'positive control: fixture with register_buffer in forward is flagged',
           len(fired) >= 1, f'{len(fired)} fixture site(s) flagged' if fired else
           'the detector no longer recognises a buffer registration inside forward',
           'selftest/fixtures/c17', nontrivial=False)
    null2 = _Null()
    r17e(null2, fx, fx_classes)
    fired2 = [o for o in null2.obs if not o[2]]
    ctx.ob('R17e', 'positive control: fixture whose load_state_dict runs a forward pass is flagged',
           len(fired2) >= 1, f'{len(fired2)} fixture override(s) flagged' if fired2 else
           'the detector no longer recognises a forward pass inside a load_state_dict override',
           'selftest/fixtures/c17', nontrivial=False)
    ctx.assume('load_state_dict restores exactly parameters and registered buffers; a freshly '
               'constructed wrapper re-creates constructor-only attributes from its arguments')


MANIFEST = {
    'text': 'For every nn.Module subclass of plinio.methods: each plain attribute that can change '
            'after construction and that forward/cost/summary/export read is either recomputed '
            'by every forward before being read or reported as state outside the state_dict; no '
            'buffer/parameter/sub-module registration is reachable from forward/cost/summary '
            '(stable key set, with a positive-control fixture). Equality of outputs after a '
            'reload is not computed. No override / hook of the checkpoint protocol runs a forward pass, switches the mode or writes a tensor in place (with a positive-control fixture).',
    'note': 'Known findings: the sampling options (hard/gumbel/disable flags, selected sampler, '
            'SuperNet temperature) and discrete_cost live outside the state_dict.',
    'technique': 'storage-kind + writer/reader set analysis, recompute-before-read check, '
                 'effect-closure reachability',
}
