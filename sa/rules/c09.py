"""C09 — every layer sees exactly the alive features of the tensor that reaches it
(structural clauses).

 R09a classification tables are consistent: the op sets of graph/inspection.py are extracted
      as data; shared-input functions are propagating; defining and propagating module
      classes are disjoint except through one and the same depthwise predicate; the case
      chain of add_features_calculator and the one of associate_input_features test the same
      classes in a compatible priority order and both end in an explicit error.
 R09b calculator state is per instance: every buffer name a FeaturesCalculator registers
      depends on the recursion prefix, is remembered, and is the name its getters read; the
      recursion makes sibling prefixes distinct and does not accumulate them.
 R09c count/mask agreement: features and features_mask of each calculator are two views of
      the same structure (same inputs, same order, same multiplier).
 R09d one source, three consumers: the reported (summary), charged (cost) and exported input
      width of every PIT / MPS layer read the same input_features_calculator, which the graph
      pass takes from input_features_set_by.
"""
from __future__ import annotations

import ast
from typing import Dict, List, Optional, Set, Tuple

from ..classify import classify
from ..model import AnalysisError, ClassInfo, FunctionInfo
from ..sym import NONE, Term, mentions, show, subterms
from ..util import (SELF, arg, callee, closure_nodes, is_call, method_call, path_guards, paths,
                    returning, short, where)

EXPLANATION = ('Table extraction from the classification predicates of graph/inspection.py and the '
               'two case chains of graph/annotation.py (compared as data), def-use analysis of '
               'buffer naming and of the features / features_mask pairs of every calculator, and '
               'of the single calculator object that summary, cost and export read. Coverage of '
               'arbitrary DAGs (unsupported ops) is not decided.')
RULE_TEXT = 'obligation = one table relation / one calculator clause / one layer-class consumer'


# ---------------------------------------------------------------------------------------
def op_sets(fn: FunctionInfo) -> Dict[str, Set[str]]:
    """targets compared with n.target (functions) and classes tested by isinstance on the
    sub-module, in a predicate of inspection.py, for the branches that return True."""
    funcs: Set[str] = set()
    mods: Set[str] = set()
    for n in ast.walk(fn.node):
        if isinstance(n, ast.If) and any(isinstance(b, ast.Return) and
                                         isinstance(b.value, ast.Constant) and b.value.value is True
                                         for b in n.body):
            for c in ast.walk(n.test):
                if isinstance(c, ast.Compare) and len(c.ops) == 1 and \
                        isinstance(c.ops[0], ast.Eq) and ast.unparse(c.left) == 'n.target':
                    funcs.add(ast.unparse(c.comparators[0]))
                if isinstance(c, ast.Call) and ast.unparse(c.func) == 'isinstance' and \
                        len(c.args) == 2:
                    mods.add(ast.unparse(c.args[1]))
    return {'functions': funcs, 'modules': mods}


def depthwise_predicates(fn: FunctionInfo) -> List[Tuple[str, Optional[bool]]]:
    """(normalised predicate, value returned when it holds) for the depthwise special case."""
    out = []
    for n in ast.walk(fn.node):
        if isinstance(n, ast.If) and 'groups' in ast.unparse(n.test) and \
                'in_channels' in ast.unparse(n.test):
            ret = None
            for b in n.body:
                if isinstance(b, ast.Return) and isinstance(b.value, ast.Constant):
                    ret = b.value.value
            out.append((ast.unparse(n.test), ret))
    return out


def case_chain(fn: FunctionInfo, var_names: Tuple[str, ...], repo=None) -> List[Tuple[str, str]]:
    """Ordered (variable, meta key) tests of the top-level if/elif chain in the loop body."""
    chains: List[List[Tuple[str, str]]] = []

    def chain_of(node: ast.If) -> List[Tuple[str, str]]:
        out = []
        cur: Optional[ast.If] = node
        while cur is not None:
            # "a or b or c": one case per alternative, in the written (evaluation) order
            alts = cur.test.values if isinstance(cur.test, ast.BoolOp) and \
                isinstance(cur.test.op, ast.Or) else [cur.test]
            for t in alts:
                keys = []
                for c in ast.walk(t):
                    if isinstance(c, ast.Subscript) and isinstance(c.value, ast.Attribute) and \
                            c.value.attr == 'meta' and isinstance(c.slice, ast.Constant) and \
                            isinstance(c.value.value, ast.Name) and c.value.value.id in var_names:
                        keys.append((c.value.value.id, c.slice.value))
                out.append(keys[0] if keys else ('', ast.unparse(t)[:40]))
            nxt = cur.orelse
            if len(nxt) == 1 and isinstance(nxt[0], ast.If):
                cur = nxt[0]
            else:
                out.append(('else', 'raise' if any(isinstance(x, ast.Raise) for x in nxt)
                            else 'other'))
                cur = None
        return out
    fns = [fn]
    if repo is not None:
        # the chain may have been moved into a step helper of the function
        from ..util import helper_closure
        fns = helper_closure(repo, fn)
    def keys_of(t):
        alts = t.values if isinstance(t, ast.BoolOp) and isinstance(t.op, ast.Or) else [t]
        out = []
        for a in alts:
            keys = []
            for c in ast.walk(a):
                if isinstance(c, ast.Subscript) and isinstance(c.value, ast.Attribute) and \
                        c.value.attr == 'meta' and isinstance(c.slice, ast.Constant) and \
                        isinstance(c.value.value, ast.Name) and c.value.value.id in var_names:
                    keys.append((c.value.value.id, c.slice.value))
            out.append(keys[0] if keys else ('', ast.unparse(a)[:40]))
        return out

    def seq_chain(stmts) -> List[Tuple[str, str]]:
        """the same case analysis written as consecutive ``if test: return ...`` statements"""
        best, cur = [], []
        for k, st in enumerate(stmts):
            if isinstance(st, ast.If) and not st.orelse and st.body and \
                    isinstance(st.body[-1], (ast.Return, ast.Raise, ast.Continue)):
                cur += keys_of(st.test)
                continue
            if cur:
                cur.append(('else', 'raise' if isinstance(st, ast.Raise) else 'other'))
                if len(cur) > len(best):
                    best = cur
            cur = []
        if cur and len(cur) > len(best):
            best = cur + [('else', 'other')]
        return best
    for g in fns:
        for n in ast.walk(g.node):
            if isinstance(n, ast.If):
                c = chain_of(n)
                chains.append(c)
            body = getattr(n, 'body', None)
            if isinstance(body, list) and isinstance(n, (ast.FunctionDef, ast.For, ast.While)):
                chains.append(seq_chain(body))
    return max(chains, key=len) if chains else []


def node_table(ctx):
    """interpreted classification table: world label -> meta key -> bool|None (sa/classify)"""
    if getattr(ctx, '_node_table', None) is not None:
        return ctx._node_table
    repo = ctx.repo
    props = repo.fn('add_single_node_properties')
    pred_of: Dict[str, str] = {}
    # which predicate fills which node flag: add_single_node_properties is run by the finite
    # interpreter with every predicate replaced by a marker (so assignments written one by one,
    # through a table of (name, predicate) pairs or in a loop are all the same)
    from ..mini import Mini, Obj, Raised, Token, Unsupported
    insp = repo.modules['plinio.graph.inspection']
    glob = {}
    for st in insp.tree.body:
        if isinstance(st, ast.FunctionDef):
            glob[st.name] = Token('pred:' + st.name, lambda *a, _n=st.name: ('PRED', _n))
    node = Obj('Node')
    node.attrs['meta'] = {}
    try:
        Mini(glob).call_function(props.node, [node, Obj('GraphModule')])
        for k, v in node.attrs['meta'].items():
            if isinstance(v, tuple) and len(v) == 2 and v[0] == 'PRED':
                pred_of[k] = v[1]
    except (Unsupported, Raised) as ex:
        raise AnalysisError(f'add_single_node_properties is outside the interpreted subset: {ex}')
    preds = sorted(set(pred_of.values()) | {'is_concatenate'})
    raw = classify(repo, preds)
    table = {}
    for label, res in raw.items():
        table[label] = {k: res[p] for k, p in pred_of.items()}
        table[label]['concatenate'] = res['is_concatenate']
    ctx._node_table = table
    ctx._pred_of = pred_of
    return table


def r09a(ctx):
    repo = ctx.repo
    shared = repo.fn('is_shared_input_features_op')
    prop = repo.fn('is_features_propagating_op')
    defi = repo.fn('is_features_defining_op')
    table = node_table(ctx)
    unknown = [(l, k) for l, r in table.items() for k, v in r.items()
               if v is None and k != 'zero_or_one_input']
    if unknown:
        raise AnalysisError(f'R09a: classification not interpretable for {unknown[:4]}')
    tok = lambda key: sorted({l for l, r in table.items() if r.get(key)})   # noqa: E731
    ctx.floor('R09a', 'propagating op worlds', len(tok('features_propagating')), 30)
    ctx.floor('R09a', 'shared-input op worlds', len(tok('shared_input_features')), 6)
    miss = [l for l in tok('shared_input_features') if not table[l]['features_propagating']]
    ctx.ob('R09a', 'shared-input functions are propagating', not miss,
           f'{len(tok("shared_input_features"))} shared-input worlds, all propagating' if not miss
           else f'{miss} are shared-input ops but not propagating ops: associate_input_features '
           f'has no case for them and raises on a residual connection built with them',
           where(shared))
    both = [l for l in table if table[l]['features_defining'] and table[l]['features_propagating']]
    # a class whose classification depends on the depthwise configuration must flip between
    # defining (standard) and propagating (depthwise): the depthwise layer keeps the width of
    # its producer, the standard one defines a new width
    bad_flip = []
    for l, r in table.items():
        if not l.endswith('[std]'):
            continue
        d = table[l[:-5] + '[dw]']
        if (r['features_defining'], r['features_propagating']) != \
                (d['features_defining'], d['features_propagating']):
            if not (r['features_defining'] and not r['features_propagating'] and
                    d['features_propagating'] and not d['features_defining']):
                bad_flip.append(l[:-6])
    # grouped but not depthwise configurations (groups equal to only one of the two widths)
    # are ordinary width-defining layers: classified exactly like the standard configuration
    for l, r in table.items():
        if l.endswith('[std]'):
            for tag in ('[g=in]', '[g=out]'):
                o = table[l[:-5] + tag]
                if (o['features_defining'], o['features_propagating']) != \
                        (r['features_defining'], r['features_propagating']):
                    bad_flip.append(l[:-5] + tag)
    convs = [l[:-6] for l, r in table.items() if l.endswith('[std]') and r['features_defining']
             and table[l[:-5] + '[dw]']['features_propagating']]
    ok = not both and not bad_flip
    ctx.ob('R09a', 'defining / propagating overlap only through the depthwise predicate', ok,
           f'no node is both; {convs} are defining unless depthwise, in which case they propagate'
           if ok else
           f'worlds classified as both defining and propagating: {both}; classes whose depthwise '
           f'configuration is not "defining when standard, propagating when depthwise": '
           f'{bad_flip}', where(defi))
    # concatenate: features_concatenate implies concatenate
    fc = repo.fn('is_features_concatenate')
    cc_bad = [l for l in tok('features_concatenate') if not table[l]['concatenate']]
    okc = not cc_bad and bool(tok('features_concatenate'))
    ctx.ob('R09a', 'feature concatenation is a concatenation', okc,
           'is_features_concatenate worlds are is_concatenate worlds' if okc else
           (f'is_features_concatenate recognises {cc_bad} that is_concatenate does not' if cc_bad
            else 'no node at all is classified as a concatenation over the features axis'),
           where(fc), nontrivial=False)
    # the classification of a function node does not depend on HOW its axis argument is
    # written: f(x, 1) and f(x, dim=1) are the same operation
    form_bad = []
    n_forms = 0
    for l, r in table.items():
        if l.endswith(' kw]'):
            twin = l[:-4] + ']'
            if twin in table:
                n_forms += 1
                diff = sorted(k for k in r if r[k] != table[twin][k])
                if diff:
                    form_bad.append((twin, diff))
    ctx.floor('R09a', 'positional / keyword world pairs', n_forms, 10)
    ctx.ob('R09a', 'classification independent of positional / keyword axis', not form_bad,
           f'{n_forms} function worlds classified identically with the axis passed positionally '
           f'and by keyword' if not form_bad else
           '; '.join(f'{l}: {d} differ between f(x, {l.split("dim=")[1][0]}) and '
                     f'f(x, dim={l.split("dim=")[1][0]})' for l, d in form_bad[:3]) +
           ': a model that writes the axis the other way gets a different width derivation '
           '(e.g. a channel concatenation treated as a shared-input op: the consumer sees the '
           'features of its first input only and the branches are forced to share a masker)',
           where(fc))
    # ... nor on the END the axis is counted from: on a rank-4 tensor dim=-3 is the features
    # axis and dim=-2 a spatial one
    neg_bad = []
    n_neg = 0
    for l, r in table.items():
        for neg, pos in (('[dim=-3]', '[dim=1]'), ('[dim=-2]', '[dim=2]')):
            if l.endswith(neg):
                twin = l[:-len(neg)] + pos
                if twin in table:
                    n_neg += 1
                    diff = sorted(k for k in r if r[k] != table[twin][k])
                    if diff:
                        neg_bad.append((l, twin, diff))
    ctx.floor('R09a', 'negative / positive axis world pairs', n_neg, 10)
    ctx.ob('R09a', 'classification independent of the end the axis is counted from', not neg_bad,
           f'{n_neg} function worlds classified identically with the axis counted from the end'
           if not neg_bad else
           '; '.join(f'{l} vs {t}: {d} differ' for l, t, d in neg_bad[:3]) +
           ': on NCHW tensors torch.cat(xs, dim=-3) is a concatenation over the features axis, '
           'but it is classified like one over another axis: the consumer sees the features of '
           'its first input only and the concatenated branches are forced to share a masker',
           where(fc))
    # case chains
    afc = repo.fn('add_features_calculator')
    aif = repo.fn('associate_input_features')
    c1 = case_chain(afc, ('n',), repo)
    c2 = case_chain(aif, ('n', 'prev'), repo)
    k1 = [k for v, k in c1 if v == 'n']
    k2 = [k for v, k in c2 if v in ('n', 'prev')]
    k2_prev = [k for v, k in c2 if v == 'prev']
    ctx.floor('R09a', 'cases of add_features_calculator', len(k1), 7)
    ctx.floor('R09a', 'cases of associate_input_features', len(k2), 7)
    # the producer-kind cases (tests on prev) must appear in the priority order in which the
    # first pass tests the same kinds on the node itself
    order1 = [k for k in k1 if k in k2_prev]
    order_ok = order1 == k2_prev
    only1 = [k for k in k1 if k not in k2]
    ok = order_ok and set(only1) <= {'shared_input_features'}
    ctx.ob('R09a', 'case chains agree', ok,
           f'producer kinds tested in the same priority order {k2_prev}; shared_input_features is '
           f'covered by the propagating case' if ok else
           f'add_features_calculator tests {k1} but associate_input_features tests (on the '
           f'producer) {k2_prev}: a node kind handled by one pass and not (or in another '
           f'priority) by the other gets a calculator from one producer and an input width from '
           f'another', where(aif))
    for name, ch, fn in (('add_features_calculator', c1, afc), ('associate_input_features', c2,
                                                               aif)):
        ok = bool(ch) and ch[-1] == ('else', 'raise')
        ctx.ob('R09a', f'{name} rejects unsupported nodes', ok,
               'the chain ends in an explicit error' if ok else
               'unsupported nodes fall through silently', where(fn), nontrivial=False)


# ---------------------------------------------------------------------------------------
def calculator_classes(ctx) -> List[ClassInfo]:
    base = ctx.repo.cls('FeaturesCalculator')
    return ctx.repo.subclasses(base, strict=True)


def r09b(ctx):
    repo = ctx.repo
    n = 0
    for ci in calculator_classes(ctx):
        reg = ci.methods.get('register')
        if reg is None:
            raise AnalysisError(f'{ci.name}.register missing')
        prefix = ('param', reg.params[2])
        name_attrs: Dict[str, Term] = {}
        for p in returning(paths(repo, reg)):
            stored = {e.data[1]: e.data[2] for e in p.events
                      if e.kind == 'setattr' and e.data[0] == SELF}
            for e in p.calls():
                mc = method_call(e.data[0])
                if mc and mc[1] == 'register_buffer' and len(mc[2]) >= 2:
                    n += 1
                    nm = mc[2][0]
                    resolved = stored.get(nm[2]) if nm[0] == 'attr' and nm[1] == SELF else nm
                    dep = resolved is not None and mentions(resolved, lambda x: x == prefix)
                    remembered = nm[0] == 'attr' and nm[1] == SELF
                    ctx.ob('R09b', f'{ci.name}.register buffer {short(mc[2][1], 40)}',
                           dep and remembered,
                           f'name {short(resolved, 60)} depends on the prefix and is remembered'
                           if dep and remembered else
                           f'buffer registered under {short(resolved if resolved else nm, 60)}: '
                           f'the name does not depend on the recursion prefix, so two calculators '
                           f'registered on the same layer (concatenation of fixed-width tensors) '
                           f'overwrite each other', where(reg, e.node))
                    if remembered:
                        name_attrs[nm[2]] = mc[2][1]
                # recursion into children
                if mc and mc[1] == 'register' and mc[0] != SELF and len(mc[2]) >= 2:
                    child_prefix = mc[2][1]
                    uses = sum(1 for x in subterms(child_prefix) if x == prefix)
                    distinct = True
                    if mc[0][0] == 'sub' and mc[0][1][0] == 'elem':
                        # child drawn from an enumeration: prefix must contain the index
                        el = mc[0][1]
                        distinct = mentions(child_prefix, lambda x: x == ('sub', el, ('const', 0)))
                    ok = uses == 1 and distinct and child_prefix != prefix
                    ctx.ob('R09b', f'{ci.name}.register child prefix', ok,
                           f'child prefix {short(child_prefix, 60)}' if ok else
                           f'children are registered with prefix {short(child_prefix, 80)}: it '
                           f'must extend this calculator\'s own prefix exactly once and '
                           f'distinguish siblings by their index', where(reg, e.node))
        # getters read the remembered names on the registering module
        for gname in ('features', 'features_mask'):
            g = ci.getters.get(gname)
            if g is None or not name_attrs:
                continue        # calculators that register nothing keep no buffer
            for p in returning(paths(repo, g)):
                gets = [x for x in subterms(p.retval) if is_call(x, 'builtins.getattr')]
                for x in gets:
                    if x[2][0] == ('attr', SELF, 'mod') and x[2][1][0] == 'attr' and \
                            x[2][1][1] == SELF:
                        ok = x[2][1][2] in name_attrs
                        ctx.ob('R09b', f'{ci.name}.{gname} reads {x[2][1][2]}', ok,
                               'reads the buffer under the name it was registered with' if ok else
                               f'{gname} reads self.mod.<{x[2][1][2]}> but register never stores '
                               f'that name', where(g), nontrivial=False)
                fixed = [x for x in subterms(p.retval) if x[0] == 'attr' and
                         x[1] == ('attr', SELF, 'mod') and x[2].startswith('feat_calc')]
                ctx.ob('R09b', f'{ci.name}.{gname} uses no fixed buffer name', not fixed,
                       'no hard-wired buffer attribute' if not fixed else
                       f'{gname} reads the fixed attribute {fixed[0][2]} of the consuming layer: '
                       f'with two calculators on one layer both read the same buffer',
                       where(g))
    ctx.floor('R09b', 'register_buffer sites in calculators', n, 4)


def generic_seq(t: Term):
    """(generic element, iterable, filtered?) of a sequence built either by a comprehension
    over one iterable or by ``append`` in a loop (one generic element mentioning the loop
    variable); None when t is not such a sequence."""
    if t[0] == 'comp' and len(t[2]) == 1 and len(t[3]) == 1:
        return t[2][0], t[3][0][1], bool(t[3][0][2])
    if t[0] == 'list' and len(t[1]) == 1:
        els = [x for x in subterms(t[1][0]) if x[0] == 'elem']
        if els:
            return t[1][0], els[0][1], False
    if is_call(t, 'builtins.list', 'builtins.tuple') and t[2]:
        return generic_seq(t[2][0])
    return None


def r09c(ctx):
    repo = ctx.repo
    cc = repo.cls('ConcatFeaturesCalculator')
    inputs = ('attr', SELF, 'inputs')
    def per_input(seq: Term, attr: str) -> bool:
        """seq enumerates  <input>.<attr>  for every element of self.inputs, in order: a
        comprehension / generator over self.inputs or a list filled by a loop over it"""
        g = generic_seq(seq)
        if g is None:
            return False
        el, it, filtered = g
        return it == inputs and not filtered and el[0] == 'attr' and el[2] == attr and \
            el[1][0] == 'elem' and el[1][1] == inputs

    def total_of(t: Term) -> Optional[Term]:
        """the sequence that t sums: torch.stack(S).sum(), torch.sum(torch.stack(S)), sum(S)"""
        mc = method_call(t)
        if mc and mc[1] == 'sum' and is_call(mc[0], 'torch.stack') and mc[0][2]:
            return mc[0][2][0]
        if is_call(t, 'torch.sum') and t[2] and is_call(t[2][0], 'torch.stack') and t[2][0][2]:
            return t[2][0][2][0]
        if is_call(t, 'builtins.sum') and t[2]:
            return t[2][0]
        return None
    f = [p.retval for p in returning(paths(repo, cc.getters['features']))
         if not any(e.kind == 'loop0' for e in p.events)]
    ok = len(f) == 1 and total_of(f[0]) is not None and per_input(total_of(f[0]), 'features')

    def accumulated(t: Term) -> bool:
        """total = inputs[0].features; for p in inputs[1:]: total = total + p.features
        (one generic iteration): the first input plus a generic element of the rest; or
        total = 0; for p in inputs: total = total + p.features"""
        if t[0] != 'bin' or t[1] != '+':
            return False
        a, b = t[2], t[3]
        rest = ('sub', inputs, ('slice', ('const', 1), NONE, NONE))
        first = ('attr', ('sub', inputs, ('const', 0)), 'features')
        gen_rest = b[0] == 'attr' and b[2] == 'features' and b[1][0] == 'elem' and b[1][1] == rest
        gen_all = b[0] == 'attr' and b[2] == 'features' and b[1][0] == 'elem' and \
            b[1][1] == inputs
        zero = a in (('const', 0), ('const', 0.0)) or is_call(a, 'torch.tensor', 'torch.zeros')
        return (a == first and gen_rest) or (zero and gen_all)
    if not ok and len(f) == 1 and accumulated(f[0]):
        ok = True
    ctx.ob('R09c', 'ConcatFeaturesCalculator.features', bool(ok),
           'sum of the features of every input' if ok else
           f'features = {short(f[0]) if f else None}: expected the sum over self.inputs',
           where(cc.getters['features']))
    m = [p.retval for p in returning(paths(repo, cc.getters['features_mask']))
         if not any(e.kind == 'loop0' for e in p.events)]
    okm = len(m) == 1 and is_call(m[0], 'torch.cat') and m[0][2] and \
        per_input(m[0][2][0], 'features_mask') and \
        arg(m[0], 1, 'dim') in (('const', 0), None)
    ctx.ob('R09c', 'ConcatFeaturesCalculator.features_mask', bool(okm),
           'concatenation of the masks of every input, in the same order' if okm else
           f'features_mask = {short(m[0]) if m else None}: expected cat over self.inputs in '
           f'order (the same list features sums over)', where(cc.getters['features_mask']))
    fc = repo.cls('FlattenFeaturesCalculator')
    f = [p.retval for p in returning(paths(repo, fc.getters['features']))]
    prev = ('attr', SELF, 'prev')
    ok = len(f) == 1 and f[0][0] == 'bin' and f[0][1] == '*' and \
        ('attr', prev, 'features') in (f[0][2], f[0][3]) and \
        any(is_call(x, 'builtins.getattr') and x[2][1] == ('attr', SELF, 'multiplier_name')
            for x in (f[0][2], f[0][3]))
    ctx.ob('R09c', 'FlattenFeaturesCalculator.features', bool(ok),
           'multiplier x features of the flattened tensor' if ok else
           f'features = {short(f[0]) if f else None}', where(fc.getters['features']))
    g = fc.getters['features_mask']
    verdicts = []
    for p in returning(paths(repo, g)):
        if mentions(p.retval, lambda x: x == ('list', ())) and \
                any(e.kind == 'loop0' for e in p.events):
            continue            # the producer mask is never empty
        verdicts.append((flatten_layout(p.retval, prev), p.retval))
    if not verdicts:
        raise AnalysisError('FlattenFeaturesCalculator.features_mask: no path analysed')
    for lay, t in verdicts:
        if lay is None:
            raise AnalysisError(f'FlattenFeaturesCalculator.features_mask: layout of '
                                f'{short(t, 200)} is outside the layout domain')
        okm = lay == 'C,M'
        ctx.ob('R09c', 'FlattenFeaturesCalculator.features_mask layout', okm,
               'channel-major: each channel bit repeated over its flattened positions, the order '
               'torch.flatten produces' if okm else
               f'features_mask = {short(t, 160)} is laid out position-major (the whole channel '
               f'mask tiled once per position): the count is right but the bits no longer line up '
               f'with the channel-major columns torch.flatten produces, so export keeps the wrong '
               f'weight columns of the following Linear', where(g))
    init = fc.methods['__init__']
    sizes = {e.data[1]: e.data[2] for p in returning(paths(repo, init)) for e in p.events
             if e.kind == 'setattr' and e.data[0] == SELF}
    mult = ('param', init.params[2])
    ok = is_call(sizes.get('multiplier', NONE), 'torch.tensor') and \
        sizes['multiplier'][2][0] == mult and is_call(sizes.get('mask_expander', NONE),
                                                      'torch.ones') and \
        mentions(sizes['mask_expander'], lambda x: x == mult)
    ctx.ob('R09c', 'FlattenFeaturesCalculator multiplier / expander sizes', bool(ok),
           'count multiplier and mask expander built from the same spatial size' if ok else
           f'multiplier = {short(sizes.get("multiplier", NONE))}, expander = '
           f'{short(sizes.get("mask_expander", NONE))}', where(init))
    ko = repo.cls('ConstFeaturesCalculator')
    init = ko.methods['__init__']
    sizes = {e.data[1]: e.data[2] for p in returning(paths(repo, init)) for e in p.events
             if e.kind == 'setattr' and e.data[0] == SELF}
    c = ('param', init.params[1])
    ok = is_call(sizes.get('const', NONE), 'torch.tensor') and sizes['const'][2][0] == c and \
        is_call(sizes.get('mask', NONE), 'torch.ones') and mentions(sizes['mask'],
                                                                    lambda x: x == c)
    ctx.ob('R09c', 'ConstFeaturesCalculator count / mask sizes', bool(ok),
           'constant count and all-ones mask of that length' if ok else
           f'const = {short(sizes.get("const", NONE))}, mask = {short(sizes.get("mask", NONE))}',
           where(init))
    ma = repo.cls('ModAttrFeaturesCalculator')
    okf = all(p.retval == ('call', ('global', 'builtins.getattr'),
                           (('attr', SELF, 'mod'), ('attr', SELF, 'attr_name')), ())
              for p in returning(paths(repo, ma.getters['features'])))
    okm = all(p.retval == ('call', ('global', 'builtins.getattr'),
                           (('attr', SELF, 'mod'), ('attr', SELF, 'mask_attr_name')), ())
              for p in returning(paths(repo, ma.getters['features_mask'])))
    ctx.ob('R09c', 'ModAttrFeaturesCalculator views', okf and okm,
           'count and mask are two attributes of the same producer module' if okf and okm else
           'count and mask are not read from the same module', where(ma.getters['features']))


def flatten_layout(t: Term, prev: Term) -> Optional[str]:
    """Layout domain for the expanded mask: 'C,M' (channel-major), 'M,C' (position-major) or
    None (not modelled).  Axis labels: C = producer channels, M = flattened positions."""
    P = ('attr', prev, 'features_mask')

    def is_expander(x):
        return is_call(x, 'builtins.getattr') and len(x[2]) == 2 and \
            x[2][1] == ('attr', SELF, 'mask_expander_name')

    def is_mult(x):
        return is_call(x, 'builtins.getattr') and len(x[2]) == 2 and \
            x[2][1] == ('attr', SELF, 'multiplier_name')

    def lab(x) -> Optional[List[str]]:
        if x == P:
            return ['C']
        if is_expander(x):
            return ['M']
        mc = method_call(x)
        if mc:
            base = lab(mc[0])
            if base is None:
                return None
            if mc[1] == 'unsqueeze' and mc[2] and mc[2][0][0] == 'const':
                k = mc[2][0][1]
                k = len(base) + 1 + k if k < 0 else k
                return base[:k] + ['1'] + base[k:]
            if mc[1] in ('view', 'reshape') and len(base) == 1:
                shape = mc[2][0][1] if len(mc[2]) == 1 and mc[2][0][0] in ('tuple', 'list') \
                    else mc[2]
                vals = [a[1] if a[0] == 'const' else None for a in shape]
                if vals == [-1]:
                    return base
                if vals.count(-1) == 1 and all(v in (1, -1) for v in vals):
                    return [base[0] if v == -1 else '1' for v in vals]
                return None
            if mc[1] in ('float', 'bool', 'to', 'clone', 'contiguous', 'detach', 'type'):
                return base
            if mc[1] in ('flatten',) or (mc[1] in ('reshape', 'view') and mc[2] and
                                         mc[2][0] == ('const', -1)):
                real = [a for a in base if a != '1']
                return [','.join(real)]
            if mc[1] == 'repeat_interleave' and base == ['C']:
                return ['C,M']
            if mc[1] == 'repeat' and base == ['C']:
                return ['M,C']
            if mc[1] == 't' and len(base) == 2:
                return base[::-1]
            return None
        if x[0] == 'bin' and x[1] == '*' or is_call(x, 'torch.mul'):
            a, b = (x[2], x[3]) if x[0] == 'bin' else (x[2][0], x[2][1])
            la, lb = lab(a), lab(b)
            if la is None or lb is None:
                return None
            n = max(len(la), len(lb))
            la = ['1'] * (n - len(la)) + la
            lb = ['1'] * (n - len(lb)) + lb
            out = []
            for u, v in zip(la, lb):
                if u == '1':
                    out.append(v)
                elif v == '1' or u == v:
                    out.append(u)
                else:
                    return None
            return out
        if is_call(x, 'torch.flatten') and x[2]:
            base = lab(x[2][0])
            return None if base is None else [','.join(a for a in base if a != '1')]
        if is_call(x, 'torch.repeat_interleave') and x[2] and lab(x[2][0]) == ['C']:
            return ['C,M']
        if is_call(x, 'torch.kron') and len(x[2]) == 2:
            la, lb = lab(x[2][0]), lab(x[2][1])
            if la and lb and len(la) == 1 and len(lb) == 1:
                return [la[0] + ',' + lb[0]]
        seq = x[2][0] if is_call(x, 'torch.cat') and x[2] else None
        if seq is not None and seq[0] == 'comp' and seq[1] in ('list', 'gen') and \
                len(seq[2]) == 1 and len(seq[3]) == 1 and not seq[3][0][2]:
            seq = ('list', (seq[2][0],))       # [f(e) for e in it]: one generic element
        if seq is not None and seq[0] == 'list' and len(seq[1]) == 1:
            el = seq[1][0]
            # generic element of a loop over the producer mask: scalar bit * expander
            scal = ('elem', P)
            def lab_el(y):
                if y[0] == 'elem' and y[1] == P:
                    return ['c']            # one channel bit (scalar)
                if is_expander(y):
                    return ['M']
                if y[0] == 'bin' and y[1] == '*':
                    u, v = lab_el(y[2]), lab_el(y[3])
                    if u and v and {tuple(u), tuple(v)} == {('c',), ('M',)}:
                        return ['M']
                return None
            if lab_el(el) == ['M']:
                return ['C,M']              # outer loop over channels, inner positions
            return None
        return None
    r = lab(t)
    if r is None or len(r) != 1:
        return None
    return r[0] if r[0] in ('C,M', 'M,C') else None


def r09d(ctx):
    repo = ctx.repo
    ifc = ('attr', SELF, 'input_features_calculator')
    n = 0
    for base in ('PITModule', 'MPSModule'):
        for ci in repo.subclasses(repo.cls(base), strict=True):
            g = repo.find_getter(ci, 'in_features_opt')     # own or inherited
            if g is not None and returning(paths(repo, g)):
                n += 1
                ok = all(mentions(p.retval, lambda x: x == ('attr', ifc, 'features_mask'))
                         for p in returning(paths(repo, g)))
                ctx.ob('R09d', f'{ci.name}.in_features_opt source', ok,
                       'counts input_features_calculator.features_mask' if ok else
                       'the reported / exported input width does not come from '
                       'input_features_calculator.features_mask', where(g))
            gm = ci.methods.get('get_modified_vars') or ci.methods.get('get_cost')
            if gm is not None and gm.cls is ci:
                uses = any(mentions((e.data,), lambda x: x == ('attr', ifc, 'features'))
                           for p in returning(paths(repo, gm)) for e in p.events) or \
                    any(mentions(p.retval, lambda x: x == ('attr', ifc, 'features'))
                        for p in returning(paths(repo, gm))) or \
                    any(isinstance(x, ast.Attribute) and x.attr == 'features' and
                        ast.unparse(x.value) == 'self.input_features_calculator'
                        for x in ast.walk(gm.node))       # also inside nested helpers
                is_bn = 'BatchNorm' in ci.name
                is_id = ci.name in ('MPSIdentity',)
                if not is_bn and not is_id:
                    n += 1
                    ctx.ob('R09d', f'{ci.name}.{gm.name} charged input width', uses,
                           'charged with input_features_calculator.features' if uses else
                           'the cost does not read input_features_calculator.features',
                           where(gm))
            s = ci.setters.get('input_features_calculator')
            if s is not None:
                okr = any(method_call(e.data[0]) and method_call(e.data[0])[1] == 'register' and
                          method_call(e.data[0])[0] == ('param', s.params[1]) and
                          method_call(e.data[0])[2][0] == SELF
                          for p in returning(paths(repo, s)) for e in p.calls())
                oks = any(e.kind == 'setattr' and e.data[0] == SELF and
                          e.data[2] == ('param', s.params[1])
                          for p in returning(paths(repo, s)) for e in p.events)
                ctx.ob('R09d', f'{ci.name}.input_features_calculator setter', okr and oks,
                       'registers the calculator on this layer and stores it' if okr and oks else
                       'the setter does not register and store the calculator', where(s),
                       nontrivial=False)
    ctx.floor('R09d', 'layer consumers', n, 12)
    for q in ('plinio.methods.pit.graph.register_input_features',
              'plinio.methods.mps.graph.register_input_features'):
        fn = repo.functions.get(q)
        if fn is None:
            raise AnalysisError(f'{q} not found')
        ok = False
        for p in returning(paths(repo, fn)):
            for e in p.events:
                if e.kind == 'setattr' and e.data[1] == 'input_features_calculator':
                    v = e.data[2]
                    ok = v[0] == 'sub' and v[2] == ('const', 'features_calculator') and \
                        mentions(v, lambda x: x == ('const', 'input_features_set_by')) and \
                        method_call(e.data[0]) is not None and \
                        method_call(e.data[0])[1] == 'get_submodule'
        ctx.ob('R09d', f'{q.split("plinio.methods.")[1]} wires the calculator', ok,
               'layer.input_features_calculator <- calculator of input_features_set_by' if ok else
               'the layer\'s calculator is not the one of the node that sets its input features',
               where(fn))


# ---------------------------------------------------------------------------------------
def true_tokens(fn: FunctionInfo) -> Set[str]:
    """op tokens (function targets, method names, module classes) for which a predicate of
    inspection.py returns True; side conditions (n.op, dim == 1, depthwise) are dropped, so a
    token stands for "a node of that op in the configuration the predicate accepts"."""
    o = op_sets(fn)
    return set(o['functions']) | set(o['modules'])


def _eval3(e: ast.AST, flags: Dict[str, bool], var: str) -> Optional[bool]:
    """three-valued evaluation of a boolean expression over  <var>.meta['key']  atoms"""
    if isinstance(e, ast.BoolOp):
        vals = [_eval3(v, flags, var) for v in e.values]
        if isinstance(e.op, ast.Or):
            if any(v is True for v in vals):
                return True
            return False if all(v is False for v in vals) else None
        if any(v is False for v in vals):
            return False
        return True if all(v is True for v in vals) else None
    if isinstance(e, ast.UnaryOp) and isinstance(e.op, ast.Not):
        v = _eval3(e.operand, flags, var)
        return None if v is None else not v
    if isinstance(e, ast.Subscript) and isinstance(e.value, ast.Attribute) and \
            e.value.attr == 'meta' and isinstance(e.slice, ast.Constant) and \
            isinstance(e.value.value, ast.Name) and e.value.value.id == var:
        return flags.get(e.slice.value)
    if isinstance(e, ast.Call) and isinstance(e.func, ast.Attribute) and e.func.attr == 'get' and \
            isinstance(e.func.value, ast.Attribute) and e.func.value.attr == 'meta' and e.args and \
            isinstance(e.args[0], ast.Constant):
        return flags.get(e.args[0].value)
    if isinstance(e, ast.Constant):
        return bool(e.value)
    return None


def r09e(ctx):
    """Width sharing agrees with width derivation.  build_shared_features_map removes the
    incoming edges of a node from the sharing graph exactly when the node's features do not
    follow those of its input: for every op token of the classification tables, the cut
    condition (evaluated on the flags that token gets) must be False when
    add_features_calculator derives the node's calculator from its first input's calculator
    (propagate / flatten / squeeze / shared-input), and True when the calculator is the node's
    own or a concatenation."""
    repo = ctx.repo
    table = node_table(ctx)
    ctx.floor('R09e', 'node flags with a predicate', len(ctx._pred_of), 8)
    # derivation kind of every branch of the add_features_calculator chain, from the values the
    # pass stores under meta['features_calculator'] on each path (helpers looked through) and
    # the node-flag tests that guard the store
    afc = repo.fn('add_features_calculator')

    def flag_guards(p, e):
        return [(a[2][1], v) for a, v in path_guards(p, e)
                if a[0] == 'sub' and a[2][0] == 'const' and a[1][0] == 'attr' and
                a[1][2] == 'meta' and isinstance(a[2][1], str)]

    def first_input_calc(x):
        return x[0] == 'sub' and x[2] == ('const', 'features_calculator') and \
            x[1][0] == 'attr' and x[1][2] == 'meta' and x[1][1][0] == 'sub' and \
            x[1][1][2] == ('const', 0) and x[1][1][1][0] == 'attr' and \
            x[1][1][1][2] == 'all_input_nodes'
    order: List[str] = []
    kinds: Dict[str, Set[str]] = {}
    for p in paths(repo, afc):
        for e in p.events:
            if e.kind == 'assume':
                a = e.data[0]
                if a[0] == 'sub' and a[2][0] == 'const' and a[1][0] == 'attr' and \
                        a[1][2] == 'meta' and a[2][1] not in order:
                    order.append(a[2][1])
            if e.kind != 'setitem' or e.data[1] != ('const', 'features_calculator'):
                continue
            g = flag_guards(p, e)
            key = next((k for k, v in g if v), None)
            if key is None:
                continue
            v = e.data[2]
            if mentions(v, lambda x: x[0] == 'global' and 'Concat' in x[1].rsplit('.', 1)[-1]):
                kd = 'stack'
            elif mentions(v, first_input_calc):
                kd = 'follow'
            else:
                kd = 'own'
            kinds.setdefault(key, set()).add(kd)
    chain_kind: List[Tuple[str, str]] = []
    for key in order:
        ks = kinds.get(key, set())
        chain_kind.append((key, 'none' if not ks else ks.copy().pop() if len(ks) == 1 else
                           'mixed:' + '/'.join(sorted(ks))))
    ctx.floor('R09e', 'branches of add_features_calculator', len(chain_kind), 8)
    # the cut condition
    bs = repo.fn('build_shared_features_map')
    cut = None
    for fi_, n in closure_nodes(repo, bs):
        if isinstance(n, ast.If) and any(isinstance(x, ast.Call) and
                                         isinstance(x.func, ast.Attribute) and
                                         x.func.attr in ('remove_edge', 'remove_edges_from')
                                         for st in n.body for x in ast.walk(st)):
            cut, bs = n, fi_
            break
    if cut is None:
        raise AnalysisError('R09e: edge-removal condition of build_shared_features_map not found')
    var = next((x.value.value.id for x in ast.walk(cut.test)
                if isinstance(x, ast.Subscript) and isinstance(x.value, ast.Attribute) and
                x.value.attr == 'meta' and isinstance(x.value.value, ast.Name)), 'n')
    worlds = [(label, dict(flags)) for label, flags in sorted(table.items())]
    ctx.floor('R09e', 'op tokens', len(worlds), 30)
    n_ob = 0
    for o, flags in worlds:
        kind = None
        for key, k in chain_kind:
            if flags.get(key):
                kind = (key, k)
                break
        if kind is None or kind[1] in ('none',) or kind[1].startswith('mixed'):
            continue
        c = _eval3(cut.test, flags, var)
        want = kind[1] != 'follow'
        n_ob += 1
        ok = c is want
        ctx.ob('R09e', f'width sharing of {o} nodes', ok,
               (f'{kind[0]}: calculator {kind[1]}s, edges ' + ('cut' if want else 'kept')) if ok else
               f'a {o} node is handled by the "{kind[0]}" case of add_features_calculator (its '
               f'features {"follow its first input" if kind[1] == "follow" else "are its own / stacked"}) '
               f'but build_shared_features_map {"cuts" if c else "keeps" if c is False else "may cut"} its '
               f'incoming edges ("{ast.unparse(cut.test)}"): '
               + ('producers on the two sides of such a node get independent maskers, so operands of '
                  'a later add/concat can be pruned differently and consumers see a width that '
                  'does not reach them' if not want else
                  'layers with independent widths are forced to share one masker'),
               f'{bs.module.relpath}:{cut.lineno}')
    ctx.floor('R09e', 'decided op tokens', n_ob, 25)


class _NoValue(Exception):
    pass


def concrete(t: Term, env: Dict[Term, object]):
    """Value of an integer / shape term under concrete bindings of some of its subterms."""
    import math
    if t in env:
        return env[t]
    k = t[0]
    if k == 'const':
        return t[1]
    if k == 'tuple' or k == 'list':
        return tuple(concrete(x, env) for x in t[1])
    if k == 'ifexp':
        return concrete(t[2], env) if concrete(t[1], env) else concrete(t[3], env)
    if k == 'cmp':
        a, b = concrete(t[2], env), concrete(t[3], env)
        return {'==': a == b, '!=': a != b, '<': a < b, '<=': a <= b, '>': a > b,
                '>=': a >= b, 'is': a is b, 'is not': a is not b}[t[1]]
    if k == 'isnone':
        return concrete(t[1], env) is None
    if k == 'bin' and t[1] in ('+', '-', '*', '//', '%'):
        a, b = concrete(t[2], env), concrete(t[3], env)
        return {'+': lambda: a + b, '-': lambda: a - b, '*': lambda: a * b,
                '//': lambda: a // b, '%': lambda: a % b}[t[1]]()
    if k == 'un' and t[1] in ('-', 'neg'):
        return -concrete(t[2], env)
    if k == 'sub':
        base = concrete(t[1], env)
        if t[2][0] == 'slice':
            lo, hi, st = (concrete(x, env) for x in t[2][1:4])
            return base[lo:hi:st]
        return base[concrete(t[2], env)]
    if k == 'call':
        c = callee(t)
        args = [concrete(a, env) for a in t[2]]
        if c == 'math.prod':
            return math.prod(args[0])
        if c in ('builtins.int', 'builtins.float'):
            return int(args[0])
        if c == 'builtins.len':
            return len(args[0])
        if c in ('builtins.tuple', 'builtins.list'):
            return tuple(args[0])
    raise _NoValue(show(t)[:80])


def r09g(ctx):
    """"Their product with the spatial size across flatten": the multiplier that
    add_features_calculator hands to FlattenFeaturesCalculator is evaluated on concrete input
    shapes and flatten / squeeze arguments and compared with the size the op really gives the
    features axis: flatten(1, e) of (N, C, d2, ..) has C * prod(d2 .. d_e) features, squeeze(1)
    of (N, 1, d2, ..) has d2."""
    import math
    repo = ctx.repo
    afc = repo.fn('add_features_calculator')
    sites = {}
    for p in paths(repo, afc):
        for e in p.calls():
            if not (callee(e.data[0]) or '').endswith('FlattenFeaturesCalculator') or \
                    len(e.data[0][2]) < 2:
                continue
            key = next((a[2][1] for a, v in path_guards(p, e)
                        if v and a[0] == 'sub' and a[2][0] == 'const' and a[1][0] == 'attr' and
                        a[1][2] == 'meta' and a[2][1] in ('flatten', 'squeeze')), None)
            if key is not None:
                from ..util import resolve_namedtuples
                sites.setdefault(key, (resolve_namedtuples(repo, e.data[0][2][1]), e.node))
    ctx.floor('R09g', 'FlattenFeaturesCalculator creation cases', len(sites), 2)

    def bindings(t, shape, argvals):
        env = {}
        for x in subterms(t):
            if x[0] == 'attr' and x[2] == 'shape' and x not in env:
                env[x] = shape
            if x[0] == 'call' and (callee(x) or '').endswith('try_get_args') and len(x[2]) >= 4 \
                    and x[2][3][0] == 'const' and x[2][3][1] in argvals:
                env[x] = argvals[x[2][3][1]]
        return env
    cases = {
        'flatten': [((2, 3, 5, 7), {'start_dim': 1, 'end_dim': -1}), ((2, 3, 5, 7), {'start_dim': 1, 'end_dim': 3}),
                    ((2, 3, 5, 7), {'start_dim': 1, 'end_dim': 2}), ((2, 3, 5, 7), {'start_dim': 1, 'end_dim': -2}),
                    ((2, 3, 5), {'start_dim': 1, 'end_dim': -1}), ((2, 3, 5), {'start_dim': 1, 'end_dim': 2})],
        'squeeze': [((2, 1, 5, 7), {'dim': 1}), ((2, 1, 5), {'dim': 1})],
    }
    for key, (t, node) in sorted(sites.items()):
        bad = None
        for shape, av in cases[key]:
            if key == 'flatten':
                e_ = av['end_dim'] % len(shape)
                want = math.prod(shape[2:e_ + 1])
            else:
                want = shape[2]
            try:
                got = concrete(t, bindings(t, shape, av))
            except (_NoValue, TypeError, IndexError, KeyError) as ex:
                raise AnalysisError(f'R09g: multiplier of the {key} case not evaluable: {ex}')
            if got != want:
                bad = (shape, av, got, want)
                break
        ctx.ob('R09g', f'add_features_calculator {key} multiplier', bad is None,
               f'features x spatial size on {len(cases[key])} shapes / arguments' if bad is None
               else f'for an input of shape {bad[0]} and {key}({", ".join(f"{k}={v}" for k, v in bad[1].items())}) '
               f'the calculator multiplies the producer\'s features by {bad[2]} but the op gives '
               f'the features axis {bad[3]} x as many: the consumer reports, is charged for and is '
               f'exported with a width that is not the one of the tensor feeding it (export '
               f'fails with a mask / weight shape mismatch)', where(afc, node))


def truth(t: Term, env) -> bool:
    """Truth value of a condition term under concrete bindings (and / or / not on top of
    ``concrete``)."""
    if t[0] == 'bool':
        vals = [truth(x, env) for x in t[2]]
        return all(vals) if t[1] == 'and' else any(vals)
    if t[0] == 'un' and t[1] == 'not':
        return not truth(t[2], env)
    return bool(concrete(t, env))


def r09k(ctx):
    """Which flatten / squeeze "includes the channels" is decided by the AXIS, however it is
    spelled.  add_features_calculator (the width is multiplied by the spatial size) and
    associate_input_features (the consumer's width is set by the reshaping node) are both
    **interpreted** (finite interpreter; try_get_args of graph/utils.py interpreted on the real
    args / kwargs of the node) on the graph  input -> conv -> flatten|squeeze(dim) -> layer  for
    ranks 3 and 4 and every non-batch axis in both spellings; the channel case must be taken
    exactly when the normalised axis (dim mod rank) is 1: start_dim=-3 of a rank-4 tensor is
    the features axis, dim=3 (the last one, ``rank - dim == 1``) is not."""
    from ..mini import Mini, Obj, Raised, Token, Unsupported
    repo = ctx.repo
    ann = repo.modules['plinio.graph.annotation']
    fdefs = {n.name: n for n in ann.tree.body if isinstance(n, ast.FunctionDef)}
    um = repo.modules.get('plinio.graph.utils')
    tga = next((n for n in um.tree.body if isinstance(n, ast.FunctionDef) and
                n.name == 'try_get_args'), None) if um is not None else None
    if tga is None:
        raise AnalysisError('R09k: try_get_args not found')

    class _Rec(tuple):
        fields: tuple = ()

    class _A(Mini):
        def expr(self, e, env):
            if isinstance(e, ast.Attribute):
                o = self.expr(e.value, env)
                if isinstance(o, Obj) and e.attr in o.attrs:
                    return o.attrs[e.attr]
                if isinstance(o, _Rec) and e.attr in o.fields:
                    return o[o.fields.index(e.attr)]
                return ('boundmethod', o, e.attr)
            return super().expr(e, env)

        def builtin(self, name, args, kwargs, node):
            if name == 'hasattr':
                return isinstance(args[0], Obj) and args[1] in args[0].attrs
            if name == 'int' and len(args) == 1 and isinstance(args[0], (int, float)):
                return int(args[0])
            if name == 'min' and all(isinstance(a, (int, float)) for a in args):
                return min(args)
            return super().builtin(name, args, kwargs, node)

        def method(self, o, name, args, kwargs, node):
            if isinstance(o, dict):
                if name == 'get':
                    return o.get(args[0], args[1] if len(args) > 1 else None)
                if name == 'keys':
                    return list(o.keys())
            return super().method(o, name, args, kwargs, node)

    def world(kind, shape, dim):
        def mk(name, op, flags, shp, ins):
            o = Obj('Node')
            tm = Obj('TensorMetadata')
            tm.attrs['shape'] = shp
            meta = {k: False for k in ('non_tensor_op', 'features_concatenate', 'flatten',
                                       'squeeze', 'unsqueeze', 'features_defining',
                                       'features_propagating', 'shared_input_features',
                                       'untouchable', 'zero_or_one_input')}
            meta.update(flags)
            meta['tensor_meta'] = tm
            o.attrs.update({'name': name, 'op': op, 'target': name, 'meta': meta,
                            'all_input_nodes': list(ins), 'args': tuple(ins), 'kwargs': {},
                            'users': {}})
            for i in ins:
                i.attrs['users'][o] = None
            return o
        x = mk('x', 'placeholder', {'features_defining': True}, shape, [])
        c = mk('c', 'call_module', {'features_defining': True}, shape, [x])
        r = len(shape)
        d = dim % r
        oshape = shape[:d] + (shape[d] * (1 if kind == 'squeeze' else 1),) + shape[d + 1:]
        F = mk('F', 'call_function', {kind: True}, oshape, [c])
        F.attrs['args'] = (c, dim)
        L = mk('L', 'call_module', {'features_defining': True}, oshape, [F])
        return [x, c, F, L]
    marks = {}
    glob = {'math': None}

    def stub(tag):
        def f(*a, **k):
            o = Obj(tag)
            o.attrs['args'] = a
            return o
        return Token('cls:' + tag, f)
    import math as _math
    mathp = Obj('pkg')
    mathp.attrs['prod'] = lambda xs: _math.prod(xs)
    n_worlds = 0
    results = {}
    for fname in ('add_features_calculator', 'associate_input_features'):
        fd = fdefs.get(fname)
        if fd is None:
            raise AnalysisError(f'R09k: {fname} not found')
        for kind in ('flatten', 'squeeze'):
            bad = None
            for shape in ((2, 3, 5, 7), (2, 3, 5)):
                r = len(shape)
                for d in [v for v in range(-r + 1, r) if v != 0]:
                    nodes = world(kind, shape, d)
                    x, c, F, L = nodes
                    graph = Obj('Graph')
                    graph.attrs['nodes'] = nodes
                    mod = Obj('GraphModule')
                    mod.attrs['graph'] = graph
                    g = {
                        'get_graph_inputs': Token('get_graph_inputs', lambda _g, _x=x: [_x]),
                        'all_output_nodes': Token('all_output_nodes',
                                                  lambda n_: list(n_.attrs['users'].keys())),
                        'math': mathp,
                        'FlattenFeaturesCalculator': stub('Flatten'),
                        'ConstFeaturesCalculator': stub('Const'),
                        'ConcatFeaturesCalculator': stub('Concat'),
                        'ModAttrFeaturesCalculator': stub('ModAttr'),
                        'cast': Token('cast', lambda _t, v: v),
                    }
                    g['try_get_args'] = Token('try_get_args', lambda *a, _g=g: _A(_g).call_function(
                        tga, list(a)))
                    # records (NamedTuple / dataclass-like classes of the module) as constructors
                    for cd in ann.tree.body:
                        if isinstance(cd, ast.ClassDef):
                            fields = [st.target.id for st in cd.body
                                      if isinstance(st, ast.AnnAssign) and
                                      isinstance(st.target, ast.Name)]

                            def ctor(*a, _f=tuple(fields), _n=cd.name, **k):
                                vals = list(a) + [k[x] for x in _f[len(a):] if x in k]
                                r = _Rec(vals)
                                r.fields = _f
                                return r
                            g[cd.name] = ctor
                    for nm, st in fdefs.items():
                        if nm not in g and st is not fd:
                            g[nm] = Token('fn:' + nm, lambda *a, _n=st, _g=g, **k: _A(_g).call_function(
                                _n, list(a), k))
                    try:
                        if fname == 'add_features_calculator':
                            _A(g).call_function(fd, [mod, []])
                            fc = F.attrs['meta'].get('features_calculator')
                            taken = isinstance(fc, Obj) and fc.cls_name == 'Flatten'
                        else:
                            _A(g).call_function(fd, [mod])
                            taken = L.attrs['meta'].get('input_features_set_by') is F
                    except Raised as ex:
                        # the function rejects this world itself (assertion / ValueError)
                        if 'Assertion' in str(ex) or 'ValueError' in str(ex):
                            continue
                        raise AnalysisError(f'R09k: {fname} raised {ex} on {kind}({d}) of rank {r}')
                    except Unsupported as ex:
                        raise AnalysisError(f'R09k: {fname} is outside the interpreted subset: {ex}')
                    n_worlds += 1
                    want = d % r == 1
                    if taken != want and bad is None:
                        bad = (shape, d, taken)
            argname = 'start_dim' if kind == 'flatten' else 'dim'
            ctx.ob('R09k', f'{fname}: {kind} includes the channels iff the axis is 1', bad is None,
                   'decided by the normalised axis on ranks 3 and 4, every non-batch axis, both '
                   'spellings (interpreted)' if bad is None else
                   f'for a rank-{len(bad[0])} input and {kind}({argname}={bad[1]}) the channel case '
                   f'is {"taken" if bad[2] else "not taken"}, but axis {bad[1] % len(bad[0])} '
                   f'{"is" if bad[1] % len(bad[0]) == 1 else "is not"} the features axis: the '
                   f'consumer reports a width that is not the one of the tensor feeding it '
                   f'(features instead of features x spatial size, or the reverse) and export '
                   f'fails with a mask / weight shape mismatch', where(repo.fn(fname)))
    ctx.floor('R09k', 'interpreted axis worlds', n_worlds, 30)
    return n_worlds


def r09h(ctx, rule='R09h'):
    """The analysis graph has an edge for every operand: fx_to_nx_graph is interpreted on a small
    fx graph whose concatenation takes its tensors inside a tuple (``torch.cat((a, b), 2)``) and
    whose output is a tuple; every (input node, node) pair of fx's own ``all_input_nodes`` must be
    an edge -- the width-sharing components (residual sums, time-axis concatenations, output
    ties) are computed on this graph."""
    from ..mini import Mini, Obj, Raised, Token, Unsupported
    repo = ctx.repo
    fn = repo.fn('graph.utils.fx_to_nx_graph')
    NODE = Token('cls:Node')

    def node(name, args, kwargs=None):
        o = Obj('Node')
        flat = []

        def walk(x):
            if isinstance(x, Obj):
                flat.append(x)
            elif isinstance(x, (tuple, list)):
                for y in x:
                    walk(y)
            elif isinstance(x, dict):
                for y in x.values():
                    walk(y)
        walk(args)
        walk(kwargs or {})
        o.attrs.update({'name': name, 'args': args, 'kwargs': kwargs or {},
                        'all_input_nodes': flat, 'op': 'call_function', '_cls': NODE})
        return o
    x = node('x', ())
    a, b = node('a', (x,)), node('b', (x,))
    cat = node('cat', ((a, b), 2))
    c = node('c', (cat,), {'other': b})
    out = node('output', ((c, cat),))
    nodes = [x, a, b, cat, c, out]
    edges = []

    class _N(Mini):
        def expr(self, e, env):
            if isinstance(e, ast.Attribute):
                o = self.expr(e.value, env)
                if isinstance(o, Obj):
                    if e.attr in o.attrs:
                        return o.attrs[e.attr]
                    return ('boundmethod', o, e.attr)
                return ('boundmethod', o, e.attr)
            return super().expr(e, env)

        def builtin(self, name, args, kwargs, node_):
            if name == 'isinstance':
                cs = args[1] if isinstance(args[1], tuple) and not (
                    len(args[1]) == 3 and args[1][0] == 'boundmethod') else (args[1],)
                if NODE in cs:
                    return isinstance(args[0], Obj) and args[0].attrs.get('_cls') == NODE
            return super().builtin(name, args, kwargs, node_)

        def method(self, o, name, args, kwargs, node_):
            if isinstance(o, Obj) and o.cls_name == 'DiGraph':
                if name == 'add_edge':
                    edges.append((args[0], args[1]))
                    return None
                if name == 'add_edges_from':
                    for u, v in self.iterate(args[0]):
                        edges.append((u, v))
                    return None
                if name == 'add_node':
                    return None
                if name == 'add_nodes_from':
                    return None
            if isinstance(o, dict) and name in ('values', 'items', 'keys'):
                return list(getattr(o, name)())
            return super().method(o, name, args, kwargs, node_)
    nxp, fxp = Obj('pkg'), Obj('pkg')
    nxp.attrs['DiGraph'] = Token('DiGraph', lambda *a_: Obj('DiGraph'))
    fxp.attrs['Node'] = NODE
    graph = Obj('Graph')
    graph.attrs['nodes'] = nodes
    try:
        _N({'nx': nxp, 'fx': fxp}).call_function(fn.node, [graph])
    except (Unsupported, Raised) as ex:
        raise AnalysisError(f'{rule}: fx_to_nx_graph is outside the interpreted subset: {ex}')
    want = {(i.attrs['name'], n.attrs['name']) for n in nodes for i in n.attrs['all_input_nodes']}
    got = {(u.attrs['name'], v.attrs['name']) for u, v in edges
           if isinstance(u, Obj) and isinstance(v, Obj)}
    missing, extra = sorted(want - got), sorted(got - want)
    ok = not missing and not extra
    ctx.ob(rule, 'fx_to_nx_graph has an edge for every operand', ok,
           f'{len(want)} edges, operands nested in tuples and keyword operands included' if ok
           else (f'missing edges {missing}' if missing else '') +
           (f' spurious edges {extra}' if extra else '') +
           ': operands passed inside a tuple / list (torch.cat((a, b), 2), a tuple output) are '
           'not connected, so the branches of a time-axis concatenation get independent maskers '
           'and the consumer sees a width that is not the one of the tensor feeding it',
           where(fn))


def r09f(ctx, rule='R09f'):
    """The graph classification and the layer classes agree on what a depthwise layer is: a
    PIT layer class whose export() has a depthwise branch (it re-creates the layer with
    groups = its input width and does not slice the input axis, i.e. it relies on sharing the
    producer's mask) needs the graph passes to classify the depthwise configuration of the
    torch class it replaces as features-PROPAGATING and not features-defining; otherwise the
    layer gets a masker of its own and export pairs filters with the wrong input channels."""
    from .c01 import depthwise_flag, find_export_submodule, layer_kind
    from ..pitlib import pit_layer_classes
    repo = ctx.repo
    table = node_table(ctx)
    n = 0
    for ci in pit_layer_classes(repo):
        exp = ci.methods.get('export')
        kind = layer_kind(ctx, ci)
        if exp is None or kind not in ('Conv1d', 'Conv2d'):
            continue
        sub = find_export_submodule(ctx, exp, ci)
        has_dw = any(depthwise_flag(p, sub) is True for p in returning(paths(repo, exp)))
        if not has_dw:
            continue
        n += 1
        row = table.get(f'nn.{kind} [dw]')
        ok = row is not None and row['features_propagating'] is True and \
            row['features_defining'] is False
        ctx.ob(rule, f'depthwise nn.{kind} is classified as width-propagating', ok,
               'propagating, not defining: it shares the masker of its producer, as '
               f'{ci.name}.export assumes' if ok else
               f'{ci.name}.export has a depthwise branch (groups = in_features_opt, input axis '
               f'not sliced) but the graph classification of a depthwise nn.{kind} is '
               f'{ {k: v for k, v in (row or {}).items() if v} }: the layer is given a masker of '
               f'its own, so its mask can differ from its producer\'s and the exported depthwise '
               f'layer pairs filters with the wrong input channels', where(exp))
    ctx.floor(rule, 'layer classes with a depthwise export branch', n, 2)


def case_chain_from(node: ast.If) -> List[Tuple[str, str]]:
    out = []
    cur: Optional[ast.If] = node
    while cur is not None:
        out.append(('n', ast.unparse(cur.test)[:30]))
        nxt = cur.orelse
        cur = nxt[0] if len(nxt) == 1 and isinstance(nxt[0], ast.If) else None
    return out


def r09j(ctx, rule='R09j'):
    """The features calculator of a searchable layer is its own (out_features_eff, features_mask)
    pair, chosen by the layer's *class* alone: consumers must see the alive features of the
    tensor that reaches them whether or not the producer's mask is currently being trained
    (train_features off, train_net_only, a hand-built non-trainable masker with pruned
    channels).  A path of the per-method calculator hook that tests the state of the module
    object (a search flag, a mask value) hands such a producer to the static rules, which
    report its full width."""
    repo = ctx.repo
    n = 0
    for hook in ('pit_features_calc', 'mps_features_calc'):
        try:
            fc = repo.fn(hook)
        except Exception:
            continue
        n += 1
        CLS = ('is_layer', 'is_inherited_layer', 'builtins.isinstance', 'builtins.type',
               'builtins.issubclass')

        def state_test(a) -> Optional[Term]:
            """sub-term of the condition that reads the module object outside a class test"""
            if a[0] in ('bool', 'un'):
                for x in a[1:]:
                    if isinstance(x, tuple):
                        r = state_test(x)
                        if r is not None:
                            return r
                    if isinstance(x, (list, tuple)) and x and isinstance(x[0], tuple):
                        for y in x:
                            if isinstance(y, tuple):
                                r = state_test(y)
                                if r is not None:
                                    return r
                return None
            if a[0] == 'call' and any((callee(a) or '').endswith(c) for c in CLS):
                return None
            if mentions(a, lambda y: y[0] == 'call' and method_call(y) is not None and
                        method_call(y)[1] == 'get_submodule'):
                return a
            return None
        searchable = 0
        for p in returning(paths(repo, fc)):
            bad = None
            for a, _v in p.assumptions:
                bad = bad or state_test(a)
            key = 'module calculator' if p.retval != NONE else 'no calculator'
            searchable += p.retval != NONE
            if bad is not None:
                ctx.ob(rule, f'{hook}: {key} decided by the class of the layer', False,
                       f'the path returning {short(p.retval, 60)} tests {short(bad, 90)}, a state '
                       f'of the layer object: a searchable producer in that state is handed to '
                       f'the static rules and its consumers see the full width instead of the '
                       f'alive features', where(fc))
            elif p.retval != NONE:
                ctx.ob(rule, f'{hook}: {key} decided by the class of the layer', True,
                       'class tests only', where(fc))
        if hook == 'pit_features_calc':
            ctx.floor(rule, 'paths of pit_features_calc that attach a module calculator',
                      searchable, 1)
    ctx.floor(rule, 'calculator hooks', n, 1)


def run(ctx):
    r09j(ctx)
    r09k(ctx)
    r09a(ctx)
    r09b(ctx)
    r09c(ctx)
    r09d(ctx)
    r09e(ctx)
    r09f(ctx)
    r09g(ctx)
    r09h(ctx)
    # R09i "any dataflow topology": the map of shared maskers built for the conversion gives a
    # masker to every layer that reads one, also to a depthwise convolution whose input is a
    # channel concatenation (no node of that width group defines a width), and keeps the widths
    # concatenated into it -- the graph worlds of C08, interpreted
    from .c08 import r08f
    r08f(ctx, rule='R09i')
    ctx.assume('torch.cat keeps the order of its inputs; buffers registered under distinct names '
               'are distinct state')


MANIFEST = {
    'text': 'For every dataflow topology: the op classification tables are mutually consistent and '
            'the two graph passes test them in a compatible priority order; calculators keep '
            'their constants in buffers whose names are unique per position (prefix-dependent, '
            'sibling-indexed, remembered and read back); features and features_mask of each '
            'calculator are views of the same inputs in the same order; summary, cost and export '
            'of each layer read one calculator wired from input_features_set_by. Coverage of '
            'unsupported ops / negative concat dims is not decided. The calculator hooks choose by class only; the flatten / squeeze / cat axis tests are evaluated on concrete ranks and axes in both spellings (negative axes).',
    'note': 'The predicates of inspection.py are compared as data extracted from their syntax '
            'trees (targets and classes in the branches that return True).',
    'technique': 'table extraction + set relations, def-use analysis of buffer naming and of '
                 'paired getters',
}
