"""C20 — precision refinement only promotes channels and never raises the cost
(search loop only; correctness of the greedy reassignment is out of reach for this family).

 R20a accept only if lower: every re-assignment of the best cost / best configuration is
      guarded by ``candidate < best``; best is initialised from the base configuration.
 R20b promotion direction: mass moves from index i to j in range(i+1, ..) over an ascending
      argsort of the precisions, by the same amount, the 0-bit source being skipped.
 R20c permutation pairing (typestate ORIG / SORTED): the per-precision shares handed to
      _reassign_precisions must be in the original precision order; a sequence gathered by a
      permutation P is restored by P's inverse, not by gathering with P again.
 R20d counts are exact: a channel share stepped by a non-integer float must not bound a loop
      by ``> 0`` nor be converted to a count with a truncating ``int()``.
"""
from __future__ import annotations

import ast
from typing import List, Optional

from ..model import AnalysisError
from ..sym import NONE, Term, mentions, show, subterms
from ..util import (SELF, arg, callee, guards_of, is_call, method_call, paths, returning, short,
                    where)

EXPLANATION = ('Structural analysis of optimize_prec_assignment and _reassign_precisions: guard '
               'analysis of the best-so-far updates, index provenance of the mass moves, a '
               'two-state permutation typestate (ORIG / SORTED) over gather expressions, and '
               'detection of inexact float-stepped counters. Decides the search-loop clauses for '
               'every model; that the greedy reassignment meets every count is not decided.')
RULE_TEXT = 'obligation = one update site / move site / gather chain / counter site'


def is_argsort(t: Term) -> bool:
    return is_call(t, 'torch.argsort') or (method_call(t) is not None and
                                           method_call(t)[1] == 'argsort')


def perm_state(t: Term, P: Term) -> str:
    """ORIG | SORTED | BAD for a sequence expression, relative to the permutation P."""
    if t[0] == 'comp' and len(t[3]) == 1 and len(t[2]) == 1:
        tgt, it, conds = t[3][0]
        elt = t[2][0]
        if not conds and elt[0] == 'sub' and elt[2][0] == 'elem' and elt[2][1] == it:
            inner = perm_state(elt[1], P)
            if it == P:
                return {'ORIG': 'SORTED'}.get(inner, 'BAD')
            if is_argsort(it) and (it[2] == (P,) or (method_call(it) and method_call(it)[0] == P)):
                return {'SORTED': 'ORIG'}.get(inner, 'BAD')
            return 'BAD'
    if t[0] == 'call':
        c = callee(t)
        if c in ('torch.tensor', 'torch.stack', 'copy.deepcopy', 'torch.mul', 'builtins.list',
                 'torch.as_tensor') and t[2]:
            return perm_state(t[2][0], P)
        mc = method_call(t)
        if mc and mc[1] in ('clone', 'detach', 'tolist', 'float'):
            return perm_state(mc[0], P)
    if t[0] == 'bin' and t[1] == '*':
        return perm_state(t[2], P)
    return 'ORIG'


def run(ctx):
    repo = ctx.repo
    fn = repo.fn('optimize_prec_assignment')
    ra = repo.fn('_reassign_precisions')
    tree = fn.node

    # ---- R20a (syntactic, variables discovered by their initialisation) ------------------
    # the search may be split into step helpers that receive and return the best cost /
    # configuration: every function of the helper closure is examined
    from ..util import helper_closure as _hc
    fns20 = _hc(repo, fn)
    best_vars = {}
    for g in fns20:
        for n in ast.walk(g.node):
            if isinstance(n, ast.Assign) and len(n.targets) == 1 and \
                    isinstance(n.targets[0], ast.Name) and isinstance(n.value, ast.Call) and \
                    ast.unparse(n.value.func) == 'copy.deepcopy' and len(n.value.args) == 1 and \
                    isinstance(n.value.args[0], ast.Name):
                best_vars.setdefault(n.targets[0].id, n)
    # the best-cost variable is the one that receives a candidate cost (the result of a
    # cost evaluation) inside the search loops (or in a step helper called from them)
    sites = []          # (function, best name, update statement)
    for g in fns20:
        scopes = [w for w in ast.walk(g.node) if isinstance(w, ast.While)] if g is fn \
            else [g.node]
        params = {a.arg for a in g.node.args.args}
        for w in scopes:
            cand = set()
            for n in ast.walk(w):
                if isinstance(n, ast.Assign) and len(n.targets) == 1 and \
                        isinstance(n.targets[0], ast.Name) and isinstance(n.value, ast.Call) and \
                        'cost' in ast.unparse(n.value.func):
                    cand.add(n.targets[0].id)
            for n in ast.walk(w):
                if isinstance(n, ast.Assign) and len(n.targets) == 1 and \
                        isinstance(n.targets[0], ast.Name) and isinstance(n.value, ast.Name) and \
                        n.value.id in cand and (n.targets[0].id in best_vars or
                                                (g is not fn and n.targets[0].id in params)):
                    if not any(x[2] is n for x in sites):
                        sites.append((g, n.targets[0].id, n))
    if not sites:
        raise AnalysisError('optimize_prec_assignment: best-cost variable not found')
    best_cost = sites[0][1]
    init = best_vars.get(best_cost) or next(iter(best_vars.values()), None)
    n_upd = 0
    for g, bname, n in sites:
        parents = {}
        for x in ast.walk(g.node):
            for c in ast.iter_child_nodes(x):
                parents[c] = x
        n_upd += 1
        # innermost enclosing if
        p = parents.get(n)
        while p is not None and not isinstance(p, ast.If):
            p = parents.get(p)
        ok = p is not None and n in p.body and isinstance(p.test, ast.Compare) and \
            len(p.test.ops) == 1 and isinstance(p.test.ops[0], ast.Lt) and \
            ast.dump(p.test.left) == ast.dump(n.value) and \
            isinstance(p.test.comparators[0], ast.Name) and \
            p.test.comparators[0].id == bname
        ctx.ob('R20a', f'optimize_prec_assignment update of {best_cost} #{n_upd}', ok,
               'guarded by candidate < best' if ok else
               f'"{ast.unparse(n)}" is not guarded by "{ast.unparse(n.value)} < {bname}": '
               f'a configuration that does not lower the cost can be kept',
               f'{g.module.relpath}:{n.lineno}')
        # the configuration is saved in the same block
        if ok:
            saved = [s_ for s_ in p.body if isinstance(s_, ast.Assign) and s_ is not n and
                     any(isinstance(t, ast.Name) and t.id != bname and
                         (t.id in best_vars or t.id in {a.arg for a in g.node.args.args})
                         for t in s_.targets)]
            ctx.ob('R20a', f'optimize_prec_assignment saves the configuration #{n_upd}',
                   bool(saved), 'best configuration saved together with its cost' if saved
                   else 'the cost is updated without saving the configuration',
                   f'{g.module.relpath}:{n.lineno}', nontrivial=False)
    ctx.floor('R20a', 'best-cost update sites', n_upd, 1 if len(fns20) > 1 else 2)
    # best initialised from the base cost / configuration
    base_names = {ast.unparse(v.value.args[0]) for v in best_vars.values()}
    ctx.ob('R20a', 'optimize_prec_assignment initialises best from the base configuration',
           'base_cost' in base_names,
           f'initialised from {sorted(base_names)}' if 'base_cost' in base_names else
           f'best is initialised from {sorted(base_names)}, not from the base cost',
           f'{fn.module.relpath}:{init.lineno if init is not None else fn.node.lineno}',
           nontrivial=False)

    # ---- R20b (def-use on the path terms) ----------------------------------------------
    moves = {}
    P = None
    for p in returning(paths(repo, fn)):
        for e in p.events:
            if e.kind == 'setitem' and e.data[3]:       # augmented assignment
                obj, idx, val = e.data[0], e.data[1], e.data[2]
                if val[0] == 'bin' and val[1] in ('+', '-') and idx[0] == 'elem' and \
                        is_call(idx[1], 'builtins.range'):
                    key = (getattr(e.node, 'lineno', 0), val[1])
                    moves.setdefault(key, (p, e))
    subs = {k: v for k, v in moves.items() if k[1] == '-'}
    adds = {k: v for k, v in moves.items() if k[1] == '+'}
    # two search loops in the function itself; one shared step when they were de-duplicated
    ctx.floor('R20b', 'mass-move sites', min(len(subs), len(adds)), 1 if len(fns20) > 1 else 2)
    for (ln, _), (p, e) in sorted(subs.items()):
        i = e.data[1]
        d = e.data[2][3]
        # matching addition on the same path (next augmented store)
        ev = p.events
        k = ev.index(e)
        add = next((x for x in ev[k + 1:] if x.kind == 'setitem' and x.data[3] and
                    x.data[2][0] == 'bin' and x.data[2][1] == '+'), None)
        ok = add is not None and add.data[2][3] == d and add.data[1][0] == 'elem' and \
            is_call(add.data[1][1], 'builtins.range')
        msg = 'no matching addition'
        if ok:
            j = add.data[1]
            r = j[1]
            ok = len(r[2]) == 2 and r[2][0] in (('bin', '+', i, ('const', 1)),
                                                ('bin', '+', ('const', 1), i))
            msg = f'destination index ranges over {short(r, 80)}'
            # ascending order of the sorted precisions
            ri = i[1]
            srt = [x for x in subterms(ri) if is_argsort(x)]
            if ok and srt:
                P = srt[0]
                desc = arg(P, None, 'descending')
                ok = desc in (None, ('const', False))
                msg = 'precisions sorted in descending order'
            # 0-bit source skipped
            if ok:
                skip = any(a[0] == 'cmp' and a[1] == '==' and a[3] == ('const', 0) and
                           a[2][0] == 'sub' and a[2][2] == i and v is False
                           for a, v in p.assumptions)
                ok = skip
                msg = 'the 0-bit source precision is not skipped'
        ctx.ob('R20b', f'optimize_prec_assignment move site +{ln - fn.node.lineno}', ok,
               'mass moves from i to j in range(i+1, ..) over ascending precisions, by the same '
               'amount, 0-bit skipped' if ok else
               f'the channel move does not only promote: {msg}', f'{fn.module.relpath}:{ln}')

    # ---- R20c -----------------------------------------------------------------------------
    if P is None:
        for p in returning(paths(repo, fn)):
            for e in p.calls():
                for x in subterms(e.data[0]):
                    if is_argsort(x) and P is None:
                        P = x
    if P is None:
        raise AnalysisError('optimize_prec_assignment: permutation (argsort) not found')
    seen = {}
    for p in returning(paths(repo, fn)):
        for e in p.calls():
            t = e.data[0]
            if callee(t) == ra.qualname and t[2]:
                from ..util import resolve_namedtuples
                st = perm_state(resolve_namedtuples(repo, t[2][0]), resolve_namedtuples(repo, P))
                key = (st, show(t[2][0])[:0])
                seen.setdefault(st, (p, e, t[2][0]))
    if not seen:
        raise AnalysisError('optimize_prec_assignment: call of _reassign_precisions not found')
    for st, (p, e, a0) in sorted(seen.items()):
        ok = st == 'ORIG'
        ctx.ob('R20c', f'optimize_prec_assignment shares handed to _reassign_precisions are {st}',
               ok, 'per-precision shares in the original precision order' if ok else
               (f'the shares {short(a0, 160)} reach _reassign_precisions in '
                f'{"sorted" if st == "SORTED" else "doubly permuted"} order: a sequence gathered '
                f'with the permutation argsort(precision) must be restored with its inverse '
                f'(argsort of it / scatter), not gathered with it again, and an un-gathered '
                f'sequence must not be gathered at all'), where(fn, e.node))

    # ---- R20h: channels are ranked by the raw coefficients ---------------------------------
    # the function forces hard (arg-max) sampling and runs a forward pass first, so the sampled
    # coefficients theta_alpha are one-hot: as scores they tie every non-member at 0 and the
    # reassignment picks by index order.  The score matrix must be the raw alpha.
    forced_hard = False
    n_sc = 0
    for p in returning(paths(repo, fn)):
        for e in p.calls():
            t = e.data[0]
            mc = method_call(t)
            if mc and mc[1] == 'update_softmax_options' and \
                    (arg(t, None, 'hard') == ('const', True) or
                     (len(mc[2]) > 1 and mc[2][1] == ('const', True))):
                forced_hard = True
            if callee(t) == ra.qualname and len(t[2]) > 1:
                sc = t[2][1]
                raw = mentions(sc, lambda x: x[0] == 'attr' and x[2] == 'alpha')
                sampled = mentions(sc, lambda x: x[0] == 'attr' and x[2] == 'theta_alpha')
                key = show(sc)
                if key in seen:
                    continue
                seen[key] = True
                n_sc += 1
                ok = raw and not sampled
                ctx.ob('R20h', 'optimize_prec_assignment ranks channels by the raw coefficients',
                       ok, f'scores = {short(sc, 80)}' if ok else
                       f'the score matrix handed to _reassign_precisions is {short(sc, 80)}'
                       + (': the sampled coefficients are one-hot here (hard sampling is forced '
                          'at the top of the function), every channel outside a precision ties '
                          'at 0 and the channel promoted is chosen by index, so a channel of the '
                          'wrong source precision is promoted and the intended one is demoted'
                          if sampled else ', not the raw alpha of the quantizer'),
                       where(fn, e.node))
    ctx.floor('R20h', 'score arguments', n_sc, 1)
    ctx.note(f'R20h: hard sampling forced before the search: {forced_hard}')

    # ---- R20g: candidate configurations are priced at the right bit-widths ----------------
    # a helper that zips its share argument with layer.<q>.precision (original order) must be
    # given shares in the original order
    n_calls = 0
    helpers = {}
    for f in repo.all_functions():
        if f.module is not fn.module or f is fn:
            continue
        for k, prm in enumerate(f.params):
            zipped = False
            for q in paths(repo, f):
                for e in q.calls():
                    t = e.data[0]
                    if is_call(t, 'builtins.zip') and len(t[2]) == 2 and \
                            ('param', prm) in t[2] and any(
                                x[0] == 'attr' and x[2] == 'precision' for x in t[2]):
                        zipped = True
            if zipped:
                helpers[f.qualname] = (f, k)
    seen_states = {}
    for p in returning(paths(repo, fn)):
        for e in p.calls():
            t = e.data[0]
            c = callee(t)
            if c in helpers and len(t[2]) > helpers[c][1]:
                from ..util import resolve_namedtuples
                a = resolve_namedtuples(repo, t[2][helpers[c][1]])
                st = perm_state(a, resolve_namedtuples(repo, P))
                seen_states.setdefault((helpers[c][0].name, st, getattr(e.node, 'lineno', 0)),
                                       (e, a))
    for (hname, st, ln), (e, a) in sorted(seen_states.items()):
        n_calls += 1
        ok = st == 'ORIG'
        ctx.ob('R20g', f'optimize_prec_assignment shares priced by {hname} '
               f'+{ln - fn.node.lineno} are {st}', ok,
               'shares in the order of layer.w_mps_quantizer.precision' if ok else
               f'{hname} pairs its share argument with layer.w_mps_quantizer.precision in the '
               f'original order, but receives {short(a, 100)} in '
               f'{"sorted" if st == "SORTED" else "doubly permuted"} order: for a precision '
               f'tuple that is not ascending every candidate is priced at the wrong bit-widths, '
               f'so a configuration that raises the cost can be kept', where(fn, e.node))
    ctx.floor('R20g', 'pricing call sites', n_calls, 2 if len(fns20) > 1 else 3)

    # ---- R20d -----------------------------------------------------------------------------
    n_loops = 0
    defs = {}
    kwdefs = {}          # field of a record built in the closure -> its values
    for g in fns20:
        for n in ast.walk(g.node):
            if isinstance(n, ast.Assign) and len(n.targets) == 1 and \
                    isinstance(n.targets[0], ast.Name):
                defs.setdefault(n.targets[0].id, []).append(n.value)
            if isinstance(n, ast.Call) and isinstance(n.func, ast.Name) and n.keywords:
                for kw in n.keywords:
                    if kw.arg:
                        kwdefs.setdefault(kw.arg, []).append(kw.value)

    def positive(e, depth=0) -> bool:
        """expression certainly > 0: positive literals, sizes, and their products/quotients"""
        if isinstance(e, ast.Constant):
            return isinstance(e.value, (int, float)) and e.value > 0
        if isinstance(e, ast.BinOp) and isinstance(e.op, (ast.Div, ast.Mult)):
            return positive(e.left, depth) and positive(e.right, depth)
        if isinstance(e, ast.Subscript) and isinstance(e.value, ast.Attribute) and \
                e.value.attr == 'shape':
            return True
        if isinstance(e, ast.Call) and ast.unparse(e.func) == 'len':
            return True
        if isinstance(e, ast.Name) and depth < 3 and len(defs.get(e.id, [])) == 1:
            return positive(defs[e.id][0], depth + 1)
        if isinstance(e, ast.Attribute) and isinstance(e.value, ast.Name) and depth < 3 and \
                len(kwdefs.get(e.attr, [])) == 1:
            return positive(kwdefs[e.attr][0], depth + 1)    # field of a record (NamedTuple)
        return False

    for n in [x for g in fns20 for x in ast.walk(g.node)]:
        if isinstance(n, ast.While) and isinstance(n.test, ast.Compare) and \
                len(n.test.ops) == 1 and isinstance(n.test.ops[0], (ast.Gt, ast.GtE)):
            for b in ast.walk(n):
                if isinstance(b, ast.AugAssign) and isinstance(b.op, ast.Sub) and \
                        ast.dump(b.target).replace('Store()', 'Load()') == \
                        ast.dump(n.test.left):
                    n_loops += 1
                    step_is_float = isinstance(b.value, ast.BinOp) and \
                        isinstance(b.value.op, ast.Div)
                    tolerant = positive(n.test.comparators[0])
                    ok = (not step_is_float) or tolerant
                    ctx.ob('R20d', f'optimize_prec_assignment while-loop #{n_loops} float-stepped '
                           f'share', ok,
                           ('integer-stepped counter' if not step_is_float else
                            f'compared against the positive tolerance '
                            f'{ast.unparse(n.test.comparators[0])}') if ok else
                           f'"while {ast.unparse(n.test)}" is bounded by a share decremented by '
                           f'the non-integer float {ast.unparse(b.value)}: rounding residue makes '
                           f'the loop run one step too many or too few (negative / missing '
                           f'channel counts)', f'{fn.module.relpath}:{n.lineno}')
    ctx.floor('R20d', 'share-stepping loops', n_loops, 1 if len(fns20) > 1 else 2)
    for p in returning(paths(repo, ra)):
        for e in p.calls():
            t = e.data[0]
            if is_call(t, 'builtins.int') and t[2] and \
                    mentions(t[2][0], lambda x: x == ('param', ra.params[0])):
                inner = t[2][0]
                rounded = mentions(inner, lambda x: is_call(x, 'builtins.round', 'torch.round') or
                                   (method_call(x) is not None and method_call(x)[1] == 'round'))
                ctx.ob('R20d', '_reassign_precisions count conversion', rounded,
                       'rounded before conversion' if rounded else
                       f'target counts are obtained with the truncating {short(t, 60)} from float '
                       f'shares x channels (1.9999999 -> 1): a channel is left without a '
                       f'precision', where(ra, e.node))
    # ---- R20e: no pass of the reassignment works on a stale view of the assignment -------
    from ..stale import stale_snapshots
    control = ast.parse('def f(a):\n    free = (a == -1).nonzero()\n    for p in range(3):\n'
                        '        a[free[:1]] = p\n').body[0]
    if len(stale_snapshots(control)[0]) != 1:
        raise AnalysisError('R20e: positive control not recognised')
    n_loops = 0
    from ..util import helper_closure
    ra_fns = helper_closure(repo, ra)          # the passes may be split into step functions
    for f in ra_fns + [x for x in helper_closure(repo, fn) if x not in ra_fns]:
        found, nl = stale_snapshots(f.node)
        n_loops += nl
        for loop, u, X, d, m in found:
            ctx.ob('R20e', f'{f.name}: {u} is a snapshot of {X} reused across iterations', False,
                   f'"{ast.unparse(d)[:90]}" is computed once before the loop at line '
                   f'{loop.lineno}, but the loop rewrites {X} ("{ast.unparse(m)[:70]}") and reads '
                   f'{u} again in later iterations: channels already handed out are still '
                   f'treated as available, so a channel can be given two precisions and a '
                   f'target count is missed', f'{f.module.relpath}:{d.lineno}')
        if not found:
            ctx.ob('R20e', f'{f.name}: views of rewritten state are recomputed per iteration',
                   True, f'{nl} loops: no value computed from an object before a loop is reused '
                   f'in the loop that rewrites the object', where(f))
    ctx.floor('R20e', 'loops examined', n_loops, 6)
    # ---- R20f: a pass that hands out labels respects the labels already handed out -------
    n_sites = 0
    for raf, loop in [(f, n) for f in ra_fns for n in ast.walk(f.node) if isinstance(n, ast.For)]:
        lvs = {x.id for x in ast.walk(loop.target) if isinstance(x, ast.Name)}
        if not lvs:
            continue
        body_defs = {}
        for n in ast.walk(loop):
            if isinstance(n, ast.Assign) and len(n.targets) == 1 and \
                    isinstance(n.targets[0], ast.Name):
                body_defs.setdefault(n.targets[0].id, []).append(n.value)
        for n in ast.walk(loop):
            if isinstance(n, ast.Assign) and len(n.targets) == 1 and \
                    isinstance(n.targets[0], ast.Subscript) and \
                    isinstance(n.targets[0].value, ast.Name) and \
                    isinstance(n.value, ast.Name) and n.value.id in lvs:
                lv = n.value.id
                X = n.targets[0].value.id
                def selecting_names(e):
                    # names that decide WHICH channels are selected: the bounds of a plain
                    # slice (x[:k]) only decide how many, so they are not followed
                    out = set()
                    stack = [e]
                    while stack:
                        x = stack.pop()
                        if isinstance(x, ast.Slice):
                            continue
                        if isinstance(x, ast.Name):
                            out.add(x.id)
                        stack.extend(ast.iter_child_nodes(x))
                    return out
                seen, work = set(), [n.targets[0].slice]
                while work:
                    e = work.pop()
                    for nm in selecting_names(e):
                        if nm not in seen:
                            seen.add(nm)
                            work.extend(body_defs.get(nm, []))
                n_sites += 1
                ok = X in seen
                ctx.ob('R20f', f'_reassign_precisions: "{ast.unparse(n)}" respects earlier claims',
                       ok, f'the channels written are selected from the current content of {X}'
                       if ok else
                       f'the channels given label {lv} are selected from '
                       f'"{ast.unparse(n.targets[0].slice)}" = '
                       f'{[ast.unparse(d)[:60] for d in body_defs.get(ast.unparse(n.targets[0].slice), [])]}'
                       f', which does not depend on the current content of {X}: a channel that an '
                       f'earlier iteration already gave to another label is taken again, so that '
                       f'label ends below its target count', f'{raf.module.relpath}:{n.lineno}')
    ctx.floor('R20f', 'label-assignment sites', n_sites, 2)
    # ---- R20m: a pass skips a precision only on facts about the CURRENT assignment -----------
    # the passes rewrite a working copy (new = current.clone()); a test that lets an iteration
    # leave early (continue / break) and that is computed from the copy's ORIGINAL -- which the
    # earlier iterations have not updated -- takes "this precision already has its channels" for
    # granted after a lower precision has claimed some of them: the precision never takes them
    # back (a channel is demoted, or a count is missed)
    n_exits = 0
    for raf in ra_fns:
        copies = {}          # working copy -> original
        for n in ast.walk(raf.node):
            if isinstance(n, ast.Assign) and len(n.targets) == 1 and \
                    isinstance(n.targets[0], ast.Name) and isinstance(n.value, ast.Call) and \
                    isinstance(n.value.func, ast.Attribute) and \
                    n.value.func.attr in ('clone', 'copy', 'detach') and \
                    isinstance(n.value.func.value, ast.Name):
                copies[n.targets[0].id] = n.value.func.value.id
        for loop in [n for n in ast.walk(raf.node) if isinstance(n, ast.For)]:
            written = {n.targets[0].value.id for n in ast.walk(loop)
                       if isinstance(n, ast.Assign) and len(n.targets) == 1 and
                       isinstance(n.targets[0], ast.Subscript) and
                       isinstance(n.targets[0].value, ast.Name)}
            stale = {copies[w] for w in written if w in copies}
            if not stale:
                continue
            body_defs = {}
            for n in ast.walk(loop):
                if isinstance(n, ast.Assign) and len(n.targets) == 1 and \
                        isinstance(n.targets[0], ast.Name):
                    body_defs.setdefault(n.targets[0].id, []).append(n.value)
            for n in ast.walk(loop):
                if not (isinstance(n, ast.If) and any(isinstance(x, (ast.Continue, ast.Break))
                                                      for x in n.body + n.orelse)):
                    continue
                n_exits += 1
                seen, work = set(), [n.test]
                while work:
                    e = work.pop()
                    for x in ast.walk(e):
                        if isinstance(x, ast.Name) and x.id not in seen:
                            seen.add(x.id)
                            work.extend(body_defs.get(x.id, []))
                hit = sorted(seen & stale)
                ctx.ob('R20m', f'{raf.name}: early exit "{ast.unparse(n.test)[:60]}" is decided on '
                       f'the current assignment', not hit,
                       'the test does not read the original of the working copy' if not hit else
                       f'the iteration is left early on a test computed from {hit[0]}, the '
                       f'original that the loop does not update (it rewrites its copy '
                       f'{sorted(w for w in written if copies.get(w) == hit[0])[0]}): after an '
                       f'earlier precision has claimed channels of this one, "it already has its '
                       f'channels" is no longer true, the precision never takes them back, and a '
                       f'channel ends at a lower bit-width or a target count is missed',
                       f'{raf.module.relpath}:{n.lineno}')
    ctx.floor('R20m', 'early exits of the reassignment passes', n_exits, 1)
    # ---- R20k: the shares are channel counts only under hard sampling ------------------------
    # theta_alpha.mean(dim=1) is (channels at the precision) / (channels) only when every column
    # is one-hot: the function must switch the model to hard sampling and run a forward pass
    # (which re-samples) before it reads a cost or a coefficient
    model = ('param', fn.params[0])
    n_k = 0
    for p in returning(paths(repo, fn)):
        i_hard = i_fwd = i_read = None
        for i, e in enumerate(p.events):
            if e.kind != 'call':
                continue
            t = e.data[0]
            mc = method_call(t)
            if mc and mc[0] == model and mc[1] == 'update_softmax_options' and i_hard is None:
                hard = dict(mc[3]).get('hard', mc[2][1] if len(mc[2]) > 1 else None)
                if hard == ('const', True):
                    i_hard = i
            elif t[1] == model and i_hard is not None and i_fwd is None:
                i_fwd = i
            elif i_read is None and (mentions(t, lambda y: y[0] == 'attr' and y[2] == 'theta_alpha')
                                     or (mc and mc[1] == 'get_cost')):
                i_read = i
        if i_read is None:
            continue
        n_k += 1
        ok = i_hard is not None and i_fwd is not None and i_hard < i_fwd < i_read
        ctx.ob('R20k', 'optimize_prec_assignment forces hard sampling before reading shares', ok,
               'update_softmax_options(hard=True), then a forward pass, then the first read'
               if ok else
               'the coefficients / costs are read without update_softmax_options(hard=True) '
               'followed by a forward pass: with soft sampling theta_alpha.mean(dim=1) is not a '
               'channel count, so the "channels" that are moved and re-assigned do not exist',
               where(fn))
    ctx.floor('R20k', 'paths that read the coefficients', n_k, 1)
    # ---- R20j: candidates are priced like the model prices itself ---------------------------
    # _compute_cost fills entry (i, j) = theta_in[i] * share[j] * cost_fn(spec i, j) for EVERY
    # pair: an entry skipped under a threshold on the share is priced 0 by the refinement but
    # not by get_cost, so an under-estimated candidate can win and the real cost goes up
    cc = repo.fn('mps.utils._compute_cost')
    n_price = 0
    skipped = []
    for p in returning(paths(repo, cc)):
        inner = [e for e in p.events if sum(1 for c in e.ctx if c and c[0] == 'loop') >= 2]
        if not inner:
            continue
        stores = [e for e in inner if e.kind == 'setitem' and
                  mentions(e.data[2], lambda y: y[0] == 'call' and y[1][0] == 'sub' and
                           y[1][1] == ('param', cc.params[3]))]
        if stores:
            n_price += 1
            v = stores[0].data[2]
            share = [x for x in subterms(v) if x[0] == 'sub' and x[1][0] == 'elem' and
                     mentions(x[1], lambda y: y == ('param', cc.params[2]))]
            ok = bool(share)
            ctx.ob('R20j', '_compute_cost entry = theta_in x share x cost_fn', ok,
                   'each entry weighted by the candidate share of its precision' if ok else
                   f'entry is {short(v, 120)}: not weighted by the candidate share',
                   where(cc, stores[0].node))
        else:
            conds = [(e.data[0], e.data[1]) for e in inner if e.kind == 'assume']
            zero_only = conds and all(
                a[0] == 'cmp' and a[1] in ('==', '!=') and ('const', 0) in (a[2], a[3])
                for a, _ in conds)
            if not zero_only:
                skipped.append((conds, inner[0]))
    ctx.floor('R20j', 'pricing paths of _compute_cost', n_price, 1)
    ctx.ob('R20j', '_compute_cost prices every (input precision, weight precision) pair',
           not skipped,
           'no entry of the configuration cost is skipped' if not skipped else
           f'an entry is left at 0 when {[(short(a, 70), v) for a, v in skipped[0][0]][:2]}: the '
           f'refinement prices such a precision at 0 while get_cost charges it (the share is '
           f'measured over all channels, the threshold over the unpruned ones), so an '
           f'under-estimated candidate wins and the cost of the returned model is higher',
           where(cc, skipped[0][1].node) if skipped else where(cc))
    # ---- R20i: the cost model the refinement minimises is monotone for FRACTIONAL shares ---
    # candidates are priced with float-accumulated shares (k/C - eps): "never raises the cost"
    # needs the NE16 model to be non-decreasing in real-valued channel counts (C16's analysis of
    # the three NE16 registrations, incl. the tiling lemma on the ragged output tile)
    from . import c16
    from ..costlib import cost_specs
    c16.r16a(ctx, cost_specs(repo), rule='R20i', only=('ne16_latency',))
    # R20l: an emptied precision reaches the model as a float residue around zero (possibly a few
    # ulps NEGATIVE): the quotient helper floors, so the remainder helper must be the floor
    # modulo (result in [0, N)) for "full tiles + ragged tile" to price it at ~0; a truncated
    # remainder credits a negative tile and the emptying candidate wins although the real cost rises
    c16.r16b(ctx, rule='R20l', only=('ne16_latency',))
    ctx.assume('shares are multiples of 1/C represented in float32; argsort returns a permutation')
    ctx.note('not decided: that _reassign_precisions meets every count for every score matrix '
             '(greedy algorithm correctness)')


MANIFEST = {
    'text': 'Search-loop clauses of C20 for every model: best-so-far is only replaced under '
            'candidate < best and starts from the base configuration; channel mass only moves to '
            'higher precisions (ascending argsort, j > i, 0-bit skipped, same amount); the '
            'shares reach _reassign_precisions in the original order (permutation typestate); '
            'counters are not float-stepped / truncated. Correctness of the greedy reassignment '
            'itself is not decided. A reassignment pass leaves an iteration early only on facts about the working copy it rewrites.',
    'note': 'R20c / R20d / R20g violations of the pinned tree are repaired by fix: commits; the '
            'first-pass claim defect of _reassign_precisions (R20f) is a known finding.',
    'technique': 'guard analysis + index provenance + permutation typestate + inexact-counter '
                 'detection',
}
