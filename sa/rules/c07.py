"""C07 — importing a model is behaviour-preserving and leaves the user model intact
(structural clauses).

 R07a constructor forwarding: every searchable / quantised / integer replacement class
      forwards, in the torch parameter order, the hyper-parameters of the layer it replaces
      (bias as ``src.bias is not None``) and copies weight and, under the same predicate,
      bias (else sets it None); BatchNorm replacements copy statistics and affine terms.
 R07b mode restore: PIT.__init__ and MPS.__init__ capture ``model.training`` before the
      conversion (which forces eval()) and, on every path, finish with train()/eval() on the
      wrapper and its seed selected by the captured value.
 R07c caller-owned objects: in PIT and SuperNet construction every write that can reach an
      object owned by the caller's model is enumerated (effects closure); allowed are only
      writes to names no forward reads and that are neither parameters nor buffers; a
      forward-written attribute must be recomputed before it is read.
 R07d the two BatchNorm folding blocks (PIT, MPS) implement the same, correct formula.
 R07f in-place fusion (BatchNorm folding) is applied once per pair of modules, not once per
      call site of the pair.
 R07e mode typestate of internal forward passes: the shape-propagation pass of every
      conversion runs after eval() with no train(...) in between (BatchNorm statistics of the
      caller's layers are not updated by the import).
"""
from __future__ import annotations

import ast
from typing import Dict, List, Optional, Set, Tuple

from .. import poly
from ..costlib import layer_map
from ..effects import Effect, Effects
from ..model import AnalysisError, ClassInfo, FunctionInfo
from ..sym import NONE, State, Term, mentions, show, subterms
from ..util import (SELF, arg, bind_args, callee, canon_torch, guards_of, is_call, method_call, path_guards, paths,
                    returning, short, where)

EXPLANATION = ('Argument-slot agreement of every super().__init__ call against the torch '
               'constructor signatures parsed from torch source, copy/None-flow check of weight '
               'and bias, must-pass-through check of the mode restore, interprocedural '
               'effect/ownership closure of the wrapper constructors for writes reaching the '
               'caller\'s model, polynomial comparison of the two folding blocks with the '
               'BatchNorm folding formula. Output equality of wrapped and original model is not '
               'computed.')
RULE_TEXT = ('obligation = (replacement class, constructor slot / copy) / (wrapper, path) / '
             '(wrapper constructor, effect on caller-owned state) / (folding block, formula)')


def replacement_classes(ctx) -> List[Tuple[str, ClassInfo]]:
    out = []
    for reg in ('pit_layer_map', 'mps_layer_map', 'match_layer_map', 'maupiti_layer_map'):
        for k, ci in sorted(layer_map(ctx.repo, reg).items()):
            out.append((reg, ci))
    for name in ('QuantConv1d', 'QuantConv2d', 'QuantLinear'):
        out.append(('quant', ctx.repo.cls(name)))
    return out


def torch_base(ctx, ci: ClassInfo) -> Optional[str]:
    for b in ctx.repo.external_bases(ci):
        n = b.split('.')[-1]
        if n in ('Conv1d', 'Conv2d', 'Linear', 'BatchNorm1d', 'BatchNorm2d'):
            return n
    return None


def r07a(ctx):
    repo = ctx.repo
    tf = ctx.torch
    n = 0
    for reg, ci in replacement_classes(ctx):
        init = ci.methods.get('__init__')
        tb = torch_base(ctx, ci)
        if init is None or tb is None:
            raise AnalysisError(f'{ci.name}: constructor / torch base not found')
        n += 1
        src = ('param', init.params[1])
        params = tf.init_positional(tb)
        sup = None
        for p in returning(paths(repo, init)):
            for e in p.calls():
                mc = method_call(e.data[0])
                if mc and mc[1] == '__init__' and is_call(mc[0], 'builtins.super'):
                    sup = e.data[0]
        if sup is None:
            raise AnalysisError(f'{ci.name}.__init__: super().__init__ call not found')
        bound = bind_args(sup, params)
        for pname, val in bound.items():
            if pname == 'bias':
                want = [('un', 'not', ('cmp', 'is', ('attr', src, 'bias'), NONE)),
                        ('cmp', 'is not', ('attr', src, 'bias'), NONE)]
            else:
                want = [('attr', src, pname)]
            ok = val in want
            ctx.ob('R07a', f'{ci.name}.__init__ super({pname}=)', ok,
                   f'{pname} <- {short(val, 60)}' if ok else
                   f'{pname} is initialised with {short(val, 80)}, expected '
                   f'{short(want[0], 60)}: the replacement does not have the hyper-parameters of '
                   f'the layer it replaces', where(init),
                   nontrivial=pname in ('in_channels', 'out_channels', 'kernel_size', 'stride',
                                        'padding', 'dilation', 'groups', 'bias', 'in_features',
                                        'out_features', 'num_features'))
        need = [x for x in params if x not in ('device', 'dtype')]
        missing = [x for x in need if x not in bound and x not in ('padding_mode',)]
        if tb.startswith('BatchNorm'):
            missing = [x for x in missing if x == 'num_features']
        ctx.ob('R07a', f'{ci.name}.__init__ forwards all hyper-parameters', not missing,
               'complete' if not missing else f'{missing} left at torch defaults', where(init))
        # weight / bias copies
        if reg in ('match_layer_map', 'maupiti_layer_map'):
            continue            # integer image instead of a copy (C14 R14f)
        for p in returning(paths(repo, init)):
            copies = {}
            for e in p.calls():
                mc = method_call(e.data[0])
                if mc and mc[1] == 'copy_' and mc[0][0] == 'attr' and mc[0][1] == SELF:
                    copies[mc[0][2]] = mc[2][0]
            lblp = ', '.join(f'{show(a)}={v}' for a, v in p.assumptions if 'bias' in show(a)
                             or 'running' in show(a)) or 'always'
            stores = {}
            for e in p.events:
                if e.kind == 'setattr' and e.data[0] == SELF:
                    stores[e.data[1]] = e.data[2]
            okw, whyw = tensor_init(copies, stores, 'weight', src)
            ctx.ob('R07a', f'{ci.name}.__init__ copies weight [{lblp}]', okw, whyw, where(init))
            if tb.startswith('BatchNorm'):
                for t in ('bias', 'running_mean', 'running_var'):
                    none_path = any(a == ('isnone', ('attr', src, t)) and v
                                    for a, v in p.assumptions)
                    okb = copies.get(t) == ('attr', src, t) or none_path
                    ctx.ob('R07a', f'{ci.name}.__init__ copies {t} [{lblp}]', okb,
                           f'{t} copied' if okb else f'{t} is not copied from the replaced layer',
                           where(init))
                continue
            has_bias = any(a == ('isnone', ('attr', src, 'bias')) and v is False
                           for a, v in p.assumptions)
            no_bias = any(a == ('isnone', ('attr', src, 'bias')) and v is True
                          for a, v in p.assumptions)
            if has_bias:
                okb, whyb = tensor_init(copies, stores, 'bias', src)
                ctx.ob('R07a', f'{ci.name}.__init__ copies bias [{lblp}]', okb, whyb,
                       where(init))
            if not has_bias and not no_bias:
                # no test of src.bias on this path: both cases must be handled by one store
                okb, whyb = tensor_init(copies, stores, 'bias', src, maybe_none=True)
                ctx.ob('R07a', f'{ci.name}.__init__ copies bias [{lblp}]', okb, whyb,
                       where(init))
            if no_bias:
                last = None
                for e in p.events:
                    if e.kind == 'setattr' and e.data[0] == SELF and e.data[1] == 'bias':
                        last = e.data[2]
                okn = last == NONE and 'bias' not in copies
                ctx.ob('R07a', f'{ci.name}.__init__ bias-free source [{lblp}]', okn,
                       'self.bias = None' if okn else
                       f'with a bias-free source the bias is {short(last) if last else "left as created"}',
                       where(init), nontrivial=False)
    ctx.floor('R07a', 'replacement classes', n, 15)


def tensor_init(copies, stores, name: str, src: Term, maybe_none: bool = False):
    """The replacement's tensor must hold the *values* of the replaced layer's tensor in
    *its own storage*: ``self.t.copy_(src.t)`` or ``self.t = Parameter(<clone/deepcopy of
    src.t>)``.  Re-using the object (``self.t = src.t``) or its storage (``Parameter(src.t)``,
    ``.data``) makes later in-place edits (BatchNorm folding, weight compensation) write into
    the caller's model."""
    want = ('attr', src, name)
    if copies.get(name) == want:
        return True, f'self.{name}.copy_(src.{name})'
    v = stores.get(name)
    if v is not None and v != NONE:
        if not mentions(v, lambda x: x == want):
            return False, f'{name} is initialised from {short(v, 80)}, not from the replaced layer'
        fresh = mentions(v, lambda x: (method_call(x) is not None and
                                       method_call(x)[1] in ('clone',) and
                                       mentions(method_call(x)[0], lambda y: y == want)) or
                         (is_call(x, 'copy.deepcopy', 'torch.clone') and
                          mentions(x[2], lambda y: y == want)))
        if fresh:
            return True, f'{name} re-created from a clone of src.{name}'
        return False, (f'self.{name} = {short(v, 80)} shares the Parameter (or its storage) with '
                       f'the replaced layer: in-place edits made later by the conversion '
                       f'(BatchNorm folding, weight compensation) write into the caller\'s model')
    return False, f'{name} of the replaced layer is not copied into the replacement'


def r07b(ctx):
    repo = ctx.repo
    for wname in ('PIT', 'MPS'):
        w = repo.cls(wname)
        init = w.methods['__init__']
        model = ('param', init.params[1])
        rets = returning(paths(repo, init))
        if not rets:
            raise AnalysisError(f'{wname}.__init__: no returning path')
        for k, p in enumerate(rets):
            i_cap = i_conv = None
            for i, e in enumerate(p.events):
                if e.kind == 'setattr' and e.data[0] == SELF and \
                        e.data[2] == ('attr', model, 'training') and i_cap is None:
                    i_cap = i
                    cap_attr = e.data[1]
                if e.kind == 'call' and callee(e.data[0]) is not None and \
                        callee(e.data[0]).endswith('graph.convert') and i_conv is None:
                    i_conv = i
            ok = i_cap is not None and i_conv is not None and i_cap < i_conv
            msg = 'model.training captured before the conversion'
            if ok:
                flag = ('attr', SELF, cap_attr)
                pol = [v for a, v in p.assumptions if a == flag]
                # last recursive mode switch on the wrapper after the conversion:
                # train() / eval() / train(mode); self.seed is a child of self, so a switch on
                # self reaches it; a switch on self.seed alone leaves the wrapper's own flag
                final = {}
                for e in p.events[i_conv:]:
                    mc = method_call(e.data[0]) if e.kind == 'call' else None
                    if mc and mc[1] in ('train', 'eval'):
                        recv = show(mc[0])
                        if mc[1] == 'eval':
                            mode = ('const', False)
                        else:
                            mode = mc[2][0] if mc[2] else arg(e.data[0], None, 'mode') or \
                                ('const', True)
                        final[recv] = mode

                def good(mode):
                    if mode == flag or mode == ('attr', model, 'training') and False:
                        return True
                    if mode[0] == 'const' and pol in ([True], [False]):
                        return mode[1] is pol[0]
                    return False
                ok = 'self' in final and good(final['self']) and \
                    all(good(mv) for r, mv in final.items() if r in ('self', 'self.seed'))
                msg = (f'ends with {sorted((r, show(mv)) for r, mv in final.items())} under '
                       f'{cap_attr}={pol}')
            lblp = f'path {k}'
            ctx.ob('R07b', f'{wname}.__init__ restores the training mode [{lblp}]', ok,
                   msg if ok else
                   f'{wname}.__init__ does not restore the mode it found on this path ({msg}): '
                   f'the conversion forces eval() on the model', where(init))


def r07c(ctx):
    repo = ctx.repo
    E = Effects(repo)
    for wname in ('PIT', 'SuperNet', 'MPS'):
        w = repo.cls(wname)
        init = w.methods['__init__']
        if wname == 'MPS':
            # MPS converts a copy: only the mode typestate of its internal passes is judged
            for e in E.closure(init):
                if e.kind == 'forward':
                    r07e_ob(ctx, wname, e)
            continue
        model_atom = 'p:' + init.params[1]
        pk = '.'.join(w.module.name.split('.')[:3])
        fam = (pk, 'plinio.graph')
        # names read by the forwards of the family (what the user's model computes with)
        fwd_fns = []
        for c in repo.classes.values():
            if c.module.name.startswith(fam) and 'forward' in c.methods:
                fwd_fns += list(E.reachable(c.methods['forward']).values())
        fwd_fns = [g for g in fwd_fns if g.module.name.startswith(fam)]
        fwd_reads = E.attrs_read(fwd_fns)
        fwd_written: Set[str] = set()
        for c in repo.classes.values():
            if c.module.name.startswith(fam) and 'forward' in c.methods:
                for e in E.closure(c.methods['forward']):
                    if 'self' in e.owners and e.kind == 'setattr':
                        fwd_written.add(e.name)
        effs = [e for e in E.closure(init) if e.owners & {model_atom, 'g:' + model_atom}]
        # ... and what the constructor does, after the conversion, to the objects it keeps
        # (self.seed, the leaf lists): the layers of the seed are the caller's own objects
        # (SuperNet blocks, user-placed PIT layers), so a store on a sub-object of the wrapper
        # (root d:self) is a store on the caller's model too
        setters = {n for c in repo.classes.values() for n in c.setters}
        sub = [e for e in E.closure(init) if any(r.startswith('d:self') for r in e.roots) and
               e.kind in ('setattr', 'setitem', 'update', 'inplace', 'struct') and
               not (e.kind == 'setattr' and e.name.strip("'") in setters)]
        ctx.count(f'R07c:{wname} constructor effects on kept layers', len(sub))
        effs += [e for e in sub if e not in effs]
        ctx.count(f'R07c:{wname} effects on the caller model', len(effs))
        seen = set()
        for e in effs:
            name = e.name.strip("'")
            site = e.fn.qualname.split('plinio.')[-1]
            key = (e.kind, name, site)
            if key in seen:
                continue
            seen.add(key)
            lbl = f'{wname}.__init__ {e.kind} {name} in {site}'
            via = ' > '.join(x.split('.')[-1] for x in e.chain[-3:]) or 'direct'
            if e.kind == 'mode':
                if wname == 'SuperNet':
                    ctx.ob('R07c', lbl, True, 'SuperNet is outside the mode clause of C07 (PIT and '
                           'MPS keep the mode they found)', e.where(), nontrivial=False)
                else:
                    ctx.ob('R07c', lbl, True, 'mode switch restored (R07b)', e.where(),
                           nontrivial=False)
                continue
            if e.kind == 'forward':
                r07e_ob(ctx, wname, e)
                bad = sorted(a for a in fwd_written if not recomputed_before_read(ctx, E, a, fam))
                ctx.ob('R07c', lbl, not bad,
                       'the shape-propagation forward only refreshes state that every forward '
                       'recomputes before reading' if not bad else
                       f'the conversion runs a forward pass that rewrites {bad}, which forward '
                       f'reads without recomputing', e.where())
                continue
            if e.kind == 'inplace':
                ctx.ob('R07c', lbl, False,
                       f'{e.detail[:90]}: in-place write into a tensor of a layer that may belong '
                       f'to the caller\'s model (via {via}) — user-placed searchable layers '
                       f'(autoconvert off) are modified, so the original model no longer computes '
                       f'what it did', e.where())
                continue
            if e.kind == 'struct':
                ok = e.name in ('register_buffer',) and not (set(buffer_names(e)) & fwd_reads)
                ctx.ob('R07c', lbl, ok,
                       'registers bookkeeping buffers that no forward reads' if ok else
                       f'structural edit {e.detail[:80]} on a caller-owned module (via {via})',
                       e.where())
                continue
            if e.kind in ('setattr', 'setitem', 'update'):
                target = name if e.kind == 'setattr' else (attr_of(e.recv) or name)
                is_flag = target == 'requires_grad'
                ok = is_flag or (target not in fwd_reads and target not in ('weight', 'bias',
                                                                          'data'))
                ctx.ob('R07c', lbl, ok,
                       ('trainability flag only' if is_flag else
                        f'{target} is not read by any forward of the method') if ok else
                       f'{site} stores {target} = {e.detail[:70]} on a layer that may belong to the '
                       f'caller\'s model (via {via}); forward reads {target}, so the user\'s model '
                       f'changes behaviour', e.where())


def r07e_ob(ctx, wname: str, e: Effect, rule: str = 'R07e', what: str = '__init__'):
    st, det = forward_mode(ctx, e)
    if st is None:
        return
    site = e.fn.qualname.split('plinio.')[-1]
    ctx.ob(rule, f'{wname}.{what} internal forward pass in {site} runs in eval mode',
           st == 'eval',
           'the layers were switched to eval() and not switched back before the pass: '
           'BatchNorm statistics are not updated' if st == 'eval' else
           f'{det} can put the traced layers back in training mode before the internal forward '
           f'pass at {e.where()}: every BatchNorm reached by the pass updates running_mean / '
           f'running_var / num_batches_tracked with the input example, so the model no longer '
           f'computes what it did', e.where())


def forward_mode(ctx, e: Effect) -> Tuple[Optional[str], str]:
    """Training-mode typestate at an internal forward pass (shape propagation, dummy run): on
    every path of the function that contains the pass, the most recent mode call before it --
    ``x.eval()`` / ``x.train(False)`` give 'eval', ``x.train()`` / ``x.train(flag)`` give
    'train?' -- decides the mode the layers run in.  Returns the worst state over the paths
    (None when the function switches no mode before the pass) and the offending call."""
    worst, detail = None, ''
    seen_fwd = False
    for p in paths(ctx.repo, e.fn):
        state, last = None, ''
        for ev in p.events:
            if ev.kind != 'call':
                continue
            ln = getattr(ev.node, 'lineno', None)
            end = getattr(ev.node, 'end_lineno', ln)
            mc = method_call(ev.data[0])
            if ln is not None and ln <= e.lineno <= (end or ln) and \
                    (mc is None or mc[1] not in ('eval', 'train')) and \
                    (mc is not None and mc[1] in ('propagate', 'forward') or mc is None):
                seen_fwd = True
                if state == 'train?':
                    worst, detail = state, last
                elif state == 'eval' and worst is None:
                    worst = 'eval'
                break
            if mc is not None and mc[1] in ('eval', 'train') and len(mc[2]) <= 1 and not mc[3]:
                if mc[1] == 'eval' or (mc[2] and mc[2][0] == ('const', False)):
                    state = 'eval'
                else:
                    state, last = 'train?', f'{show(ev.data[0])[:70]} at line {ln}'
    if not seen_fwd:
        return None, ''
    return worst, detail


def attr_of(t: Optional[Term]) -> Optional[str]:
    while t is not None and t[0] in ('sub', 'elem'):
        t = t[1]
    if t is not None and t[0] == 'attr':
        return t[2]
    return None


def buffer_names(e: Effect) -> List[str]:
    return ['feat_calc']


def recomputed_before_read(ctx, E: Effects, attr: str, fam) -> bool:
    """In every forward of the family that reads ``self.<attr>``, a store to it (possibly
    through a called method of the same object) precedes the first read."""
    repo = ctx.repo
    for c in repo.classes.values():
        f = c.methods.get('forward')
        if f is None or not c.module.name.startswith(fam):
            continue
        at = ('attr', SELF, attr)
        for p in returning(paths(repo, f)):
            first_read = None
            first_write = None
            for i, e in enumerate(p.events):
                terms = [d for d in e.data if isinstance(d, tuple)]
                if first_read is None and any(mentions(t, lambda x: x == at) for t in terms) and \
                        not (e.kind == 'setattr' and e.data[1] == attr and
                             not mentions(e.data[2], lambda x: x == at)):
                    first_read = i
                if first_write is None:
                    if e.kind == 'setattr' and e.data[0] == SELF and e.data[1] == attr:
                        first_write = i
                    if e.kind == 'call' and method_call(e.data[0]) and \
                            method_call(e.data[0])[0] == SELF:
                        cands = E.resolve(e.data[0], p, f, e)
                        # through a may-alias set (function-valued attribute) the write must
                        # happen whichever alias is installed
                        if cands and all(any(x.kind == 'setattr' and x.name == attr and
                                             'self' in x.owners for x in E.closure(cf))
                                         for cf, _ in cands):
                            first_write = i
            if first_read is None and p.retval is not None and \
                    mentions(p.retval, lambda x: x == at):
                first_read = len(p.events)
            if first_read is not None and (first_write is None or first_write > first_read):
                return False
            # ... and the recomputed value must be what the forward leaves behind: a later
            # store of the attribute's own (saved) value puts a previous sample back, so the
            # state that cost / summary read afterwards is not a function of the parameters
            if first_write is not None:
                for e in p.events[first_write + 1:]:
                    if e.kind == 'setattr' and e.data[0] == SELF and e.data[1] == attr and \
                            e.data[2] == at:
                        return False
    return True


def r07d(ctx):
    repo = ctx.repo
    blocks = [('PIT', repo.fn('remove_bn_inplace')), ('MPS', repo.fn('fuse_bn_inplace'))]
    forms = {}
    for name, fn in blocks:
        lin, bn = ('param', fn.params[0]), ('param', fn.params[1])
        got = {}
        for p in returning(paths(repo, fn)):
            # the fully-defaulted path: bias, bn weight and bn bias all present
            if any(v for a, v in p.assumptions if a[0] == 'isnone') or \
                    any(a == ('param', 'fold') and v is False for a, v in p.assumptions):
                continue
            for e in p.calls():
                mc = method_call(e.data[0])
                if mc and mc[1] == 'copy_' and mc[0][0] == 'attr' and mc[0][1] == lin:
                    got[mc[0][2]] = canon_torch(mc[2][0])
        if set(got) != {'weight', 'bias'}:
            raise AnalysisError(f'{fn.qualname}: folded weight/bias stores not found')
        forms[name] = (fn, lin, bn, got)
    for name, (fn, lin, bn, got) in forms.items():
        rv = ('attr', bn, 'running_var')
        rm = ('attr', bn, 'running_mean')
        g, b = ('attr', bn, 'weight'), ('attr', bn, 'bias')
        w, cb = ('attr', lin, 'weight'), ('attr', lin, 'bias')
        rs = ('call', ('global', 'torch.rsqrt'), (('bin', '+', rv, ('attr', bn, 'eps')),), ())
        want_b = ('bin', '+', ('bin', '*', ('bin', '*', ('bin', '-', cb, rm), rs), g), b)
        okb = poly.equal(got['bias'], want_b)
        ctx.ob('R07d', f'{name} BatchNorm folding: bias', okb,
               '(b - mean) * rsqrt(var + eps) * gamma + beta' if okb else
               f'folded bias is {short(got["bias"], 200)}, expected (b - running_mean) * '
               f'rsqrt(running_var + eps) * weight + bias', where(fn))
        # weight: w * (gamma * rsqrt(var+eps)).reshape([-1, 1, ...])
        wt = got['weight']
        okw = wt[0] == 'bin' and wt[1] == '*' and w in (wt[2], wt[3])
        if okw:
            fac = wt[3] if wt[2] == w else wt[2]
            mc = method_call(fac)
            if is_call(fac, 'torch.reshape') and len(fac[2]) >= 2:
                base, shape = fac[2][0], fac[2][1:]
            elif mc is not None and mc[1] in ('reshape', 'view'):
                base, shape = mc[0], mc[2]
            else:
                base, shape = None, ()
            okw = base is not None and poly.equal(base, ('bin', '*', g, rs)) and \
                mentions(shape, lambda x: x == ('const', -1))
        ctx.ob('R07d', f'{name} BatchNorm folding: weight', okw,
               'w * (gamma * rsqrt(var + eps)) broadcast on the output-channel axis' if okw else
               f'folded weight is {short(wt, 200)}', where(fn))
    # every configuration of optional terms: a layer without bias folds a zero bias, a
    # BatchNorm without affine terms has gamma = 1 and beta = 0
    def neutral(t):
        if isinstance(t, tuple):
            t = tuple(neutral(x) for x in t)
            c = callee(t) if t and t[0] == 'call' else None
            if c == 'torch.zeros_like':
                return ('const', 0)
            if c == 'torch.ones_like':
                return ('const', 1)
            if c in ('torch.nn.Parameter', 'torch.nn.parameter.Parameter') and t[2]:
                return t[2][0]
        return t
    for name, (fn, lin, bn, _got) in forms.items():
        rv, rm = ('attr', bn, 'running_var'), ('attr', bn, 'running_mean')
        g, b, cb = ('attr', bn, 'weight'), ('attr', bn, 'bias'), ('attr', lin, 'bias')
        rs = ('call', ('global', 'torch.rsqrt'), (('bin', '+', rv, ('attr', bn, 'eps')),), ())
        seen_worlds = set()
        for p in returning(paths(repo, fn)):
            if any(a == ('param', 'fold') and v is False for a, v in p.assumptions):
                continue
            # (branch decisions are read from the events: a later store to lin.bias drops the
            # assumption about it from the path state)
            decided = [(e.data[0], e.data[1]) for e in p.events if e.kind == 'assume']
            none = {x: any(a == ('isnone', x) and v for a, v in decided) for x in (cb, g, b)}
            stored = None
            for e in p.events:
                if e.kind == 'call':
                    mc = method_call(e.data[0])
                    if mc and mc[1] == 'copy_' and mc[0] == cb:
                        stored = mc[2][0]
                if e.kind == 'setattr' and e.data[0] == lin and e.data[1] == 'bias':
                    stored = e.data[2]
            if stored is None:
                continue
            world = (none[cb], none[g], none[b])
            if world in seen_worlds or world == (False, False, False):
                continue
            seen_worlds.add(world)
            sub = {}
            if none[cb]:
                sub[cb] = ('const', 0)
            if none[g]:
                sub[g] = ('const', 1)
            if none[b]:
                sub[b] = ('const', 0)
            want = ('bin', '+', ('bin', '*', ('bin', '*', ('bin', '-', cb, rm), rs), g), b)
            got_b = canon_torch(neutral(stored))
            ok = poly.equal(got_b, want, sub)
            lbl = ', '.join(n for n, k in (('no layer bias', cb), ('no BN weight', g),
                                           ('no BN bias', b)) if none[k])
            ctx.ob('R07d', f'{name} BatchNorm folding: bias [{lbl}]', ok,
                   'the folding formula with the neutral value of the missing term' if ok else
                   f'with {lbl} the folded bias is {short(got_b, 160)}, expected (b - mean) * '
                   f'rsqrt(var + eps) * gamma + beta with the missing term neutral (b = 0, '
                   f'gamma = 1, beta = 0): the imported layer does not compute layer + BatchNorm',
                   where(fn))
    a, b = forms['PIT'], forms['MPS']

    def ren(t, lin, bn):
        return poly.substitute(t, {lin: ('sym', 'lin'), bn: ('sym', 'bn')})
    same = ren(a[3]['weight'], a[1], a[2]) == ren(b[3]['weight'], b[1], b[2]) and \
        poly.equal(ren(a[3]['bias'], a[1], a[2]), ren(b[3]['bias'], b[1], b[2]))
    ctx.ob('R07d', 'PIT and MPS folding blocks agree', same,
           'the two declared duplicates compute the same folded weight and bias' if same else
           'remove_bn_inplace (PIT) and fuse_bn_inplace (MPS) fold differently', where(a[0]))
    # PIT keeps a deep copy of the BatchNorm inside the layer
    fn = a[0]
    ok = any(e.kind == 'setattr' and e.data[0] == ('param', fn.params[0]) and e.data[1] == 'bn' and
             is_call(e.data[2], 'copy.deepcopy') and e.data[2][2] == (('param', fn.params[1]),)
             for p in returning(paths(repo, fn)) for e in p.events)
    ctx.ob('R07d', 'remove_bn_inplace keeps a deep copy of the BatchNorm', ok,
           'lin.bn = copy.deepcopy(bn)' if ok else
           'the fused BatchNorm is not deep-copied into the layer (it would be shared with the '
           'caller\'s model)', where(fn))


def r07f(ctx):
    """In-place fusion is applied once per pair of layers, not once per call site: the loop of
    fuse_consecutive_layers ranges over graph nodes, and a layer + BatchNorm invoked at two call
    sites (weight sharing, multi-input forward) is the same pair of modules twice; folding the
    BatchNorm into the weights a second time changes the function.  The in-place call of the
    fusion function must be guarded by a membership test on a collection of already fused
    pairs that the same path updates."""
    repo = ctx.repo
    fn = repo.fn('transformation.fuse_consecutive_layers')
    fparam = ('param', fn.params[3])
    n = 0
    ok_all = True
    bad_node = None
    for p in paths(repo, fn):
        for e in p.calls():
            t = e.data[0]
            if t[1] != fparam or not any(a == ('param', 'in_place') and v
                                         for a, v in p.assumptions):
                continue
            n += 1
            guards = [(a, v) for a, v in path_guards(p, e)
                      if a[0] == 'cmp' and a[1] in ('in', 'not in')]
            ok = False
            for a, v in guards:
                absent = (a[1] == 'not in') == v
                cont = a[3]
                updated = any(
                    (ev.kind == 'call' and method_call(ev.data[0]) is not None and
                     method_call(ev.data[0])[0] == cont and
                     method_call(ev.data[0])[1] in ('add', 'append', 'update', 'setdefault')) or
                    (ev.kind == 'setitem' and ev.data[0] == cont) for ev in p.events)
                if absent and updated:
                    ok = True
            if not ok:
                ok_all, bad_node = False, e.node
    if n == 0:
        raise AnalysisError('R07f: in-place call of the fusion function not found')
    ctx.ob('R07f', 'fuse_consecutive_layers fuses each pair of layers once', ok_all,
           'guarded by "pair not yet fused", the collection updated on the same path' if ok_all
           else 'the fusion function is called for every call site of the pair: a layer followed '
           'by a BatchNorm that is invoked twice in forward (weight sharing) is folded twice '
           '(fold_bn=True), so the wrapped model no longer computes the original function',
           where(fn, bad_node) if bad_node is not None else where(fn))


def r07g(ctx):
    """R07f on a world: fuse_consecutive_layers is interpreted (finite interpreter) on an fx graph
    in which one (layer, BatchNorm) pair of modules is invoked at two call sites -- same targets,
    different node names, as fx produces for weight sharing -- next to a pair invoked once; the
    in-place fusion function must be called exactly once per pair of MODULES."""
    from ..mini import Mini, Obj, Raised, Token, Unsupported
    repo = ctx.repo
    fn = repo.fn('transformation.fuse_consecutive_layers')
    NODE, FIRST, SECOND = Token('cls:Node'), Token('cls:First'), Token('cls:Second')

    def mk_mod(cls):
        o = Obj('Module')
        o.attrs['_cls'] = cls
        return o
    mods = {'enc': mk_mod(FIRST), 'enc_bn': mk_mod(SECOND), 'head': mk_mod(FIRST),
            'head_bn': mk_mod(SECOND)}

    def mk_node(name, op, target, args):
        o = Obj('Node')
        o.attrs.update({'name': name, 'op': op, 'target': target, 'args': args, '_cls': NODE,
                        'users': {}, 'meta': {}})
        for a in args:
            if isinstance(a, Obj):
                a.attrs['users'][id(o)] = o
        return o
    x1 = mk_node('a', 'placeholder', 'a', ())
    x2 = mk_node('b', 'placeholder', 'b', ())
    c1 = mk_node('enc', 'call_module', 'enc', (x1,))
    b1 = mk_node('enc_bn', 'call_module', 'enc_bn', (c1,))
    c2 = mk_node('enc_1', 'call_module', 'enc', (x2,))
    b2 = mk_node('enc_bn_1', 'call_module', 'enc_bn', (c2,))
    h = mk_node('head', 'call_module', 'head', (b1,))
    hb = mk_node('head_bn', 'call_module', 'head_bn', (h,))
    out = mk_node('output', 'output', 'output', ((hb, b2),))
    nodes = [x1, x2, c1, b1, c2, b2, h, hb, out]
    calls = []

    class _F(Mini):
        def expr(self, e, env):
            if isinstance(e, ast.Attribute):
                o = self.expr(e.value, env)
                if isinstance(o, Obj):
                    return o.attrs[e.attr] if e.attr in o.attrs else ('boundmethod', o, e.attr)
                return ('boundmethod', o, e.attr)
            return super().expr(e, env)

        def builtin(self, name, args, kwargs, node_):
            if name == 'isinstance':
                cs = args[1] if isinstance(args[1], tuple) and not (
                    len(args[1]) == 3 and args[1][0] == 'boundmethod') else (args[1],)
                return isinstance(args[0], Obj) and args[0].attrs.get('_cls') in cs
            if name == 'dict':
                return dict(args[0]) if args else {}
            if name == 'id':
                return id(args[0])
            return super().builtin(name, args, kwargs, node_)

        def method(self, o, name, args, kwargs, node_):
            if isinstance(o, Obj) and o.cls_name == 'GraphModule':
                if name == 'named_modules':
                    return list(mods.items())
                if name in ('delete_all_unused_submodules', 'recompile'):
                    return None
            if isinstance(o, Obj) and o.cls_name == 'Graph' and name in ('erase_node', 'lint'):
                return None
            if isinstance(o, Obj) and o.cls_name == 'Node' and name in (
                    'replace_all_uses_with', 'replace_input_with'):
                return None
            return super().method(o, name, args, kwargs, node_)
    graph = Obj('Graph')
    graph.attrs['nodes'] = nodes
    mod = Obj('GraphModule')
    mod.attrs['graph'] = graph
    fxp = Obj('pkg')
    fxp.attrs['Node'] = NODE
    nnp = Obj('pkg')
    nnp.attrs['Module'] = Token('cls:Module')
    fusion = Token('fusion_fn', lambda a, b: calls.append((a, b)))
    glob = {'fx': fxp, 'nn': nnp,
            'replace_node_module': Token('replace_node_module', lambda *a: None)}
    try:
        _F(glob).call_function(fn.node, [mod, FIRST, SECOND, fusion], {'in_place': True})
    except (Unsupported, Raised) as ex:
        raise AnalysisError(f'R07g: fuse_consecutive_layers is outside the interpreted subset: '
                            f'{ex}')
    per_pair = {}
    for a, b in calls:
        k = (next(n_ for n_, m in mods.items() if m is a), next(n_ for n_, m in mods.items()
                                                              if m is b))
        per_pair[k] = per_pair.get(k, 0) + 1
    want = {('enc', 'enc_bn'): 1, ('head', 'head_bn'): 1}
    ok = per_pair == want
    ctx.ob('R07g', 'fusion applied once per pair of modules (weight sharing world)', ok,
           'enc+enc_bn (two call sites) and head+head_bn (one) are each fused once' if ok else
           f'the in-place fusion function is called {per_pair}: a layer + BatchNorm pair invoked '
           f'at two call sites (fx gives the call sites different node names but the same '
           f'target) is folded more than once with fold_bn=True, so the converted model no '
           f'longer computes the original function', where(fn))


def run(ctx):
    r07f(ctx)
    r07g(ctx)
    r07a(ctx)
    r07b(ctx)
    r07c(ctx)
    r07d(ctx)
    ctx.assume('torch.fx sharing axiom; a layer installed by add_submodule during the same '
               'conversion is fresh, a user-placed searchable layer is caller-owned (the '
               'analysis does not separate the two: effects are reported for the caller-owned '
               'case)')


MANIFEST = {
    'text': 'For every network: each replacement constructor forwards the replaced layer\'s '
            'hyper-parameters slot by slot and copies weight/bias under the right predicate; PIT '
            'and MPS restore the mode they found on every path; every write of PIT/SuperNet '
            'construction that can reach the caller\'s model is enumerated and classified '
            '(names forward reads, parameters, buffers); the two BatchNorm folding blocks equal '
            'the folding formula and each other. Numerical equality of wrapped and original '
            'outputs is not computed. The constructor\'s own stores on the layers it keeps (the caller\'s objects for SuperNet blocks / user-placed PIT layers) are classified like the conversion\'s.',
    'note': 'Known finding: with user-placed PIT layers (autoconvert off) the in-place BatchNorm '
            'fuse/fold modifies caller-owned layers.',
    'technique': 'constructor slot agreement + must-pass-through of mode restore + '
                 'interprocedural effect/ownership analysis + polynomial normal form',
}
