"""C03 — SuperNet export keeps exactly the arg-max branch of every choice block.

 R03a winner source: the branch kept flows from ``best_layer_index()`` of the combiner that
      the node itself designates, which is the arg-max of the raw alpha.
 R03b exact branch identification: the node that replaces the combiner is identified either
      positionally (i-th element of the combiner's argument list, whose order is the branch
      order by construction of SuperNetModule.forward) or by an exact equality on the full
      target path; a substring test on ``str(node.target)`` is ambiguous (nested blocks,
      >= 11 branches) and is refuted.
 R03c producer kinds: the identification does not depend on the op kind of the producer
      (module / function / method).
 R03h tracer coverage: SuperNetTracer.is_leaf_module, interpreted on small module trees, never
      makes a module that (transitively) contains a choice block a leaf.
 R03g class coverage: the test by which export recognises combiner nodes accepts every
      combiner class the library instantiates (an exact-type test skips subclasses).
 R03d erase-all-losers: every other input of the combiner is erased, the combiner node is
      erased, and dead-code elimination and unused-sub-module deletion run on every path.
"""
from __future__ import annotations

from typing import List, Optional

from ..model import AnalysisError
from ..sellib import argmax_source, strip_scalar
from ..sym import NONE, Term, mentions, show, subterms
from ..util import (SELF, arg, callee, guards_of, is_call, method_call, paths, prior_assumes, returning, short,
                    where)

EXPLANATION = ('Def-use analysis of the graph surgery in export_graph: provenance of the node '
               'that replaces each combiner (positional vs name-based identification), of the '
               'winner index, of the erased set, and must-pass-through of the clean-up calls; '
               'plus the premise that SuperNetModule.forward hands the branch outputs to the '
               'combiner in branch order. Output equality under hard selection is not decided.')
RULE_TEXT = ('obligation = one clause about the combiner case of export_graph (per path) or about '
             'SuperNetModule.forward / best_layer_index')


def _not_winner(a, v, el, winner) -> bool:
    if a in (('cmp', 'is', el, winner), ('cmp', '==', el, winner)) and v is False:
        return True
    return False


def r03h(ctx):
    """Export can only replace combiners that appear as call_module nodes: the tracer must look
    inside every module that (transitively) contains a choice block.  SuperNetTracer.
    is_leaf_module is interpreted (finite interpreter) on small module trees: a container
    holding a choice block directly, two levels down, or inside a user-defined block, and the
    choice block itself, must not be leaves; a combiner must be one."""
    import ast as _ast
    from ..mini import Mini, Obj, Raised, Token, Unsupported
    repo = ctx.repo
    tr = repo.cls('SuperNetTracer')
    fn = tr.methods.get('is_leaf_module')
    if fn is None:
        raise AnalysisError('R03h: SuperNetTracer.is_leaf_module not found')
    K = {n: Token('cls:' + n) for n in ('Module', 'Sequential', 'ModuleList', 'Conv2d',
                                        'SuperNetCombiner', 'SuperNetModule', 'UserBlock')}

    def mk(cls, module, children=(), mro=()):
        o = Obj('Module')
        o.attrs.update({'_cls': K[cls], '_mro': [K[cls]] + [K[x] for x in mro] + [K['Module']],
                        '__module__': module, '_children': list(children)})
        return o

    class _T(Mini):
        def expr(self, e, env):
            if isinstance(e, _ast.Attribute):
                o = self.expr(e.value, env)
                if isinstance(o, Obj) and e.attr not in o.attrs:
                    return ('boundmethod', o, e.attr)
                if isinstance(o, Obj):
                    return o.attrs[e.attr]
                return ('boundmethod', o, e.attr)
            return super().expr(e, env)

        def builtin(self, name, args, kwargs, node):
            if name == 'isinstance':
                o, c = args
                cs = c if isinstance(c, tuple) and not (len(c) == 3 and c[0] == 'boundmethod') \
                    else (c,)
                return isinstance(o, Obj) and any(x in o.attrs.get('_mro', ()) for x in cs)
            if name == 'type':
                return args[0].attrs['_cls']
            if name == 'str':
                return args[0] if isinstance(args[0], str) else repr(args[0])
            return super().builtin(name, args, kwargs, node)

        def method(self, o, name, args, kwargs, node):
            if isinstance(o, Obj) and '_children' in o.attrs:
                def rec(x):
                    out = [x]
                    for c in x.attrs['_children']:
                        out += rec(c)
                    return out
                if name == 'children':
                    return list(o.attrs['_children'])
                if name == 'modules':
                    return rec(o)
                if name == 'named_children':
                    return [(str(i), c) for i, c in enumerate(o.attrs['_children'])]
                if name == 'named_modules':
                    return [(str(i), c) for i, c in enumerate(rec(o))]
            if isinstance(o, str) and name in ('startswith', 'endswith', 'split', 'find'):
                return getattr(o, name)(*args)
            return super().method(o, name, args, kwargs, node)
    nnpkg = Obj('pkg')
    nnpkg.attrs.update({k: v for k, v in K.items()})
    torchpkg = Obj('pkg')
    torchpkg.attrs.update({'nn': nnpkg})
    glob = {'torch': torchpkg, 'nn': nnpkg, 'SuperNetCombiner': K['SuperNetCombiner'],
            'SuperNetModule': K['SuperNetModule'], 'fx': Obj('pkg')}
    conv = lambda: mk('Conv2d', 'torch.nn.modules.conv')                     # noqa: E731
    comb = lambda: mk('SuperNetCombiner', 'plinio.methods.supernet.nn.combiner')   # noqa: E731

    def choice():
        br = mk('ModuleList', 'torch.nn.modules.container', [conv(), conv()])
        return mk('SuperNetModule', 'plinio.methods.supernet.nn.module', [br, comb()])
    seq = lambda ch: mk('Sequential', 'torch.nn.modules.container', ch)      # noqa: E731
    user = lambda ch: mk('UserBlock', '__main__', ch)                        # noqa: E731
    worlds = [
        ('a combiner', comb(), 'blk.sn_combiner', True),
        ('a choice block', choice(), 'blk', False),
        ('nn.Sequential holding a choice block', seq([choice(), conv()]), 'features', False),
        ('nn.Sequential holding a choice block two levels down',
         seq([seq([choice(), conv()]), conv()]), 'features', False),
        ('nn.Sequential holding a user block with a choice block',
         seq([user([choice()]), conv()]), 'features', False),
        ('a user block holding a choice block', user([choice()]), 'stage', False),
    ]
    n = 0
    for label, obj, name, want in worlds:
        try:
            got = _T(glob).call_function(fn.node, [Obj('Tracer'), obj, name])
        except (Unsupported, Raised) as ex:
            raise AnalysisError(f'R03h: is_leaf_module is outside the interpreted subset: {ex}')
        n += 1
        ok = bool(got) is want
        ctx.ob('R03h', f'tracer on {label}', ok,
               ('leaf' if want else 'traced through') if ok else
               f'SuperNetTracer.is_leaf_module returns {bool(got)} for {label}'
               + (': the module becomes one opaque call_module node, the combiner inside it '
                  'never appears in the graph, and export() returns the whole choice block with '
                  'all its alternatives (cost, summary and option updates skip it too)'
                  if not want else ': the combiner is traced through instead of kept as the '
                  'node export replaces'), where(fn))
    ctx.floor('R03h', 'module-tree worlds', n, 6)


def r03i(ctx):
    """'The SuperNet evaluated with hard selection' is a function of alpha: every forward of the
    combiner re-samples its coefficients (self.sample_alpha()) before it weights the branch
    outputs, on every path and under no condition -- otherwise the evaluated mix is whatever an
    earlier call left behind while export takes the arg-max of the current alpha."""
    repo = ctx.repo
    comb = repo.cls('SuperNetCombiner')
    fwd = comb.methods['forward']
    n = 0
    for p in returning(paths(repo, fwd)):
        if any(e.kind == 'loop0' for e in p.events):
            continue
        n += 1
        i_s = next((i for i, e in enumerate(p.events) if e.kind == 'call' and
                    method_call(e.data[0]) and method_call(e.data[0])[0] == SELF and
                    method_call(e.data[0])[1] == 'sample_alpha'), None)
        cond = []
        if i_s is not None:
            cond = [(a, v) for a, v in prior_assumes(p, p.events[i_s])]
        reads = mentions(p.retval, lambda y: y == ('attr', SELF, 'theta_alpha')) \
            if p.retval is not None else False
        ok = (i_s is not None and not cond) or not reads
        ctx.ob('R03i', 'SuperNetCombiner.forward re-samples on every call', ok,
               'sample_alpha() runs unconditionally before the outputs are weighted' if ok else
               (f'the coefficients are re-sampled only when '
                f'{[(short(a, 50), v) for a, v in cond][:2]}' if i_s is not None else
                'a path weights the outputs without calling sample_alpha()') +
               ': on the other calls forward uses the coefficients of an earlier sample (stale '
               'after the coefficients, the temperature or the hard flag changed), so the '
               'evaluated SuperNet is not the one export materialises', where(fwd))
    ctx.floor('R03i', 'forward paths', n, 1)


def exact_type_predicate(repo, fn) -> bool:
    """The predicate compares the concrete type (``type(x) in classes`` / ``==``) rather than
    testing isinstance / issubclass."""
    rets = [p.retval for p in returning(paths(repo, fn)) if p.retval is not None]
    member = any(mentions(r, lambda y: y[0] == 'cmp' and y[1] in ('in', '==', 'is')) for r in rets)
    inst = any(mentions(r, lambda y: is_call(y, 'builtins.isinstance', 'builtins.issubclass'))
               for r in rets)
    return member and not inst


def instantiated_subclasses(repo, base):
    """Strict subclasses of ``base`` that some function of the library constructs."""
    import ast as _ast
    subs = {c.qualname: c for c in repo.subclasses(base, strict=True)}
    out = []
    if not subs:
        return out
    for fn in repo.all_functions():
        for n in _ast.walk(fn.node):
            if isinstance(n, _ast.Call):
                q = repo.resolve_expr_name(fn.module, n.func)
                q = repo.canonical(q) if q else None
                if q in subs and subs[q] not in out:
                    out.append(subs[q])
    return out


def r03j(ctx):
    """Every export starts from the SuperNet itself: the surgery consumes a graph made for this
    export (a fresh trace or a copy).  A GraphModule that adopts the seed's own fx graph lets
    the first export erase the losing branches *of the SuperNet*: every later export returns
    the first winners whatever the coefficients are (shared with C18 R18b)."""
    from ..effects import Effects
    repo = ctx.repo
    E = Effects(repo)
    f = repo.cls('SuperNet').methods['export']
    effs = [e for e in E.closure(f) if e.kind == 'struct' and
            e.owners & {'self', 'g:self', 'unknown', 'global'}]
    ctx.ob('R03j', 'SuperNet.export rewrites a graph of its own', not effs,
           'graph surgery runs on a fresh trace / copy: the SuperNet keeps every branch' if
           not effs else
           '; '.join(f'{e.name} at {e.where()} ({e.detail[:70]})' for e in effs[:3]) +
           ': the surgery edits the graph the SuperNet itself runs on, so a second export (after '
           'the coefficients changed) no longer finds the branches and returns the first winners',
           where(f))


def run(ctx):
    r03j(ctx)
    # premise of 'export equals the SuperNet under hard selection': asking for hard selection
    # switches every combiner (shared with C11)
    from .c11 import options_reach_every_layer
    options_reach_every_layer(ctx, 'R03f', only=('SuperNet',))
    # ... each option whenever it is given, whatever else is given in the same call (every
    # store of update_softmax_options is decided by its own option only: C11's rule)
    from . import c11
    before = len(ctx.obligations)
    c11.r11c(ctx)
    for o in ctx.obligations[before:]:
        if 'SuperNet' in o.construct:
            o.rule = 'R03f'
    ctx.obligations[before:] = [o for o in ctx.obligations[before:] if o.rule == 'R03f']
    r03h(ctx)
    r03i(ctx)
    repo = ctx.repo
    eg = repo.fn('supernet.graph.export_graph')
    comb = repo.cls('SuperNetCombiner')
    # helpers extracted from the surgery (e.g. one function per combiner) are inlined
    rets = returning(paths(repo, eg, keep=('is_layer', 'is_inherited_layer', 'is_function')))
    # paths that handle a combiner node
    handled = 0
    for p in rets:
        repl = [e for e in p.calls() if method_call(e.data[0]) and
                method_call(e.data[0])[1] == 'replace_all_uses_with']
        if not repl:
            continue
        handled += 1
        full = sum(1 for e in p.events if e.kind == 'loopend') >= 2
        for e in repl:
            node = method_call(e.data[0])[0]
            x = method_call(e.data[0])[2][0]
            guards = prior_assumes(p, e)
            # the replaced node is a combiner (guard): is_layer(n, ..) or isinstance(module, ..)
            is_comb = any(is_call(a, 'is_layer', 'builtins.isinstance', 'is_inherited_layer')
                          and v and mentions(a, lambda y: y == ('global', comb.qualname))
                          for a, v in guards)
            # every call site is visited: the loop ranges over the graph nodes / the
            # per-call-site leaf list, not over a list de-duplicated by module name
            loops = [c for c in e.ctx if c[0] == 'loop' and c[2] is not None]
            dom = loops[0][2] if loops else None
            dedup = dom is not None and (mentions(dom, lambda y: y[0] == 'call' and (
                (callee(y) or '').endswith('uniquify_leaf_modules') or
                is_call(y, 'builtins.set', 'builtins.dict', 'builtins.frozenset',
                        'dict.fromkeys'))) or
                # a dictionary / set comprehension keyed by the module keeps one node per module
                mentions(dom, lambda y: y[0] == 'comp' and y[1] in ('dict', 'set')))
            all_sites = dom is not None and not dedup and (
                mentions(dom, lambda y: y[0] == 'attr' and y[2] == 'nodes') or
                mentions(dom, lambda y: y[0] == 'call' and
                         (callee(y) or '').endswith('named_leaf_modules')))
            ctx.ob('R03e', 'export_graph visits every combiner call site', all_sites,
                   'loop over all graph nodes / call sites' if all_sites else
                   f'combiners are enumerated from {short(dom, 120) if dom else "?"}'
                   f'{", which de-duplicates by module" if dedup else ""}: a choice block invoked '
                   f'twice in forward keeps its combiner and all branches at the second call site',
                   where(eg, e.node))
            # R03g: the guard recognises every combiner class the library instantiates.  An
            # exact-type test (is_layer: ``type(module) in layers``) skips instances of a
            # subclass that every isinstance test elsewhere (tracer, cost, options) accepts
            for a, v in guards:
                if not (v and mentions(a, lambda y: y == ('global', comb.qualname))):
                    continue
                if is_call(a, 'is_layer'):
                    named = {y[1] for y in subterms(a) if y[0] == 'global' and
                             y[1] in repo.classes}
                    exact = exact_type_predicate(repo, repo.fn('inspection.is_layer'))
                    missed = [c.name for c in instantiated_subclasses(repo, comb)
                              if c.qualname not in named] if exact else []
                    ctx.ob('R03g', 'export_graph recognises every combiner class', not missed,
                           'every instantiated combiner class is named in the exact-type test'
                           if not missed else
                           f'{missed} (a subclass of SuperNetCombiner that the library '
                           f'instantiates) is not recognised by the exact-type test '
                           f'{short(a, 80)}: the tracer, the cost and the option setters treat it '
                           f'as a combiner (isinstance), export skips it and returns the whole '
                           f'choice block with all its branches', where(eg, e.node))
                elif is_call(a, 'builtins.isinstance', 'is_inherited_layer'):
                    ctx.ob('R03g', 'export_graph recognises every combiner class', True,
                           'subclass-aware test', where(eg, e.node), nontrivial=False)
            ctx.ob('R03d', 'export_graph replaces combiner nodes only', is_comb,
                   'guarded by is_layer(n, mod, (SuperNetCombiner,))' if is_comb else
                   'replace_all_uses_with is not guarded by the combiner test', where(eg, e.node),
                   nontrivial=False)
            # R03a/b/c
            substring = [a for a, v in guards if a[0] == 'cmp' and a[1] == 'in' and
                         mentions(a[3], lambda y: is_call(y, 'builtins.str'))]
            positional = x[0] == 'sub' and mentions(
                x[1], lambda y: y == ('sub', ('attr', node, 'args'), ('const', 0)))
            exact = [a for a, v in guards if a[0] == 'cmp' and a[1] == '==' and v and
                     mentions(a, lambda y: is_call(y, 'builtins.str'))]
            if positional:
                idx = strip_scalar(x[2])
                mc = method_call(idx)
                ok_idx = mc is not None and mc[1] == 'best_layer_index' and (
                    (method_call(mc[0]) is not None and
                     method_call(mc[0])[1] == 'get_submodule' and
                     mentions(mc[0], lambda y: y == ('attr', node, 'target'))) or
                    # (name, node, module) triple of named_leaf_modules: module of that node
                    (mc[0][0] == 'sub' and mc[0][2] == ('const', 2) and node[0] == 'sub' and
                     node[2] == ('const', 1) and node[1] == mc[0][1]))
                ctx.ob('R03a', 'export_graph winner index', ok_idx,
                       'index = best_layer_index() of the combiner designated by the node' if ok_idx
                       else f'the kept branch is selected with {short(x[2], 120)}: expected '
                       f'best_layer_index() of the combiner at n.target', where(eg, e.node))
                ctx.ob('R03b', 'export_graph branch identification', True,
                       'positional: i-th element of the combiner\'s argument list',
                       where(eg, e.node))
                ctx.ob('R03c', 'export_graph producer kinds', True,
                       'independent of the op kind of the branch output', where(eg, e.node))
            elif substring:
                ctx.ob('R03b', 'export_graph branch identification', False,
                       f'the winning branch is recognised by the substring test '
                       f'{short(substring[0], 120)}: ambiguous for nested choice blocks (the inner '
                       f'winner\'s path also contains the outer branch index) and for >= 11 '
                       f'branches ("sn_branches.1" is a prefix of "sn_branches.10")',
                       where(eg, e.node))
                ctx.ob('R03c', 'export_graph producer kinds', False,
                       'the test relies on str(target) of the producer containing a module path: '
                       'a branch ending in a function or method call (torch.relu(...)) is never '
                       'matched and export fails', where(eg, e.node))
            elif exact:
                ctx.ob('R03b', 'export_graph branch identification', True,
                       'exact comparison of the full target path', where(eg, e.node))
                op_dep = any(mentions(a, lambda y: y[0] == 'attr' and y[2] == 'op')
                             for a, _ in guards)
                ctx.ob('R03c', 'export_graph producer kinds', not op_dep,
                       'no dependence on node.op' if not op_dep else
                       'identification restricted to some op kinds', where(eg, e.node))
            else:
                ctx.ob('R03b', 'export_graph branch identification', False,
                       f'the replacing node {short(x, 160)} is neither the i-th combiner argument '
                       f'nor selected by an exact path comparison', where(eg, e.node))
        # R03d: combiner erased, losers erased
        erased = [method_call(e.data[0])[2][0] for e in p.calls()
                  if method_call(e.data[0]) and method_call(e.data[0])[1] == 'erase_node']
        node = method_call(repl[0].data[0])[0]
        ctx.ob('R03d', 'export_graph erases the combiner node', node in erased,
               'combiner node erased' if node in erased else
               'the combiner node is not erased', where(eg), nontrivial=False)
        if full:
            winner = method_call(repl[0].data[0])[2][0]
            losers = [t for t in erased if t != node]
            if any(t[0] == 'elem' and t[1] == ('list', ()) for t in losers):
                continue        # infeasible combination: erase loop entered with an empty list
            if not losers and any(e2.kind == 'loop0' for e2 in p.events):
                continue        # degenerate: a loop over the combiner's inputs ran zero times
            ok = False
            for t in losers:
                # elem of [ni for ni in n.all_input_nodes if ni is not winner]
                if t[0] == 'elem' and t[1][0] == 'comp':
                    compt = t[1]
                    gens = compt[3]
                    if gens and gens[0][1] == ('attr', node, 'all_input_nodes'):
                        conds = gens[0][2]
                        el = compt[2][0]
                        if len(conds) == 1 and conds[0] in (
                                ('cmp', 'is not', el, winner),
                                ('un', 'not', ('cmp', 'is', el, winner)),
                                ('cmp', '!=', el, winner)):
                            ok = True
                if t[0] == 'elem' and t[1] == ('attr', node, 'all_input_nodes'):
                    # direct loop over all inputs, erase guarded by "is not winner"
                    for e2 in p.calls():
                        mc2 = method_call(e2.data[0])
                        if mc2 and mc2[1] == 'erase_node' and mc2[2][0] == t:
                            ok = ok or any(_not_winner(a, v, t, winner)
                                           for a, v in p.assumptions)
                if t[0] == 'elem' and t[1][0] == 'list' and t[1][1]:
                    # list filled by append inside a loop over all inputs, guarded
                    items = t[1][1]
                    if all(i[0] == 'elem' and i[1] == ('attr', node, 'all_input_nodes')
                           for i in items):
                        for e2 in p.calls():
                            mc2 = method_call(e2.data[0])
                            if mc2 and mc2[1] == 'append' and mc2[2][0] in items:
                                # tests made earlier in the same iteration (if/continue form)
                                k2 = p.events.index(e2)
                                prior = [(x.data[0], x.data[1]) for x in p.events[:k2]
                                         if x.kind == 'assume']
                                ok = ok or any(_not_winner(a, v, mc2[2][0], winner)
                                               for a, v in list(p.assumptions) + prior)
            ctx.ob('R03d', 'export_graph erases every losing branch output', ok,
                   'all inputs of the combiner except the winner are erased' if ok else
                   f'the erased set is {[short(t, 100) for t in losers]}: expected every input '
                   f'node of the combiner that is not the winner', where(eg))
    ctx.floor('R03', 'combiner-handling paths', handled, 1)
    # clean-up on every returning path, after the loop
    for name in ('eliminate_dead_code', 'delete_all_unused_submodules'):
        ok = all(any(method_call(e.data[0]) and method_call(e.data[0])[1] == name and
                     not any(c[0] == 'loop' for c in e.ctx) for e in p.calls()) for p in rets)
        ctx.ob('R03d', f'export_graph always calls {name}', ok,
               'post-dominates the node loop' if ok else
               f'{name}() is not called on every path after the loop: losing branches stay in the '
               f'exported network', where(eg))
    # premise of positional identification: SuperNetModule.forward
    sm = repo.cls('SuperNetModule').methods['forward']
    for p in returning(paths(repo, sm)):
        t = p.retval
        ok = t[0] == 'call' and t[1] == ('attr', SELF, 'sn_combiner') and len(t[2]) == 1 and \
            t[2][0][0] == 'comp' and t[2][0][3][0][1] == ('attr', SELF, 'sn_branches') and \
            not t[2][0][3][0][2] and t[2][0][2][0][0] == 'call' and \
            t[2][0][2][0][1][0] == 'elem' and t[2][0][2][0][2] == (('param', sm.params[1]),)
        ctx.ob('R03b', 'SuperNetModule.forward passes branch outputs in branch order', ok,
               'combiner([branch(x) for branch in self.sn_branches])' if ok else
               f'forward is {short(t)}: the i-th combiner input is no longer the output of the '
               f'i-th branch applied to the block input', where(sm))
    # winner = argmax of raw alpha
    b = comb.methods['best_layer_index']
    for p in returning(paths(repo, b)):
        am = argmax_source(p.retval)
        ok = am is not None and am[0] == ('attr', SELF, 'alpha') and am[1] in (None, 0)
        ctx.ob('R03a', 'SuperNetCombiner.best_layer_index', ok,
               'arg-max of the raw alpha' if ok else
               f'winner is {short(p.retval)}, expected the arg-max of self.alpha', where(b))
    # export re-traces and rewrites the copy only when conversion_type == 'export'
    cv = repo.fn('supernet.graph.convert')
    ok = False
    for p in returning(paths(repo, cv)):
        for e in p.calls():
            if callee(e.data[0]) == eg.qualname:
                g = prior_assumes(p, e)
                ok = any(a == ('cmp', '==', ('param', cv.params[2]), ('const', 'export')) and v
                         for a, v in g)
            # dispatch through a table: {'import': f, 'export': export_graph}[conversion_type](mod)
            t1 = e.data[0][1]
            if t1[0] == 'sub' and t1[2] == ('param', cv.params[2]) and t1[1][0] == 'dict' and \
                    (('const', 'export'), ('global', eg.qualname)) in t1[1][1]:
                ok = True
    ctx.ob('R03d', 'convert runs export_graph for conversion_type == "export"', ok,
           'export path reaches export_graph', where(cv), nontrivial=False)
    ctx.assume('torch.fx records the list argument of the combiner call in program order; '
               'eliminate_dead_code / delete_all_unused_submodules remove unreachable nodes and '
               'modules')


MANIFEST = {
    'text': 'For every SuperNet and coefficient value: the node that replaces each combiner is '
            'the i-th element of the combiner\'s argument list with i = best_layer_index() = '
            'arg-max of alpha (exact, independent of names, nesting, branch count and producer '
            'op kind), every other input and the combiner are erased and the clean-up calls '
            'post-dominate the loop. Output equality under hard selection is not decided. Export runs its surgery on a graph of its own (a GraphModule that adopts the SuperNet\'s graph is a structural edit of the SuperNet).',
    'note': 'Trusted: torch.fx argument recording order and clean-up semantics.',
    'technique': 'def-use provenance of graph-surgery operands + must-pass-through of clean-up '
                 'calls',
}
