"""C16 — built-in cost models are finite, non-negative and monotone in layer size.

 R16a sign + monotonicity: every function registered in every CostSpec of plinio.cost is
      interpreted over the interval x monotonicity domain (sa/numdom.py) under
      cin, cout, kernel entries, output resolution, groups >= 1 (real), w bits in [0, 8],
      activation bits in [2, 8], theta in [0, 1]:  result >= 0, no division by a value that
      may be zero, non-decreasing in every size input, non-decreasing in the bit-widths for
      the bit-size / bit-ops / MPIC models, > 0 when w bits >= 2.
 R16b rounding helpers: forward of each straight-through helper is one of the recognised
      exact integer idioms, its plain twin agrees, backward passes the gradient through.
 R16c depthwise = generic per group for the hardware-independent size / operation counts.
 R16d rejection: bit-width-restricted models (MPIC, NE16, DIANA) reject unsupported
      precisions / layer kinds on every path that returns a cost.
"""
from __future__ import annotations

import ast
from typing import Dict, List, Optional, Tuple

from .. import poly
from ..costlib import Registration, cost_specs
from ..model import AnalysisError, ClassInfo, FunctionInfo
from ..numdom import AV, INF, NumError, NumEval, const, join
from ..sym import NONE, Term, mentions, show, subterms
from ..util import (SELF, arg, callee, is_call, method_call, paths, resolve_globals, returning,
                    short, where)

EXPLANATION = ('Abstract interpretation (interval x per-input monotonicity domain, compositional '
               'product/quotient/floor rules, zero-guard lemma, entry-wise check of literal '
               'look-up tables) of every cost function registered in plinio.cost, with helper '
               'functions and straight-through autograd functions inlined; idiom recognition of '
               'the rounding helpers in polynomial normal form; path analysis of the rejection '
               'guards. Covers every real input in the stated ranges at once (including the '
               'fractional channel counts and ragged tile boundaries a grid only samples).')
RULE_TEXT = ('obligation = (cost spec, pattern, clause) for the 48 registrations, (helper, clause) '
             'for the rounding helpers, (formula pair) for depthwise/generic, (model, guard) for '
             'rejection; non-trivial = needed abstract evaluation')

SIZE_INPUTS = ['cin', 'cout', 'k0', 'k1', 'o2', 'o3']
BIT_MONOTONE_SPECS = {'params_bit', 'ops_bit', 'mpic_latency', 'mpic_energy', 'ne16_latency'}
# functions the numeric domain cannot interpret (each with its reason); their sign and
# monotonicity clauses are reported as not decided, the other rules still apply
NOT_INTERPRETED: Dict[str, str] = {}
# cost functions built on a plain performance-model class: evaluated once per kernel shape the
# function accepts (the shapes are asserted by the function itself; a shape it rejects makes
# every returning path infeasible and is skipped) with the only supported activation width
PERF_MODEL_WORLDS = {
    '_ne16_latency_conv2d_generic': [(3.0, 3.0), (1.0, 1.0)],
    '_ne16_latency_conv2d_dw': [(3.0, 3.0), (1.0, 1.0)],
    '_ne16_latency_linear': [(1.0, 1.0)],
}

KEY_INPUT = {'in_channels': 'cin', 'in_features': 'cin', 'out_channels': 'cout',
             'out_features': 'cout', 'groups': 'groups', 'w_precision': 'wbits',
             'in_precision': 'abits', 'a_precision': 'abits', 'w_theta_alpha': 'wtheta'}


def default_ranges(wbits=(0.0, 8.0)) -> Dict[str, Tuple[float, float]]:
    r = {x: (1.0, INF) for x in SIZE_INPUTS + ['groups', 'o0', 'o1']}
    r['wbits'] = wbits
    r['abits'] = (2.0, 8.0)
    r['wtheta'] = (0.0, 1.0)
    return r


class SpecInputs:
    """Maps terms that read the spec dictionary to named inputs."""

    def __init__(self, sp: Term, ranges: Dict[str, Tuple[float, float]]):
        self.sp = sp
        self.ranges = ranges
        self.heap: Dict[Tuple[Term, str], Term] = {}
        self.ne: Optional[NumEval] = None

    def var(self, name: str) -> AV:
        lo, hi = self.ranges[name]
        return AV(lo, hi, {name: 1})

    def __call__(self, t: Term) -> Optional[AV]:
        if t[0] != 'sub':
            return None
        base, idx = t[1], t[2]
        # re-keyed dict built by the caller
        if idx[0] == 'const' and isinstance(idx[1], str) and (base, idx[1]) in self.heap:
            return self.ne.ev(self.heap[(base, idx[1])])
        if base == self.sp and idx[0] == 'const':
            k = idx[1]
            if k in KEY_INPUT:
                return self.var(KEY_INPUT[k])
            if k == 'kernel_size':
                return AV(kind='tuple', elems=[self.var('k0'), self.var('k1')])
            if k == 'output_shape':
                return AV(kind='tuple', elems=[self.var(f'o{i}') for i in range(4)])
            return None
        # spec['output_shape'][2:]
        if base[0] == 'sub' and base[1] == self.sp and base[2] == ('const', 'output_shape') and \
                idx == ('slice', ('const', 2), NONE, NONE):
            return AV(kind='tuple', elems=[self.var('o2'), self.var('o3')])
        return None


def heap_of(ctx, fn: FunctionInfo) -> Dict[Tuple[Term, str], Term]:
    h = {}
    for p in returning(paths(ctx.repo, fn)):
        for e in p.events:
            if e.kind == 'setitem' and e.data[1][0] == 'const' and \
                    isinstance(e.data[1][1], str) and e.data[0][0] == 'dict':
                h[(e.data[0], e.data[1][1])] = e.data[2]
    return h


# -- summaries (verified against the source before being used) -------------------------------
class _Vec(list):
    """A 1-d tensor of the finite interpreter: element-wise arithmetic / comparisons, boolean and
    integer indexing (negative indices wrap, like torch)."""
    def _bin(self, o, f):
        if isinstance(o, _Vec):
            return _Vec(f(a, b) for a, b in zip(self, o))
        return _Vec(f(a, o) for a in self)

    def __mul__(self, o): return self._bin(o, lambda a, b: a * b)
    __rmul__ = __mul__
    def __add__(self, o): return self._bin(o, lambda a, b: a + b)
    __radd__ = __add__
    def __sub__(self, o): return self._bin(o, lambda a, b: a - b)
    def __rsub__(self, o): return self._bin(o, lambda a, b: b - a)
    def __truediv__(self, o): return self._bin(o, lambda a, b: a / b)
    def __floordiv__(self, o): return self._bin(o, lambda a, b: a // b)
    def __le__(self, o): return self._bin(o, lambda a, b: a <= b)
    def __lt__(self, o): return self._bin(o, lambda a, b: a < b)
    def __ge__(self, o): return self._bin(o, lambda a, b: a >= b)
    def __gt__(self, o): return self._bin(o, lambda a, b: a > b)
    def __and__(self, o): return self._bin(o, lambda a, b: bool(a) and bool(b))
    def __or__(self, o): return self._bin(o, lambda a, b: bool(a) or bool(b))
    def __invert__(self): return _Vec(not a for a in self)

    def __getitem__(self, k):
        if isinstance(k, _Vec):
            if all(isinstance(x, bool) for x in k):
                return _Vec(a for a, m in zip(self, k) if m)
            return _Vec(list.__getitem__(self, int(i)) for i in k)
        r = list.__getitem__(self, k)
        return _Vec(r) if isinstance(k, slice) else r


def _unroll_interpreter(ctx, fwd):
    """forward(ctx, *args) of an autograd helper as a Python callable on numbers, through the
    finite interpreter with 1-d tensors as lists."""
    import ast as _ast
    from ..mini import Mini, Obj, Raised, Unsupported

    def scal(x):
        return x

    def clamp(x, min=None, max=None):       # noqa: A002
        def c(v):
            if min is not None and v < min:
                v = min
            if max is not None and v > max:
                v = max
            return v
        return _Vec(c(v) for v in x) if isinstance(x, _Vec) else c(x)
    T = Obj('torch')
    T.attrs.update({
        'as_tensor': lambda x, **kw: _Vec(x) if isinstance(x, (list, tuple)) else x,
        'tensor': lambda x, **kw: _Vec(x) if isinstance(x, (list, tuple)) else x,
        'logical_and': lambda a, b: a & b, 'logical_or': lambda a, b: a | b,
        'logical_not': lambda a: ~a, 'clamp': clamp, 'clip': clamp,
        'sum': lambda a, **kw: sum(int(x) if isinstance(x, bool) else x for x in a),
        'count_nonzero': lambda a, **kw: sum(1 for x in a if x),
        'where': lambda c, a, b: _Vec((x if m else y) for m, x, y in zip(
            c, a if isinstance(a, _Vec) else [a] * len(c), b if isinstance(b, _Vec) else [b] * len(c))),
        'maximum': lambda a, b: a._bin(b, max) if isinstance(a, _Vec) else
        (b._bin(a, max) if isinstance(b, _Vec) else max(a, b)),
        'minimum': lambda a, b: a._bin(b, min) if isinstance(a, _Vec) else
        (b._bin(a, min) if isinstance(b, _Vec) else min(a, b)),
        'any': lambda a: any(a), 'all': lambda a: all(a),
        'float32': 'float32', 'int64': 'int64', 'long': 'int64', 'bool': 'bool',
    })

    class _I(Mini):
        def expr(self, e, env):
            if isinstance(e, _ast.Attribute):
                o = self.expr(e.value, env)
                if isinstance(o, Obj) and e.attr in o.attrs:
                    return o.attrs[e.attr]
                return ('boundmethod', o, e.attr)
            if isinstance(e, _ast.Compare) and len(e.ops) == 1:
                a, b = self.expr(e.left, env), self.expr(e.comparators[0], env)
                if isinstance(a, _Vec) or isinstance(b, _Vec):
                    v, o, flip = (a, b, False) if isinstance(a, _Vec) else (b, a, True)
                    op = type(e.ops[0])
                    tbl = {_ast.LtE: ('__le__', '__ge__'), _ast.Lt: ('__lt__', '__gt__'),
                           _ast.GtE: ('__ge__', '__le__'), _ast.Gt: ('__gt__', '__lt__')}
                    if op in tbl:
                        return getattr(v, tbl[op][1 if flip else 0])(o)
                    if op in (_ast.Eq, _ast.NotEq):
                        r = v._bin(o, lambda x, y: x == y)
                        return r if op is _ast.Eq else ~r
                    raise Unsupported('comparison on a tensor')
                return self.compare(e.ops[0], a, b)
            return super().expr(e, env)

        def method(self, o, name, args, kwargs, node):
            if isinstance(o, _Vec):
                if name == 'sum':
                    return sum(int(x) if isinstance(x, bool) else x for x in o)
                if name in ('any', 'all'):
                    return any(o) if name == 'any' else all(o)
                if name in ('max', 'min') and not args and not kwargs:
                    return max(o) if name == 'max' else min(o)
                if name in ('to', 'float', 'int', 'long', 'clone', 'detach'):
                    return _Vec(o)
                if name == 'nonzero':
                    return _Vec(i for i, x in enumerate(o) if x)
                if name == 'item' and len(o) == 1:
                    return o[0]
            if isinstance(o, (int, float)) and name in ('item', 'float', 'int', 'long', 'to',
                                                        'detach', 'clone'):
                return o
            return super().method(o, name, args, kwargs, node)

        def builtin(self, name, args, kwargs, node):
            if name in ('max', 'min') and all(isinstance(a, (int, float)) for a in args):
                return max(args) if name == 'max' else min(args)
            if name in ('int', 'float') and len(args) == 1 and isinstance(args[0], (int, float)):
                return int(args[0]) if name == 'int' else float(args[0])
            return super().builtin(name, args, kwargs, node)

    # the class itself: constants of the class body and its other (class / static) methods
    C = Obj('class')
    glob = {'torch': T}
    cnode = fwd.cls.node if fwd.cls is not None else None
    if cnode is not None:
        glob[cnode.name] = C
        for st in cnode.body:
            if isinstance(st, _ast.Assign) and len(st.targets) == 1 and \
                    isinstance(st.targets[0], _ast.Name):
                try:
                    C.attrs[st.targets[0].id] = Mini({}).expr(st.value, {})
                except (Unsupported, Raised):
                    pass
            elif isinstance(st, _ast.FunctionDef) and st.name not in ('forward', 'backward'):
                decos = {_ast.unparse(d) for d in st.decorator_list}
                if 'classmethod' in decos:
                    C.attrs[st.name] = lambda *a, _n=st: _I(glob).call_function(_n, [C] + list(a))
                else:
                    C.attrs[st.name] = lambda *a, _n=st: _I(glob).call_function(_n, list(a))

    def run(*vals):
        m = _I(glob)
        return m.call_function(fwd.node, [Obj('ctx')] + list(vals))
    return run, (Unsupported, Raised)


def ox_unroll_summary(ctx):
    """ComputeOxUnrollSTE.forward: a positive value, non-increasing in every argument -- the
    fact the monotonicity of the DIANA model rests on (a larger layer never gets a LARGER unroll
    factor, hence never fewer cycles).  The function is **interpreted** (finite interpreter,
    1-d tensors as lists) on a grid that straddles every threshold its own constants define:
    each argument sweeps K // d - 1 .. K // d + 1 for every integer constant K of the function
    and small divisors d, the others range over a few base points.  The form of the code is
    free; an index that wraps around (no feasible candidate -> index -1 -> the largest one) or a
    candidate that becomes allowed again for larger layers is reported with the two argument
    tuples that witness it."""
    import ast as _ast
    cls = ctx.repo.cls('ComputeOxUnrollSTE')
    fwd = cls.methods['forward']
    names = fwd.params[1:]
    run, errs = _unroll_interpreter(ctx, fwd)
    consts = sorted({n.value for n in _ast.walk(cls.node) if isinstance(n, _ast.Constant) and
                     isinstance(n.value, int) and not isinstance(n.value, bool) and n.value >= 16})
    sweep = {1, 2, 3, 4}
    for K in consts:
        for d in (1, 2, 3, 4, 5, 7, 8, 9, 10, 11, 16, 25, 49):
            for dl in (-1, 0, 1):
                sweep.add(max(1, K // d + dl))
    sweep = sorted(sweep)
    ksweep = [1, 2, 3, 4, 5, 6, 7, 9, 11]
    base_ch = [1, 64, 128, 129, 300, 513]
    base_k = [1, 3, 5, 7]
    is_k = [n.startswith('k') for n in names]
    cache = {}

    def val(args):
        if args not in cache:
            cache[args] = run(*args)
        return cache[args]
    witness = None
    lo, hi = None, None
    n_eval = 0
    try:
        import itertools
        for ax in range(len(names)):
            others = [base_k if is_k[i] else base_ch for i in range(len(names)) if i != ax]
            for combo in itertools.product(*others):
                prev = None
                for v in (ksweep if is_k[ax] else sweep):
                    args = tuple(combo[:ax]) + (v,) + tuple(combo[ax:])
                    r = val(args)
                    n_eval += 1
                    if not isinstance(r, (int, float)) or isinstance(r, bool):
                        raise AnalysisError(f'R16b: ComputeOxUnrollSTE.forward returned {r!r}')
                    lo = r if lo is None else min(lo, r)
                    hi = r if hi is None else max(hi, r)
                    if prev is not None and r > prev[1] and witness is None:
                        witness = (names[ax], prev[0], prev[1], args, r)
                    prev = (args, r)
    except errs as ex:
        raise AnalysisError(f'R16b: ComputeOxUnrollSTE.forward is outside the interpreted '
                            f'subset: {ex}')
    ok = witness is None and lo is not None and lo > 0
    ctx.count('R16b unroll evaluations', len(cache))
    ctx.ob('R16b', 'ComputeOxUnrollSTE.forward shape', ok,
           f'interpreted on {len(cache)} argument tuples around the thresholds of its constants '
           f'{consts}: values in [{lo}, {hi}], non-increasing in every argument' if ok else
           (f'the unroll factor grows with {witness[0]}: forward{witness[1]} = {witness[2]} but '
            f'forward{witness[3]} = {witness[4]} (arguments {tuple(names)}): a larger layer gets '
            f'a larger unroll factor, i.e. fewer cycles, so the DIANA latency is not monotone '
            f'(typically an index that wraps around when no candidate is feasible)'
            if witness is not None else f'the unroll factor can be {lo} <= 0'), where(fwd))
    lo, hi = float(lo if lo and lo > 0 else 1.0), float(hi if hi else 8.0)

    def summary(ne: NumEval, t: Term, d: int) -> AV:
        args = [ne.ev(a, d) for a in t[2]]
        mono = {}
        for a in args:
            for k in a.inputs():
                dk = a.d(k)
                mono[k] = (None if (dk is None or not ok) else -dk)
        return AV(lo, hi, mono)
    return summary


class PerfModelOuter(NumEval):
    """Evaluates cost functions that build an instance of a plain performance-model class
    (NE16): ``Model(args).<property>`` is evaluated by sa/objnum.ObjEval on an abstract
    instance whose fields come from the constructor (its ``self.x = ...`` stores with the
    actual arguments) and from the ``set_layer`` call found on the same path."""

    def __init__(self, *a, **kw):
        super().__init__(*a, **kw)
        self._path = None
        self.lemma_uses = 0
        self.models = 0

    def ev_path(self, p, d):
        # remember the path being evaluated: mutator calls on an instance are events of it
        prev, self._path = self._path, p
        try:
            return self.ev(p.retval, d)
        finally:
            self._path = prev

    def _ctor_calls(self, p):
        return [e for e in p.calls() if callee(e.data[0]) in self.repo.classes and
                not self.repo.external_bases(self.repo.classes[callee(e.data[0])])]

    def ev(self, t, depth=None):
        d = self.depth if depth is None else depth
        if t[0] == 'attr' and t[1][0] == 'call' and callee(t[1]) in self.repo.classes and \
                self._path is not None:
            ci = self.repo.classes[callee(t[1])]
            if not self.repo.external_bases(ci):
                return self.instance(ci, t[1], d).field_or_raise(t[2], d)
        return super().ev(t, depth)

    def instance(self, ci, ctor: Term, d: int):
        from ..objnum import ObjEval
        init = ci.methods['__init__']
        bind = {'self': SELF}
        for p_, a in zip(init.params[1:], ctor[2]):
            bind[p_] = a
        for k, v in ctor[3]:
            bind[k] = v
        import ast as _ast
        for p_, dv in init.defaults().items():
            if p_ not in bind and isinstance(dv, _ast.Constant):
                bind[p_] = ('const', dv.value)
        fields: Dict[str, object] = {}
        ips = returning(paths(self.repo, init, bind))
        if len(ips) != 1:
            raise NumError(f'{ci.name}.__init__ has {len(ips)} paths')
        outer = self

        def as_value(v):
            if v[0] == 'const' and isinstance(v[1], str):
                return v
            if v[0] == 'tuple' and all(x[0] == 'const' for x in v[1]):
                return v
            return outer.ev(v, d)
        for e in ips[0].events:
            if e.kind == 'setattr' and e.data[0] == SELF:
                try:
                    fields[e.data[1]] = as_value(e.data[2])
                except NumError:
                    pass        # a field that needs other fields (default layer): set below
        # mutators called on this instance on the current path
        for e in self._path.calls():
            mc = method_call(e.data[0])
            if mc and mc[0] == ctor:
                m = self.repo.find_method(ci, mc[1])
                if m is None:
                    continue
                mb = {'self': SELF}
                for p_, a in zip(m.params[1:], mc[2]):
                    mb[p_] = a
                for q in returning(paths(self.repo, m, mb)):
                    for e2 in q.events:
                        if e2.kind == 'setattr' and e2.data[0] == SELF:
                            fields[e2.data[1]] = as_value(e2.data[2])
        oe = ObjEval(self.repo, ci, fields, self.inputs, depth=14)
        oe.summaries = self.summaries
        self.models += 1
        self._last = oe

        class _W:
            def field_or_raise(_s, name, dd):
                v = oe.field(name, oe.depth)
                if v is None:
                    raise NumError(f'{ci.name}.{name} has no value')
                outer.lemma_uses += oe.lemma_uses
                oe.lemma_uses = 0
                return v
        return _W()


def run_numeric(ctx, reg: Registration, ranges) -> AV:
    sp = ('param', reg.fn.params[0])
    si = SpecInputs(sp, ranges)
    if reg.fn.name in PERF_MODEL_WORLDS:
        ne = PerfModelOuter(ctx.repo, si, summaries=ctx._c16_summaries, depth=10)
        si.ne = ne
        si.heap = heap_of(ctx, reg.fn)
        v = ne.function_value(reg.fn, {}, ne.depth)
        ctx.count('R16a:tiling lemma applications', ne.lemma_uses)
        ctx.count('R16a:abstract model instances', ne.models)
        return v
    ne = NumEval(ctx.repo, si, summaries=ctx._c16_summaries)
    si.ne = ne
    si.heap = heap_of(ctx, reg.fn)
    return ne.function_value(reg.fn, {}, ne.depth)


def r16a(ctx, specs, rule='R16a', only=None):
    ctx._c16_summaries = {}
    if only is None or 'diana_latency' in only:
        ctx._c16_summaries = {
            ctx.repo.cls('ComputeOxUnrollSTE').qualname + '.forward': ox_unroll_summary(ctx)}
    n = 0
    undecided = []
    for sname, si in sorted(specs.items()):
        if only is not None and sname not in only:
            continue
        for reg in si.regs:
            n += 1
            loc = f'{reg.module.relpath}:{reg.fn.node.lineno}'
            worlds = [('', {})]
            if reg.fn.name in PERF_MODEL_WORLDS:
                # the share of channels at this precision is > 0 here; share == 0 is the
                # guarded early return, decided on its own below
                worlds = [(f' @kernel {int(k0)}x{int(k1)}',
                           {'k0': (k0, k0), 'k1': (k1, k1), 'abits': (8.0, 8.0),
                            'wtheta': (1e-300, 1.0)})
                          for k0, k1 in PERF_MODEL_WORLDS[reg.fn.name]]
            decided = 0
            for suffix, override in worlds:
                lbl = f'{sname}[{reg.pattern}]{suffix}'

                def ranges(**kw):
                    r = default_ranges(**kw)
                    r.update(override)
                    return r
                if suffix:
                    # a kernel shape the function's own assertions reject leaves no returning
                    # path for a non-empty layer at a non-zero bit-width
                    try:
                        run_numeric(ctx, reg, ranges(wbits=(2.0, 8.0)))
                    except NumError as e:
                        if 'every path is infeasible' in str(e):
                            ctx.note(f'R16a {lbl}: kernel shape rejected by the function itself')
                            continue
                    try:
                        z = run_numeric(ctx, reg, dict(ranges(), wtheta=(0.0, 0.0)))
                    except NumError:
                        z = AV(-INF, INF)
                    ctx.ob(rule, f'{lbl} zero share costs nothing', z.lo == 0 and z.hi == 0,
                           'w_theta_alpha == 0 returns 0 before the model divides by it'
                           if z.lo == 0 and z.hi == 0 else
                           f'with no channel at this precision the function does not return 0 '
                           f'(range [{z.lo}, {z.hi}]): it goes on to divide by the zero share', loc)
                try:
                    v = run_numeric(ctx, reg, ranges())
                except NumError as e:
                    msg = str(e)
                    if 'division by a value whose sign is not constant' in msg or \
                            'may be <= 0' in msg:
                        ctx.ob(rule, f'{lbl} finite', False,
                               f'{reg.fn.name}: {msg} for some valid layer description', loc)
                        decided += 1
                        continue
                    raise AnalysisError(f'R16a: {reg.fn.qualname} is outside the numeric domain: '
                                        f'{msg}')
                decided += 1
                if v.kind != 'num':
                    raise AnalysisError(f'R16a: {reg.fn.qualname} returns a non-numeric value')
                ctx.ob(rule, f'{lbl} finite', True, 'no division by a possibly-zero value', loc)
                ctx.ob(rule, f'{lbl} non-negative', v.lo >= 0,
                       f'value in [{v.lo}, {v.hi}]' if v.lo >= 0 else
                       f'{reg.fn.name} can return a negative value (abstract range '
                       f'[{v.lo}, {v.hi}]) for a valid layer description', loc)
                for x in SIZE_INPUTS:
                    if x in override:
                        continue        # fixed in this world
                    dx = v.d(x)
                    ctx.ob(rule, f'{lbl} monotone in {x}', dx in (0, 1),
                           ('independent of' if dx == 0 else 'non-decreasing in') + f' {x}'
                           if dx in (0, 1) else
                           f'{reg.fn.name} is not provably non-decreasing in {NAMES[x]} '
                           f'({"decreasing" if dx == -1 else "direction unknown"}): growing the '
                           f'layer can lower its cost', loc, nontrivial=dx != 0)
                if sname in BIT_MONOTONE_SPECS:
                    for x in ('wbits', 'abits'):
                        dx = v.d(x)
                        ctx.ob(rule, f'{lbl} monotone in {x}', dx in (0, 1),
                               ('independent of' if dx == 0 else 'non-decreasing in') + f' {x}'
                               if dx in (0, 1) else
                               f'{reg.fn.name} is not provably non-decreasing in the '
                               f'{"weight" if x == "wbits" else "activation"} bit-width', loc,
                               nontrivial=dx != 0)
                # strictly positive for a non-empty layer at non-zero bit-widths
                try:
                    vp = run_numeric(ctx, reg, ranges(wbits=(2.0, 8.0)))
                    ctx.ob(rule, f'{lbl} positive', vp.lo > 0,
                           f'value >= {vp.lo} > 0' if vp.lo > 0 else
                           f'{reg.fn.name} can be 0 for a non-empty layer at non-zero bit-widths '
                           f'(abstract lower bound {vp.lo})', loc)
                except NumError as e:
                    raise AnalysisError(f'R16a: {reg.fn.qualname}: {e}')
            if decided == 0:
                raise AnalysisError(f'R16a: {reg.fn.qualname} accepts no kernel shape')
    ctx.floor(rule, 'cost registrations', n, 48 if only is None else 3)
    ctx.count('R16a:not interpreted', len(undecided))
    ctx.note('R16a: the NE16 model accepts only 1x1 and 3x3 kernels (asserted by the cost '
             'functions); each accepted shape is decided separately, the comparison 1x1 vs 3x3 '
             '(monotonicity in the kernel size) is not decided')


NAMES = {'cin': 'input channels', 'cout': 'output channels', 'k0': 'kernel size (axis 0)',
         'k1': 'kernel size (axis 1)', 'o2': 'output resolution (axis 2)',
         'o3': 'output resolution (axis 3)'}


# -- R16b ------------------------------------------------------------------------------------
def r16b(ctx, rule: str = 'R16b', only=None):
    repo = ctx.repo
    A, B = ('param', 'a'), ('param', 'b')
    idioms = {
        'ceil-div floor((x+N-1)/N)': lambda x, n: ('call', ('global', 'torch.floor'), (
            ('bin', '/', ('bin', '-', ('bin', '+', x, n), ('const', 1)), n),), ()),
        'ceil-div ((x-1)//N)+1': lambda x, n: ('bin', '+', ('bin', '//', (
            'bin', '-', x, ('const', 1)), n), ('const', 1)),
        'floor-div': lambda x, n: ('call', ('global', 'torch.floor_divide'), (x, n), ()),
        'modulo': lambda x, n: ('bin', '%', x, n),
    }
    expected = {'FloorSTE': 'ceil-div floor((x+N-1)/N)', 'DivAndCeilSTE': 'ceil-div ((x-1)//N)+1',
                'FloorDivideSTE': 'floor-div', 'ModuloSTE': 'modulo'}
    n = 0
    for c in sorted(repo.classes.values(), key=lambda c: c.qualname):
        if c.name not in expected or not c.module.name.startswith('plinio.cost'):
            continue
        if only is not None and c.module.name.split('.')[-1] not in only:
            continue
        n += 1
        fwd, bwd = c.methods.get('forward'), c.methods.get('backward')
        if fwd is None or bwd is None:
            raise AnalysisError(f'{c.qualname}: forward/backward missing')
        x, nn_ = ('param', fwd.params[1]), ('param', fwd.params[2])
        want = idioms[expected[c.name]](x, nn_)
        for p in returning(paths(repo, fwd)):
            ok = same_formula(p.retval, want)
            ctx.ob(rule, f'{c.module.name.split(".")[-1]}.{c.name}.forward', ok,
                   f'exact integer idiom {expected[c.name]}' if ok else
                   f'forward computes {short(p.retval)}; expected the exact '
                   f'{expected[c.name]} of its two arguments', where(fwd))
        for p in returning(paths(repo, bwd)):
            r = p.retval
            g = ('param', bwd.params[1])
            ok = r[0] == 'tuple' and len(r[1]) == len(fwd.params) - 1 and r[1][0] == g and \
                all(y == NONE for y in r[1][1:])
            ctx.ob(rule, f'{c.module.name.split(".")[-1]}.{c.name}.backward', ok,
                   'gradient passed straight through to the size argument' if ok else
                   f'backward returns {short(r)}: expected (grad_output, None) — one value per '
                   f'forward input, the size argument receiving the incoming gradient',
                   where(bwd))
        # plain twin in the same module
        twin = c.module.functions.get('_floor')
        if c.name == 'FloorSTE' and twin is not None:
            tx, tn = ('param', twin.params[0]), ('param', twin.params[1])
            wantt = ('call', ('global', 'math.floor'), (
                ('bin', '/', ('bin', '-', ('bin', '+', tx, tn), ('const', 1)), tn),), ())
            for p in returning(paths(repo, twin)):
                ok = same_formula(p.retval, wantt)
                ctx.ob(rule, f'{c.module.name.split(".")[-1]}._floor twin', ok,
                       'plain twin computes the same ceil-div' if ok else
                       f'_floor computes {short(p.retval)}, which differs from FloorSTE.forward',
                       where(twin))
    if only is not None:
        ctx.floor(rule, 'rounding helpers', n, 3)
        return
    ctx.floor('R16b', 'rounding helpers', n, 5)
    # every autograd.Function used on a cost path passes gradients (PIT / MPS ones in C12)
    gate = repo.cls('GateSTE')
    fwd = gate.methods['forward']
    for p in returning(paths(repo, fwd)):
        r = p.retval
        mc = method_call(r)
        ok = mc is not None and mc[1] == 'float' and mc[0][0] == 'cmp' and \
            mc[0][1] in ('>=', '>') and mc[0][2] == ('param', fwd.params[1]) and \
            mc[0][3] == ('param', fwd.params[2])
        ctx.ob(rule, 'diana_latency.GateSTE.forward', ok,
               'gate = (ch >= th)' if ok else f'gate computes {short(r)}', where(fwd))


def canon_int(t):
    """One spelling per integer operation: floor division (``a // b``, torch.floor_divide,
    torch.div(..., rounding_mode='floor'), floor(a / b)) and modulo (``%``, torch.remainder)."""
    if not isinstance(t, tuple):
        return t
    t = tuple(canon_int(x) for x in t)
    if t and t[0] == 'call':
        c = callee(t)
        if c == 'torch.floor_divide' and len(t[2]) == 2:
            return ('bin', '//', t[2][0], t[2][1])
        if c in ('torch.div', 'torch.divide') and len(t[2]) == 2 and \
                dict(t[3]).get('rounding_mode') == ('const', 'floor'):
            return ('bin', '//', t[2][0], t[2][1])
        if c in ('torch.floor', 'math.floor') and len(t[2]) == 1 and t[2][0][0] == 'bin' and \
                t[2][0][1] == '/':
            return ('bin', '//', t[2][0][2], t[2][0][3])
        if c in ('torch.remainder',) and len(t[2]) == 2:
            return ('bin', '%', t[2][0], t[2][1])
        if c in ('torch.as_tensor', 'torch.tensor') and len(t[2]) == 1 and not t[3]:
            return t[2][0]
        if c in ('builtins.float', 'builtins.int') and len(t[2]) == 1 and \
                t[2][0][0] == 'bin' and t[2][0][1] in ('//', '%'):
            return t[2][0]
    if t and t[0] == 'ifexp':
        # a dispatch on the type of the operand (number / tensor) with the same formula on
        # both arms
        c = t[1][2] if (t[1][0] == 'un' and t[1][1] == 'not') else t[1]
        if c[0] == 'call' and (callee(c) or '') in ('builtins.isinstance', 'torch.is_tensor') \
                and t[2] == t[3]:
            return t[2]
    return t


def same_formula(a: Term, b: Term) -> bool:
    """Equal up to arithmetic normalisation inside the outermost call / operator."""
    a, b = canon_int(a), canon_int(b)
    if a == b:
        return True
    if a[0] == 'call' and b[0] == 'call' and a[1] == b[1] and len(a[2]) == len(b[2]):
        return all(same_formula(x, y) for x, y in zip(a[2], b[2]))
    if a[0] == 'bin' and b[0] == 'bin' and a[1] == b[1] and a[1] in ('//', '%', '/'):
        return same_formula(a[2], b[2]) and same_formula(a[3], b[3])
    try:
        return poly.equal(a, b)
    except Exception:       # noqa: BLE001
        return False


# -- R16c ------------------------------------------------------------------------------------
def r16c(ctx, specs):
    """generic(cin=1, cout=1) * C  ==  dw(C)  for the size / operation counts.  The
    depthwise functions read C from in_channels (params/ops) or out_channels (bit variants);
    both are the group count of a depthwise layer."""
    n = 0
    for sname in ('params', 'params_no_bias', 'ops', 'ops_no_bias', 'params_bit', 'ops_bit'):
        si = specs.get(sname)
        if si is None:
            raise AnalysisError(f'cost spec {sname} not found')
        by_pat = {r.pattern: r for r in si.regs}
        for dim in ('1d', '2d'):
            g = by_pat.get(f'Conv{dim}Generic')
            dw = by_pat.get(f'Conv{dim}DW')
            if g is None or dw is None:
                raise AnalysisError(f'{sname}: Conv{dim} generic/DW pair not registered')
            n += 1
            C = ('sym', 'C')
            tg = single_return(ctx, g.fn)
            td = single_return(ctx, dw.fn)
            spg, spd = ('param', g.fn.params[0]), ('param', dw.fn.params[0])
            sub_g = {('sub', spg, ('const', 'in_channels')): ('const', 1),
                     ('sub', spg, ('const', 'out_channels')): ('const', 1)}
            sub_d = {('sub', spd, ('const', 'in_channels')): C,
                     ('sub', spd, ('const', 'out_channels')): C}
            lhs = ('bin', '*', poly.substitute(rename(tg, spg, ('param', 'spec')),
                                               {rename(k, spg, ('param', 'spec')): v
                                                for k, v in sub_g.items()}), C)
            rhs = poly.substitute(rename(td, spd, ('param', 'spec')),
                                  {rename(k, spd, ('param', 'spec')): v for k, v in sub_d.items()})
            ok = ifexp_equal(lhs, rhs)
            ctx.ob('R16c', f'{sname} Conv{dim} depthwise = generic per group', ok,
                   'dw(C) == C * generic(cin=1, cout=1)' if ok else
                   f'{dw.fn.name} = {short(td, 120)} is not {g.fn.name} evaluated per group '
                   f'({short(tg, 120)} with cin = cout = 1, times the number of groups)',
                   f'{dw.module.relpath}:{dw.fn.node.lineno}')
    ctx.floor('R16c', 'generic/depthwise pairs', n, 12)


def single_return(ctx, fn: FunctionInfo) -> Term:
    ps = returning(paths(ctx.repo, fn))
    if len(ps) != 1:
        raise AnalysisError(f'{fn.qualname}: expected a single return path')
    return ps[0].retval


def rename(t, a, b):
    if t == a:
        return b
    if isinstance(t, tuple):
        return tuple(rename(x, a, b) for x in t)
    return t


def ifexp_equal(a: Term, b: Term) -> bool:
    """Polynomial equality for both values of every conditional atom (the bias flag)."""
    conds = []
    for t in (a, b):
        for x in subterms(t):
            if x[0] == 'ifexp' and x[1] not in conds:
                conds.append(x[1])
    if len(conds) > 3:
        return False
    import itertools
    for vals in itertools.product([True, False], repeat=len(conds)):
        m = dict(zip(conds, vals))

        def res(t):
            if isinstance(t, tuple):
                if t and t[0] == 'ifexp' and t[1] in m:
                    return res(t[2] if m[t[1]] else t[3])
                return tuple(res(x) for x in t)
            return t
        if not poly.equal(res(a), res(b)):
            return False
    return True


# -- R16d ------------------------------------------------------------------------------------
def r16d(ctx, specs):
    repo = ctx.repo
    # MPIC: the LUT access is dominated by the membership assertion on both precisions
    lut = repo.fn('_mpic_lut')
    for p in returning(paths(repo, lut)):
        asserts = [e.data[0] for e in p.events if e.kind == 'assert']
        a_p, w_p = ('param', lut.params[0]), ('param', lut.params[1])
        dict_t = [x for x in subterms(resolve_globals(repo, p.retval)) if x[0] == 'dict']
        ok = False
        if dict_t:
            top = dict_t[0]
            a_keys = {k[1] for k, _ in top[1] if k[0] == 'const'}
            w_keys = set()
            for _, v in top[1]:
                if v[0] == 'dict':
                    w_keys |= {k[1] for k, _ in v[1] if k[0] == 'const'}
            ok = membership(asserts, a_p, a_keys) and membership(asserts, w_p, w_keys)
        ctx.ob('R16d', 'mpic _mpic_lut rejects unlisted precisions', ok,
               'assert (a_bit in LUT keys) and (w_bit in LUT keys) dominates the look-up' if ok
               else 'the look-up table access is not guarded by a membership test of both '
               'precisions against exactly the table keys', where(lut))
    # every mpic cost function goes through _mpic_lut with (in_precision, w_precision)
    n = 0
    for sname in ('mpic_latency', 'mpic_energy'):
        for reg in specs[sname].regs:
            n += 1
            from ..costlib import keys_read
            ok = False
            fn = reg.fn
            seen = set()

            def reaches(f):
                nonlocal ok
                if f.qualname in seen:
                    return
                seen.add(f.qualname)
                for p in returning(paths(repo, f)):
                    for e in p.calls():
                        c = callee(e.data[0])
                        if c == lut.qualname:
                            sp = ('param', f.params[0])
                            a0 = strip_item(e.data[0][2][0])
                            a1 = strip_item(e.data[0][2][1])
                            if a0 == ('sub', sp, ('const', 'in_precision')) and \
                                    a1 == ('sub', sp, ('const', 'w_precision')):
                                ok = True
                        elif c in repo.functions and repo.functions[c].cls is None and \
                                e.data[0][2] and e.data[0][2][0] == ('param', f.params[0]):
                            reaches(repo.functions[c])
            reaches(fn)
            ctx.ob('R16d', f'{sname}[{reg.pattern}] uses the guarded LUT', ok,
                   'cycles/MAC come from _mpic_lut(in_precision, w_precision)' if ok else
                   f'{fn.name} does not obtain cycles/MAC from _mpic_lut(in_precision, '
                   f'w_precision)', f'{reg.module.relpath}:{fn.node.lineno}')
    # NE16: activation precision and kernel asserts on every value-returning path
    for reg in specs['ne16_latency'].regs:
        n += 1
        fn = reg.fn
        sp = ('param', fn.params[0])
        for p in returning(paths(repo, fn)):
            if p.retval[0] == 'const':
                continue        # zero-guard return
            asserts = [e.data[0] for e in p.events if e.kind == 'assert']
            a_ok = any(a == ('cmp', '==', ('sub', sp, ('const', 'in_precision')), ('const', 8))
                       for a in asserts)
            is_conv = 'conv' in fn.name
            k_ok = True
            if is_conv:
                k = ('sub', sp, ('const', 'kernel_size'))
                allowed = allowed_kernels(asserts, k)
                want = {(3, 3)} if 'dw' in fn.name else {(3, 3), (1, 1)}
                k_ok = allowed == want
            ctx.ob('R16d', f'ne16_latency[{reg.pattern}] rejects unsupported layers',
                   a_ok and k_ok,
                   'asserts 8-bit activations' + (' and the supported kernel sizes' if is_conv
                                                  else '') if a_ok and k_ok else
                   f'{fn.name}: ' + ('no assert in_precision == 8; ' if not a_ok else '') +
                   ('kernel assertion does not restrict to the supported sizes' if not k_ok
                    else ''), f'{reg.module.relpath}:{fn.node.lineno}')
    # DIANA: precision pairs select the accelerator, anything else raises; analog rejects groups
    for reg in specs['diana_latency'].regs:
        n += 1
    dg = repo.fn('_diana_latency_conv2d_generic')
    sp = ('param', dg.params[0])
    rets = returning(paths(repo, dg))
    all_paths = paths(repo, dg)
    pairs = set()
    for p in rets:
        w = [a for a, v in p.assumptions if v and a[0] == 'cmp' and a[1] == '==' and
             a[2] == ('sub', sp, ('const', 'w_precision'))]
        act = [a for a, v in p.assumptions if v and a[0] == 'cmp' and a[1] == '==' and
               a[2][0] == 'sub' and a[2][2][1] in ('a_precision', 'in_precision')]
        tgt = callee(p.retval)
        if w and act and tgt:
            pairs.add((w[-1][3][1], act[-1][3][1], tgt.split('.')[-1]))
    raises = any(p.status == 'raise' for p in all_paths)
    ok = pairs == {(2, 8, '_analog_cycles'), (8, 8, '_digital_cycles')} and raises and \
        len(rets) == 2
    ctx.ob('R16d', 'diana_latency precision dispatch', ok,
           '(w=2,a=8) -> analog, (w=8,a=8) -> digital, anything else raises' if ok else
           f'dispatch is {sorted(pairs)} (raise for other precisions: {raises}, value-returning '
           f'paths: {len(rets)})', where(dg))
    an = repo.fn('_analog_cycles')
    sp = ('param', an.params[0])
    ok = all(any(a == ('cmp', '==', ('sub', sp, ('const', 'groups')), ('const', 1)) and v
                 for a, v in p.assumptions) for p in returning(paths(repo, an))) and \
        any(p.status == 'raise' for p in paths(repo, an))
    ctx.ob('R16d', 'diana analog accelerator rejects grouped convolutions', ok,
           'groups != 1 raises' if ok else
           'a value is returned for groups != 1 (the analog model covers only groups = 1)',
           where(an))
    ctx.floor('R16d', 'restricted-model registrations', n, 15)


def strip_item(t: Term) -> Term:
    mc = method_call(t)
    if mc and mc[1] == 'item':
        return mc[0]
    return t


def membership(asserts: List[Term], var: Term, keys: set) -> bool:
    for a in asserts:
        for x in subterms(a):
            if x[0] == 'cmp' and x[1] == 'in' and x[2] == var and x[3][0] in ('list', 'tuple',
                                                                               'set'):
                vals = {v[1] for v in x[3][1] if v[0] == 'const'}
                if vals == keys:
                    return True
    return False


def allowed_kernels(asserts: List[Term], k: Term) -> set:
    """Kernel sizes admitted by an assert of the form
    ((k[0]==a) and (k[1]==b)) [or ((k[0]==c) and (k[1]==d))]."""
    out = set()
    for a in asserts:
        alts = a[2] if a[0] == 'bool' and a[1] == 'or' else (a,)
        for alt in alts:
            if alt[0] == 'bool' and alt[1] == 'and' and len(alt[2]) == 2:
                vals = {}
                for c in alt[2]:
                    if c[0] == 'cmp' and c[1] == '==' and c[2][0] == 'sub' and c[2][1] == k and \
                            c[3][0] == 'const':
                        vals[c[2][2][1]] = c[3][1]
                if set(vals) == {0, 1}:
                    out.add((vals[0], vals[1]))
    return out


def r16e(ctx):
    """Tiling consistency: whenever a quantity is split into full tiles and a ragged
    remainder (FloorDivideSTE / ModuloSTE, floor_divide / %), quotient and remainder use the
    same tile size.  This is the premise of the tiling lemma (full tiles + one ragged tile is
    non-decreasing in the quantity); with different divisors channels are counted twice or
    dropped and the cost falls at tile boundaries."""
    repo = ctx.repo
    n = 0
    for fn in repo.all_functions():
        if not fn.module.name.startswith('plinio.cost'):
            continue
        quot: Dict[Term, set] = {}
        rem: Dict[Term, set] = {}
        for p in paths(repo, fn):
            terms = [x for e in p.events for x in e.data if isinstance(x, tuple)]
            if p.retval is not None:
                terms.append(p.retval)
            for t in terms:
                for x in subterms(t):
                    c = callee(x) if x[0] == 'call' else None
                    if c and c.endswith('FloorDivideSTE.apply') and len(x[2]) == 2:
                        quot.setdefault(x[2][0], set()).add(x[2][1])
                    elif c and c.endswith('ModuloSTE.apply') and len(x[2]) == 2:
                        rem.setdefault(x[2][0], set()).add(x[2][1])
                    elif c in ('torch.floor_divide',) and len(x[2]) == 2:
                        quot.setdefault(x[2][0], set()).add(x[2][1])
                    elif x[0] == 'bin' and x[1] == '//':
                        quot.setdefault(x[2], set()).add(x[3])
                    elif x[0] == 'bin' and x[1] == '%':
                        rem.setdefault(x[2], set()).add(x[3])
        for q in sorted(set(quot) & set(rem), key=repr):
            n += 1
            ok = quot[q] == rem[q]
            ctx.ob('R16e', f'{_fq16(fn)} tiles of {short(q, 50)}', ok,
                   f'quotient and remainder both by {[short(b, 40) for b in quot[q]]}' if ok else
                   f'{short(q, 50)} is divided by {[short(b, 40) for b in quot[q]]} for the full '
                   f'tiles but taken modulo {[short(b, 40) for b in rem[q]]} for the remainder: '
                   f'the model is no longer "full tiles plus one ragged tile" and is not '
                   f'monotone in that quantity', where(fn))
    ctx.floor('R16e', 'quotient/remainder pairs', n, 5)


def _fq16(fn: FunctionInfo) -> str:
    return (fn.cls.name + '.' if fn.cls else '') + fn.name


def run(ctx):
    specs = cost_specs(ctx.repo)
    r16e(ctx)
    r16a(ctx, specs)
    r16b(ctx)
    r16c(ctx, specs)
    r16d(ctx, specs)
    ctx.assume('sizes are real numbers >= 1 (fractional relaxed counts included), weight bits in '
               '[0, 8], activation bits in [2, 8], theta in [0, 1]')
    ctx.assume('torch.floor/ceil/round/max/min are monotone; x % n destroys monotonicity')
    ctx.assume('summary of ComputeOxUnrollSTE.forward (value in the candidate list, '
               'non-increasing in every argument) — its shape conditions are re-verified on '
               'every run')


MANIFEST = {
    'text': 'For every valid layer description at once (real sizes >= 1 incl. fractional counts, '
            'all admitted bit-widths): each registered cost function except the NE16 model is '
            'non-negative, division-safe, non-decreasing in channels / kernel / output '
            'resolution (and in bit-widths where bit-width scales the work), positive at '
            'non-zero bits; rounding helpers are the exact integer idioms with pass-through '
            'gradients; depthwise formulas equal the generic ones per group; MPIC / NE16 / DIANA '
            'reject unsupported precisions and layer kinds. Not decided: exact values against '
            'hardware, sign/monotonicity of the NE16 performance model (stateful class, '
            'data-dependent tiling branches), exactness of ceil idioms on fractional counts.',
    'note': 'Trusted: transfer functions of sa/numdom.py; the verified-shape summary of '
            'ComputeOxUnrollSTE; literal LUT entries are checked entry-wise.',
    'technique': 'abstract interpretation over an interval x monotonicity domain + polynomial '
                 'normal form + path analysis of rejection guards',
}
