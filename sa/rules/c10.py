"""C10 — what is evaluated, reported and exported are the same choice (structural clauses).

 R10a one selection source: every ``selected_*`` reader (summary/export) and the eval-mode
      sampler select the arg-max, along dim 0, of an order-preserving image of the *same*
      ``alpha`` of the *same* quantizer / combiner.
 R10b who may write theta_alpha: every store to the sampled coefficients is a probability
      vector by construction (softmax / gumbel_softmax along dim 0) or the one-hot of the
      arg-max of one; disable_sampling writes nothing.
 R10c when it is one-hot: the hard branch of every softmax sampler is taken under
      ``hard_softmax or not training``; every Gumbel sampler falls back to it when not
      training.
"""
from __future__ import annotations

from typing import Dict, List, Optional, Tuple

from ..model import AnalysisError, ClassInfo, FunctionInfo
from ..sellib import argmax_source, is_prob, onehot_source, strip_scalar
from ..sym import NONE, State, Term, mentions, show, subterms
from ..util import (SELF, arg, bind_args, callee, guards_of, inline_globals, is_call, method_call, paths,
                    resolve_stores,
                    returning, short, where)

EXPLANATION = ('Selection-source (selsrc) analysis: for each index expression used by summary / '
               'export and for the sampled coefficients, the tensor it is the arg-max of, the '
               'dim, and the order-preserving maps in between are extracted from def-use terms '
               'and compared; every store to theta_alpha is enumerated and classified; the path '
               'condition of each hard branch is compared with "hard or not training". Holds '
               'for every coefficient vector without ties and every positive temperature; '
               'soft-max numerics are not computed.')
RULE_TEXT = ('obligation = one selection reader / one theta_alpha store / one sampler branch; '
             'discovered from the MPS layer classes, MPSBaseQtz family and SuperNetCombiner')


def mps_layer_classes(ctx) -> List[ClassInfo]:
    base = ctx.repo.cls('MPSModule')
    return ctx.repo.subclasses(base, strict=True)


def sampler_classes(ctx) -> List[ClassInfo]:
    return [ctx.repo.cls('MPSBaseQtz'), ctx.repo.cls('SuperNetCombiner')]


def selected_readers(ctx):
    """(class, getter name, role, kind) for every selected_<role>_<precision|quantizer>."""
    out = []
    for ci in mps_layer_classes(ctx):
        for name, g in sorted(ci.getters.items()):
            if name.startswith('selected_') and name.count('_') == 2:
                _, role, kind = name.split('_')
                out.append((ci, g, role, kind))
    return out


def r10a(ctx):
    repo = ctx.repo
    readers = selected_readers(ctx)
    ctx.floor('R10a', 'selected_* readers', len(readers), 20)
    index_terms: Dict[Tuple[str, str, str], Term] = {}
    for ci, g, role, kind in readers:
        q = ('attr', SELF, f'{role}_mps_quantizer')
        container = ('attr', q, 'precision' if kind == 'precision' else 'qtz_funcs')
        for p in returning(paths(repo, g)):
            per_channel = any('MPSPerChannelQtz' in show(a) and v for a, v in p.assumptions)
            t = p.retval
            # find the subscript into the container
            subs = [x for x in subterms(t) if x[0] == 'sub' and x[1] == container]
            lblp = 'per-channel' if per_channel else 'per-layer'
            if not subs:
                ctx.ob('R10a', f'{ci.name}.{g.name}[{lblp}]', False,
                       f'does not index {short(container, 60)}: returns {short(t)}', where(g))
                continue
            idx = subs[0][2]
            if idx[0] == 'elem':
                idx_src = idx[1]
            elif is_call(idx, 'builtins.int') and idx[2][0][0] == 'elem':
                idx_src = idx[2][0][1]
            else:
                idx_src = idx
            am = argmax_source(inline_globals(repo, idx_src))     # small index helpers
            want = ('attr', q, 'alpha')
            ok = am is not None and am[0] == want and \
                (am[1] == 0 if per_channel else am[1] in (None, 0))
            ctx.ob('R10a', f'{ci.name}.{g.name}[{lblp}]', ok,
                   f'arg-max (dim {am[1]}) of {short(want, 50)}' if ok else
                   f'selection index is {short(idx_src, 120)}: expected the arg-max along dim 0 '
                   f'of {short(want, 50)} — the coefficients the eval-mode sampler turns into a '
                   f'one-hot', where(g))
            index_terms[(ci.name, role, lblp, kind)] = idx_src
    # precision / quantizer pairs use identical index expressions
    for (cn, role, lblp, kind), t in sorted(index_terms.items()):
        if kind != 'precision':
            continue
        other = index_terms.get((cn, role, lblp, 'quantizer'))
        if other is None:
            continue
        ctx.ob('R10a', f'{cn} selected_{role}_* pair[{lblp}]', other == t,
               'reported precision and exported quantizer share the index' if other == t else
               f'summary selects with {short(t, 80)} but export with {short(other, 80)}',
               repo.cls(cn).where, nontrivial=False)
    # SuperNet winner
    comb = repo.cls('SuperNetCombiner')
    b = comb.methods.get('best_layer_index')
    if b is None:
        raise AnalysisError('SuperNetCombiner.best_layer_index not found')
    for p in returning(paths(repo, b)):
        am = argmax_source(p.retval)
        ok = am is not None and am[0] == ('attr', SELF, 'alpha') and am[1] in (None, 0)
        ctx.ob('R10a', 'SuperNetCombiner.best_layer_index', ok,
               'arg-max of the raw alpha' if ok else
               f'winner is {short(p.retval)}: expected the arg-max of self.alpha', where(b))


def theta_stores(ctx, ci: ClassInfo):
    """(function, path, event index, value with attribute reads resolved)."""
    out = []
    family = [c for c in ctx.repo.classes.values() if ctx.repo.is_subclass(c, ci.qualname)]
    seen = set()
    for c in family:
        for fn in list(c.methods.values()):
            for p in paths(ctx.repo, fn):
                for i, e in enumerate(p.events):
                    if e.kind == 'setattr' and e.data[0] == SELF and e.data[1] == 'theta_alpha':
                        key = (fn.qualname, getattr(e.node, 'lineno', 0),
                               tuple((show(a), v) for a, v in guards_of(p, e)))
                        if key in seen:
                            continue
                        seen.add(key)
                        out.append((fn, p, i, e, resolve_stores(p, i, e.data[2])))
    return out


def r10b(ctx):
    repo = ctx.repo
    n = 0
    for ci in sampler_classes(ctx):
        for fn, p, i, e, val in theta_stores(ctx, ci):
            if fn.name == '__init__':
                ctx.ob('R10b', f'{fn.cls.name}.__init__ initialises theta_alpha', True,
                       'constructor initialisation (overwritten by the initial sampling / first '
                       'forward)', where(fn, e.node), nontrivial=False)
                continue
            n += 1
            if e.data[2] == ('attr', SELF, 'theta_alpha'):
                # save/restore idiom: a value read from theta_alpha earlier is written back
                ctx.ob('R10b', f'{fn.cls.name}.{fn.name} restores theta_alpha', True,
                       'writes back the coefficients saved before', where(fn, e.node),
                       nontrivial=False)
                continue
            kind = is_prob(val)
            if kind is None:
                oh = onehot_source(repo, val)
                if oh is not None:
                    src, dim, chain = oh
                    # the arg-max source must itself be a PROB of alpha (or alpha itself)
                    base_ok = src == ('attr', SELF, 'alpha') and dim == 0
                    kind = 'one-hot of arg-max' if base_ok else None
            else:
                logits = val[2][0] if val[2] else arg(val, None, 'logits')
                from ..sellib import order_preserving_source
                src, _ = order_preserving_source(logits, 0)
                if src != ('attr', SELF, 'alpha'):
                    kind = None
            g = ', '.join(f'{short(a, 40)}={v}' for a, v in guards_of(p, e)) or 'always'
            ctx.ob('R10b', f'{fn.cls.name}.{fn.name} stores theta_alpha [{g}]', kind is not None,
                   f'{kind} of alpha along dim 0' if kind else
                   f'theta_alpha = {short(val, 200)} is neither softmax/gumbel_softmax(alpha, '
                   f'dim=0) nor the one-hot of its arg-max: the sampled coefficients would not '
                   f'be a probability vector located at the largest raw coefficient',
                   where(fn, e.node))
    ctx.floor('R10b', 'theta_alpha stores', n, 6)
    # sample_alpha_none writes nothing
    base = repo.cls('MPSBaseQtz')
    sn = base.methods.get('sample_alpha_none')
    if sn is not None:
        wr = [e for p in paths(repo, sn) for e in p.events if e.kind in ('setattr', 'setitem')]
        ctx.ob('R10b', 'MPSBaseQtz.sample_alpha_none writes nothing', not wr,
               'disable_sampling leaves the coefficients untouched' if not wr else
               'sample_alpha_none modifies state', where(sn), nontrivial=False)


def sampler_worlds(ctx, ci: ClassInfo, fn: FunctionInfo, depth: int = 0):
    """For a sampler method: list of (assumptions, kind) where kind describes the coefficients
    left in theta_alpha at the end of the path: 'onehot', 'soft', 'gumbel' (one-hot iff the
    hard flag), or 'untouched'.  Calls of another sampler of the same object are followed."""
    repo = ctx.repo
    out = []
    for p in returning(paths(repo, fn)):
        kind = 'untouched'
        subs = [([], 'untouched')]
        for i, e in enumerate(p.events):
            if e.kind == 'setattr' and e.data[0] == SELF and e.data[1] == 'theta_alpha':
                v = resolve_stores(p, i, e.data[2])
                if onehot_source(repo, v) is not None:
                    kind = 'onehot'
                elif is_call(v, 'torch.nn.functional.gumbel_softmax'):
                    h = arg(v, 2, 'hard')
                    kind = 'gumbel' if h == ('attr', SELF, 'hard_softmax') else (
                        'onehot' if h == ('const', True) else 'soft')
                elif is_prob(v) is not None:
                    kind = 'soft'
                else:
                    kind = 'other'
                subs = [([], kind)]
            elif e.kind == 'call' and method_call(e.data[0]) and \
                    method_call(e.data[0])[0] == SELF and \
                    method_call(e.data[0])[1].startswith('sample_alpha') and depth < 2:
                tgt = repo.find_method(ci, method_call(e.data[0])[1])
                if tgt is not None and tgt is not fn:
                    subs = sampler_worlds(ctx, ci, tgt, depth + 1)
        for a2, k2 in subs:
            out.append((list(p.assumptions) + list(a2), k2))
    return out


def r10c(ctx):
    """Truth table over (hard_softmax, training) of what each sampler leaves in theta_alpha:
    softmax sampler: one-hot iff hard or eval;  Gumbel sampler: in training one-hot iff hard,
    in eval one-hot always (the noise-free arg-max)."""
    repo = ctx.repo
    hard = ('attr', SELF, 'hard_softmax')
    training = ('attr', SELF, 'training')
    for ci in sampler_classes(ctx):
        for sname in ('sample_alpha_sm', 'sample_alpha_gs'):
            fn = ci.methods.get(sname)
            if fn is None:
                raise AnalysisError(f'{ci.name}.{sname} not found')
            worlds = sampler_worlds(ctx, ci, fn)
            table: Dict[Tuple[bool, bool], set] = {}
            for assum, kind in worlds:
                known = {a: v for a, v in assum}
                for h in (True, False):
                    for tr in (True, False):
                        if consistent(known, hard, training, h, tr):
                            k = kind
                            if kind == 'gumbel':
                                k = 'onehot' if h else 'soft'
                            table.setdefault((h, tr), set()).add(k)
            if len(table) != 4:
                raise AnalysisError(f'{ci.name}.{sname}: could not enumerate the four '
                                    f'(hard, training) worlds')
            for (h, tr), kinds in sorted(table.items()):
                want = 'onehot' if (h or not tr) else 'soft'
                ok = kinds == {want}
                ctx.ob('R10c', f'{ci.name}.{sname} one-hot when hard={h}, training={tr}', ok,
                       f'coefficients are {want}' if ok else
                       f'with hard_softmax={h} and training={tr} {sname} leaves '
                       f'{"/".join(sorted(kinds))} coefficients (expected {want}): the model '
                       f'evaluates something else than the arg-max that summary() reports and '
                       f'export() materialises', where(fn))


def consistent(known: Dict[Term, bool], hard: Term, training: Term, h: bool, tr: bool) -> bool:
    for a, v in known.items():
        if a == hard and v != h:
            return False
        if a == training and v != tr:
            return False
        if a[0] == 'bool' and a[1] == 'or':
            # (hard or (not training))
            val = False
            und = False
            for x in a[2]:
                if x == hard:
                    val = val or h
                elif x == ('un', 'not', training):
                    val = val or (not tr)
                elif x == training:
                    val = val or tr
                else:
                    und = True
            if not und and val != v:
                return False
    return True


def r10f(ctx, rule='R10f'):
    """What export materialises is chosen from the raw coefficients only: the sampled
    coefficients (theta_alpha) are whatever the last forward pass left -- stale after an
    optimiser step or a load, noisy after a Gumbel training pass, not refreshed at all when
    sampling is disabled -- so the export of a layer (and the selected_* properties summary
    reports from) must not read them."""
    repo = ctx.repo
    n = 0
    for ci in mps_layer_classes(ctx):
        exp = repo.find_method(ci, 'export')
        if exp is None:
            continue
        n += 1
        reads = []
        for p in paths(repo, exp):
            for e in p.events:
                for d in e.data:
                    if isinstance(d, tuple) and mentions(
                            d, lambda x: x[0] == 'attr' and x[2] == 'theta_alpha'):
                        ln = getattr(e.node, 'lineno', 0)
                        if ln not in reads:
                            reads.append(ln)
        ctx.ob(rule, f'{ci.name}.export selects from the raw coefficients', not reads,
               'export does not read theta_alpha' if not reads else
               f'export reads the sampled coefficients theta_alpha (line(s) {reads[:3]}): what is '
               f'exported is the arg-max of the last sample, while summary() reports the arg-max '
               f'of alpha; they differ whenever the sample is stale (disable_sampling, '
               f'coefficients set or loaded after the last forward, Gumbel noise)', where(exp))
    ctx.floor(rule, 'MPS layer export methods', n, 4)


def r10d(ctx):
    """The sampler options reach every quantizer / combiner in their own slot: a layer that
    forwards update_softmax_options must not exchange hard / gumbel / ... on the way."""
    from .c11 import forwarding_ok
    repo = ctx.repo
    n = 0
    for fn in repo.all_functions():
        if fn.name != 'update_softmax_options' or fn.cls is None:
            continue
        seen = set()
        for p in paths(repo, fn):
            for e in p.calls():
                t = e.data[0]
                mc = method_call(t)
                if mc and mc[1] == 'update_softmax_options' and show(t) not in seen:
                    seen.add(show(t))
                    n += 1
                    ok, why = forwarding_ok(ctx, fn, t, p)
                    ctx.ob('R10d', f'{fn.cls.name}.update_softmax_options -> {short(mc[0], 40)}',
                           ok, 'options forwarded slot by slot' if ok else
                           f'{why}: the quantizer is configured with another option than the one '
                           f'the user set, so what is sampled differs from what summary()/export() '
                           f'assume', where(fn, e.node))
    # constructor-originated calls: the constructor argument bound to slot k is named after it
    for fn in repo.all_functions():
        if fn.name != '__init__' or fn.cls is None:
            continue
        for p in returning(paths(repo, fn)):
            for e in p.calls():
                t = e.data[0]
                mc = method_call(t)
                if not (mc and mc[1] == 'update_softmax_options' and mc[0] == SELF):
                    continue
                target = repo.find_method(fn.cls, 'update_softmax_options')
                if target is None:
                    continue
                ps = target.params[1:]
                bad = []
                for i, a in enumerate(mc[2]):
                    if a[0] == 'param' and i < len(ps) and ps[i] not in a[1]:
                        bad.append(f'slot {ps[i]} receives constructor argument {a[1]}')
                for k, a in mc[3]:
                    if a[0] == 'param' and k not in a[1]:
                        bad.append(f'slot {k} receives constructor argument {a[1]}')
                n += 1
                ctx.ob('R10d', f'{fn.cls.name}.__init__ -> update_softmax_options', not bad,
                       'constructor options bound to the slots of the same name' if not bad else
                       '; '.join(bad), where(fn, e.node))
    ctx.floor('R10d', 'option forwarding calls', n, 8)


SAMPLER_OPTIONS = {'gumbel_softmax', 'hard_softmax', 'softmax_temperature', 'temperature',
                   'disable_sampling', 'hard', 'gumbel'}


def ctor_option_passthrough(ctx, rule: str):
    """Sampler options given at construction: a function that takes a sampler option (hard /
    gumbel / temperature / disable_sampling, under any of the library's names) and builds or
    calls something with a parameter of the same name hands the option over unchanged -- not
    another option, not a combination with another option (``gumbel and hard`` silently turns a
    requested hard SoftMax into a soft one)."""
    repo = ctx.repo
    n = 0
    for fn in repo.all_functions():
        own = set(fn.params) & SAMPLER_OPTIONS
        if not own:
            continue
        seen = set()
        for p in paths(repo, fn):
            for e in p.calls():
                t = e.data[0]
                c = callee(t)
                if c in repo.classes:
                    tgt, off = repo.find_method(repo.classes[c], '__init__'), 1
                elif c in repo.functions:
                    tgt, off = repo.functions[c], 0
                else:
                    continue
                if tgt is None:
                    continue
                b = bind_args(t, tgt.params[off:])
                for k in sorted(set(b) & own):
                    key = (c, k, b[k])
                    if key in seen:
                        continue
                    seen.add(key)
                    n += 1
                    ok = b[k] == ('param', k)
                    ctx.ob(rule, f'{fn.cls.name + "." if fn.cls else ""}{fn.name} -> '
                           f'{c.rsplit(".", 1)[-1]}({k}=...)', ok,
                           f'{k} handed over unchanged' if ok else
                           f'the {k} option of {fn.name} reaches {c.rsplit(".", 1)[-1]} as '
                           f'{short(b[k], 80)}: the object is configured with another setting than '
                           f'the one requested, so what is sampled (and priced) differs from the '
                           f'one-hot selection that summary() / export() assume',
                           where(fn, e.node))
    ctx.floor(rule, 'option hand-over sites', n, 2)


def r10e(ctx):
    """The mode the samplers test belongs to the caller.  The eval-mode one-hot and the
    training-mode Gumbel noise are selected by ``self.training``; a method of a sampler-bearing
    class (or of a layer that owns one) that switches the mode itself — self.train() /
    self.eval() / self.training = ... — must put back the value it found, otherwise a later
    "eval" forward samples in training mode (or the reverse)."""
    repo = ctx.repo
    n = 0
    classes = []
    for base in sampler_classes(ctx):
        classes += [c for c in repo.subclasses(base) if c not in classes]
    for ci in classes:
        for name, f in sorted(ci.methods.items()):
            if name in ('__init__', 'train', 'eval'):
                continue
            for p in returning(paths(repo, f)):
                switches = []
                for i, e in enumerate(p.events):
                    mc = method_call(e.data[0]) if e.kind == 'call' else None
                    if mc and mc[0] == SELF and mc[1] in ('train', 'eval'):
                        mode = ('const', False) if mc[1] == 'eval' else (
                            mc[2][0] if mc[2] else arg(e.data[0], None, 'mode') or ('const', True))
                        switches.append((i, e, mode))
                    if e.kind == 'setattr' and e.data[0] == SELF and e.data[1] == 'training':
                        switches.append((i, e, e.data[2]))
                if not switches:
                    continue
                n += 1
                last = switches[-1]
                # restored iff the last switch writes back self.training as read before the
                # first switch (the evaluator keeps the read symbolic: the term is the attribute)
                restored = last[2] == ('attr', SELF, 'training')
                ctx.ob('R10e', f'{ci.name}.{name} leaves the sampling mode as found', restored,
                       'the mode found on entry is written back' if restored else
                       f'{ci.name}.{name} ends with {short(last[1].data[0], 50)} whatever mode it '
                       f'was called in: after model.eval(); {name}() the object is '
                       f'{"in training mode" if last[2] == ("const", True) else "left in another mode"}'
                       f', so the next eval-mode forward samples with the training rule (Gumbel '
                       f'noise / soft coefficients) and no longer evaluates the arg-max that '
                       f'summary() and export() report', where(f, last[1].node))
    if n == 0:
        ctx.ob('R10e', 'no sampler-bearing class switches its own mode', True,
               'train()/eval() are only ever called by the user of the model',
               repo.cls('SuperNetCombiner').where, nontrivial=False)


def run(ctx):
    r10e(ctx)
    r10a(ctx)
    r10b(ctx)
    r10c(ctx)
    r10d(ctx)
    ctor_option_passthrough(ctx, 'R10d')
    r10f(ctx)
    ctx.assume('temperature > 0 (division by it and softmax along dim 0 preserve the arg-max); no '
               'ties among coefficients')
    ctx.assume('F.softmax / F.gumbel_softmax along dim 0 return non-negative vectors summing to '
               'one along dim 0 (per channel for matrices)')


MANIFEST = {
    'text': 'For every coefficient vector without ties and every positive temperature: all '
            'readers used by summary()/export() and the eval-mode sampler select the arg-max '
            'along dim 0 of the same alpha; every store to theta_alpha is softmax/gumbel_softmax '
            'of alpha along dim 0 or the one-hot of its arg-max; the one-hot branch is taken '
            'exactly under "hard or not training". Soft-max numerics at extreme temperatures and '
            'ties are not decided.',
    'note': 'Trusted: order preservation of x/T (T>0) and softmax; torch.argmax/one_hot semantics.',
    'technique': 'selection-source (arg-max provenance) dataflow + exhaustive enumeration of '
                 'theta_alpha writers + path-condition truth table',
}
