"""C05 — MPS cost equals the bit-cost of the selected assignment (structural clauses).

 R05a writer/reader key agreement between the spec dictionaries MPS layers hand to cost
      functions and the keys the registered cost functions read:
      (i)   every key read is written (vars of the torch base class, own attributes,
            get_modified_vars / get_cost overrides, output_shape);
      (ii)  the keys overwritten with *effective* feature counts are exactly the PyTorch
            attribute names of the layer type (in_channels/out_channels for convolutions,
            in_features/out_features for Linear);
      (iii) the precision keys are written by get_cost from the quantizers' precision.
 R05b weighting structure of get_cost: entry (i, j) = theta_in[i] * theta_w[j] *
      cost_fn(spec with precision_in[i], precision_w[j]); precision and coefficient come
      from the same zip of the same quantizer; per-channel coefficients are the channel
      mean of theta_alpha.
"""
from __future__ import annotations

from typing import Dict, List, Optional, Set, Tuple

from ..costlib import cost_specs, keys_read, layer_map, registrations_for
from ..model import AnalysisError, ClassInfo, FunctionInfo
from ..pitlib import storage_kinds
from ..sym import NONE, Term, mentions, show, subterms
from ..util import (SELF, arg, callee, is_call, method_call, paths, returning, short, where)

EXPLANATION = ('Writer/reader agreement of cost-specification keys, resolved through the torch '
               'base classes parsed from torch source, the registries mps_layer_map and the '
               'CostSpec registrations; def-use analysis of the weighting loop of get_cost. '
               'Decides the structural clauses for every architecture and coefficient value; '
               'the numeric identity (sum of weights x bits) is not computed.')
RULE_TEXT = ('obligation = (MPS layer class, cost spec, registered function, key) for R05a and '
             '(layer class, clause) for R05b; discovered from registries and registrations')

# cost specs whose key agreement is decided under another property (one line of reason each)
SCOPED_ELSEWHERE = {
    'diana_latency': 'the DIANA model is the default cost of ODiMO_MPS, which C12 names; C05 '
                     'quantifies over params_bit/ops_bit/mpic/ne16 (+ plain specs)',
}

PRECISION_KEYS = {'in_precision', 'w_precision', 'w_theta_alpha', 'in_format', 'w_format'}


def own_attrs(ctx, ci: ClassInfo) -> Set[str]:
    ks = set(storage_kinds(ctx.repo, ci))
    return ks


def written_by(ctx, fn: FunctionInfo, obj_pred) -> Dict[str, List[Term]]:
    """constant keys stored with ``obj[key] = value`` in a method, on objects accepted by
    obj_pred, with the values written."""
    out: Dict[str, List[Term]] = {}
    for p in paths(ctx.repo, fn):
        for e in p.events:
            if e.kind == 'setitem' and e.data[1][0] == 'const' and obj_pred(e.data[0]):
                out.setdefault(e.data[1][1], []).append(e.data[2])
            elif e.kind == 'call':
                # obj.update({k: v}) / obj.update(k=v)
                mc = method_call(e.data[0])
                if mc and mc[1] == 'update' and obj_pred(mc[0]):
                    if mc[2] and mc[2][0][0] == 'dict':
                        for k, v in mc[2][0][1]:
                            if k[0] == 'const':
                                out.setdefault(k[1], []).append(v)
                    for k, v in e.data[0][3]:
                        if k != '**':
                            out.setdefault(k, []).append(v)
        # keys of a returned literal built around **vars(self)
        if p.status == 'return' and p.retval is not None and obj_pred(p.retval):
            for k, v in literal_overrides(p.retval).items():
                out.setdefault(k, []).append(v)
    return out


def _is_vars_self(t: Term) -> bool:
    return (is_call(t, 'builtins.vars') and t[2] == (SELF,)) or \
        (t[0] == 'attr' and t[1] == SELF and t[2] == '__dict__')


def is_vars_copy(t: Term) -> bool:
    """A fresh dictionary initialised from the layer attributes: dict(vars(self)),
    vars(self).copy(), copy.copy(vars(self)) or a literal {..., **vars(self), ...}."""
    if is_call(t, 'builtins.dict') and len(t[2]) == 1 and _is_vars_self(t[2][0]):
        return True
    if is_call(t, 'copy.copy') and len(t[2]) == 1 and _is_vars_self(t[2][0]):
        return True
    mc = method_call(t)
    if mc and mc[1] == 'copy' and _is_vars_self(mc[0]):
        return True
    if t[0] == 'dict' and any(k == ('starstar',) and (_is_vars_self(v) or is_vars_copy(v))
                              for k, v in t[1]):
        return True
    return False


def literal_overrides(t: Term) -> Dict[str, Term]:
    """Constant keys of a literal {.., **vars(self), ..} that survive: entries written AFTER
    the splat override the layer attributes, entries before it are overwritten by them (every
    key of interest is an attribute of the layer)."""
    out: Dict[str, Term] = {}
    if t[0] != 'dict':
        return out
    for k, v in t[1]:
        if k == ('starstar',):
            if _is_vars_self(v) or is_vars_copy(v):
                out.clear()
                if v[0] == 'dict':
                    out.update(literal_overrides(v))
            continue
        if k[0] == 'const':
            out[k[1]] = v
    return out


def is_modified_vars(t: Term) -> bool:
    mc = method_call(t)
    return bool(mc and mc[0] == SELF and mc[1] == 'get_modified_vars')


def torch_name(layer_type: str) -> str:
    return layer_type.split('.')[-1]


def r05a(ctx):
    repo = ctx.repo
    specs = cost_specs(repo)
    ctx.floor('R05a', 'cost registrations', sum(len(s.regs) for s in specs.values()), 48)
    mmap = layer_map(repo, 'mps_layer_map')
    ctx.floor('R05a', 'mps_layer_map entries', len(mmap), 3)
    tf = ctx.torch
    n_pairs = 0
    for ltype, ci in sorted(mmap.items()):
        tname = torch_name(ltype)
        gmv = repo.find_method(ci, 'get_modified_vars')
        gc = repo.find_method(ci, 'get_cost')
        if gmv is None or gc is None:
            raise AnalysisError(f'{ci.name}: get_modified_vars/get_cost not found')
        # the object written by get_modified_vars must be a fresh copy of vars(self)
        base_ok = all(is_vars_copy(p.retval) for p in returning(paths(repo, gmv)))
        ctx.ob('R05a', f'{ci.name}.get_modified_vars returns dict(vars(self))', base_ok,
               'fresh copy of the layer attributes' if base_ok else
               'the spec is not a fresh dict(vars(self))', where(gmv), nontrivial=False)
        w_mod = written_by(ctx, gmv, is_vars_copy)
        w_cost = written_by(ctx, gc, is_modified_vars)
        # v.update(out_shape): the shapes dict carries output_shape
        upd = any(method_call(e.data[0]) and method_call(e.data[0])[1] == 'update' and
                  is_modified_vars(method_call(e.data[0])[0]) and
                  method_call(e.data[0])[2] == (('param', gc.params[2]),)
                  for p in paths(repo, gc) for e in p.calls())
        shapes = shapes_dict_keys(ctx)
        written = set(tf.instance_attrs(tname)) | own_attrs(ctx, ci) | set(w_mod) | set(w_cost)
        if upd:
            written |= shapes
        # (ii) effective-size keys
        eff_keys = {k for k, vals in w_mod.items()
                    if any(mentions(v, lambda x: x == ('attr', SELF, 'out_features_eff') or
                                    x == ('attr', ('attr', SELF, 'input_features_calculator'),
                                          'features')) for v in vals)}
        pos = tf.init_positional(tname)
        want = set(pos[:2])
        ctx.ob('R05a', f'{ci.name}.get_modified_vars effective-size keys', eff_keys == want,
               f'effective sizes written under {sorted(want)} (attribute names of nn.{tname})'
               if eff_keys == want else
               f'effective input/output sizes are written under {sorted(eff_keys)} but the cost '
               f'functions registered for nn.{tname} read the PyTorch names {sorted(want)}: the '
               f'cost of this layer ignores pruning of its producer / its own channels',
               where(gmv))
        # in -> input_features_calculator.features, out -> out_features_eff
        for k, src in ((pos[0], ('attr', ('attr', SELF, 'input_features_calculator'), 'features')),
                       (pos[1], ('attr', SELF, 'out_features_eff'))):
            vals = w_mod.get(k, [])
            ok = bool(vals) and all(mentions(v, lambda x, src=src: x == src) for v in vals)
            ctx.ob('R05a', f'{ci.name}.get_modified_vars[{k}]', ok,
                   f'{k} <- {short(src, 60)}' if ok else
                   f'{k} is {[short(v, 60) for v in vals] or "not written"}, expected a value '
                   f'derived from {short(src, 60)}', where(gmv))
        # (iii) precision keys
        for k in ('in_precision', 'w_precision', 'w_theta_alpha'):
            ctx.ob('R05a', f'{ci.name}.get_cost writes {k}', k in w_cost,
                   f'{k} written before calling the cost function' if k in w_cost else
                   f'{k} is never written into the spec', where(gc), nontrivial=False)
        # (i) readers
        for reg in registrations_for(specs, ltype):
            if reg.spec in SCOPED_ELSEWHERE:
                continue
            problems: List[str] = []
            reads = keys_read(repo, reg.fn, None, problems)
            if reg.constraint is not None:
                for k, v in keys_read(repo, reg.constraint, None, problems).items():
                    reads.setdefault(k, []).extend(v)
            n_pairs += 1
            missing = sorted(set(reads) - written)
            ctx.ob('R05a', f'{ci.name} x {reg.spec}[{reg.pattern}] keys' +
                   (f' unwritten={",".join(missing)}' if missing else ''), not missing,
                   f'{len(reads)} keys read, all written' if not missing else
                   f'{reg.fn.name} reads {missing}, which no MPS {tname} layer writes into the '
                   f'spec (KeyError when this cost model is used with MPS)',
                   f'{reg.module.relpath}:{reg.fn.node.lineno}', missing=missing)
            for pr in problems:
                ctx.ob('R05a', f'{reg.spec}[{reg.pattern}] re-keyed spec', False, pr,
                       f'{reg.module.relpath}:{reg.fn.node.lineno}')
    ctx.floor('R05a', 'layer x registration pairs', n_pairs, 30)


def shapes_dict_keys(ctx) -> Set[str]:
    fn = ctx.repo.fn('shapes_dict')
    ks = set()
    for p in paths(ctx.repo, fn):
        for e in p.events:
            if e.kind == 'setitem' and e.data[1][0] == 'const':
                ks.add(e.data[1][1])
        r = p.retval
        if p.status == 'return' and r is not None:
            if r[0] == 'dict':                      # {'k': v, ...}
                ks |= {k[1] for k, _ in r[1] if k[0] == 'const'}
            if is_call(r, 'builtins.dict'):         # dict(k=v, ...)
                ks |= {k for k, _ in r[3] if k != '**'}
    if not ks:
        raise AnalysisError('shapes_dict writes no key')
    return ks


def r05b(ctx):
    repo = ctx.repo
    mmap = layer_map(repo, 'mps_layer_map')
    for ltype, ci in sorted(mmap.items()):
        gc = repo.find_method(ci, 'get_cost')
        stores = []
        for p in returning(paths(repo, gc)):
            for e in p.events:
                if e.kind == 'setitem' and not is_modified_vars(e.data[0]) and \
                        mentions(e.data[2], lambda x: x[0] == 'call' and
                                 x[1] == ('param', gc.params[1])):
                    stores.append((p, e))
        if not stores:
            raise AnalysisError(f'{ci.name}.get_cost: weighted cost store not found')
        for p, e in stores:
            val = e.data[2]
            facs = factors(val)
            costcall = [f for f in facs if f[0] == 'call' and f[1] == ('param', gc.params[1])]
            others = [f for f in facs if f not in costcall]
            kind = 'per-layer' if any('MPSPerLayerQtz' in show(a) and v for a, v in p.assumptions) \
                else 'per-channel'
            # the two coefficient factors: second component of a zip element
            zips = [zip_of(f) for f in others]
            ok_shape = len(costcall) == 1 and len(others) == 2 and all(z is not None for z in zips)
            lbl = f'{ci.name}.get_cost[{kind}]'
            if not ok_shape:
                ctx.ob('R05b', f'{lbl} weighting', False,
                       f'cost entry is {short(val, 200)}: expected theta_in * theta_w * '
                       f'cost_fn(spec)', where(gc, e.node))
                continue
            (za, ia), (zb, ib) = zips
            roles = {}
            for z, idx in ((za, ia), (zb, ib)):
                q = quantizer_of(z[0])
                roles[q] = (z, idx)
            ok_pair = set(roles) == {'in_mps_quantizer', 'w_mps_quantizer'} and \
                all(idx == 1 for _, idx in roles.values())
            ctx.ob('R05b', f'{lbl} weighting', ok_pair,
                   'theta_in[i] * theta_w[j] * cost_fn(spec)' if ok_pair else
                   f'coefficient factors come from {sorted(roles)} components '
                   f'{[i for _, i in roles.values()]}', where(gc, e.node))
            if not ok_pair:
                continue
            # zip pairs precision with theta_alpha of the same quantizer
            zin, zw = roles['in_mps_quantizer'][0], roles['w_mps_quantizer'][0]
            ok_in = zin[1] == ('attr', ('attr', SELF, 'in_mps_quantizer'), 'theta_alpha') and \
                zin[0] == ('attr', ('attr', SELF, 'in_mps_quantizer'), 'precision')
            ctx.ob('R05b', f'{lbl} input pairing', ok_in,
                   'precision[i] paired with theta_alpha[i] of the input quantizer' if ok_in else
                   f'input loop zips {short(zin[0], 60)} with {short(zin[1], 60)}',
                   where(gc, e.node))
            wq = ('attr', SELF, 'w_mps_quantizer')
            if kind == 'per-layer':
                want_w = ('attr', wq, 'theta_alpha')
                ok_w = zw[1] == want_w
            else:
                ok_w = method_call(zw[1]) is not None and method_call(zw[1])[1] == 'mean' and \
                    method_call(zw[1])[0] == ('attr', wq, 'theta_alpha') and \
                    arg(zw[1], 0, 'dim') == ('const', 1)
            ok_w = ok_w and zw[0] == ('attr', wq, 'precision')
            ctx.ob('R05b', f'{lbl} weight pairing', ok_w,
                   'precision[j] paired with the (channel-mean of) theta_alpha[j] of the weight '
                   'quantizer' if ok_w else
                   f'weight loop zips {short(zw[0], 60)} with {short(zw[1], 80)}',
                   where(gc, e.node))
            # the entry is filed at [index of the input loop][index of the weight loop]: the
            # matrix is allocated (input precisions) x (weight precisions)
            def enum_zip(t):
                if t[0] == 'sub' and t[2] == ('const', 0) and t[1][0] == 'elem' and \
                        is_call(t[1][1], 'builtins.enumerate') and t[1][1][2] and \
                        is_call(t[1][1][2][0], 'builtins.zip'):
                    return tuple(t[1][1][2][0][2])
                return None
            tgt, col = e.data[0], e.data[1]
            if tgt[0] == 'sub':
                zr, zc = enum_zip(tgt[2]), enum_zip(col)
                if zr is not None and zc is not None:
                    ok_idx = zr == tuple(zin) and zc == tuple(zw)
                    ctx.ob('R05b', f'{lbl} entry position', ok_idx,
                           'cost[i][j]: row = input precision, column = weight precision'
                           if ok_idx else
                           f'the entry is stored at [{short(tgt[2], 40)}][{short(col, 40)}]: row '
                           f'and column do not follow the (input, weight) loops the matrix is '
                           f'allocated for (transposed: out of range or mis-reduced when the two '
                           f'precision sets differ in size)', where(gc, e.node))
            # spec precision keys use component 0 of the same zips
            spec_w = {}
            for e2 in p.events:
                if e2.kind == 'setitem' and is_modified_vars(e2.data[0]) and \
                        e2.data[1][0] == 'const':
                    spec_w[e2.data[1][1]] = e2.data[2]
            exp = {'in_precision': (zin, 0), 'w_precision': (zw, 0), 'w_theta_alpha': (zw, 1)}
            for k, (z, idx) in exp.items():
                v = spec_w.get(k)
                zz = zip_of(v) if v is not None else None
                okk = zz is not None and zz[0] == z and zz[1] == idx
                ctx.ob('R05b', f'{lbl} spec[{k}]', okk,
                       f'{k} is the element the coefficient is paired with' if okk else
                       f'spec[{k}] = {short(v, 80) if v else None}: not component {idx} of the '
                       f'same loop element as its coefficient', where(gc, e.node))
            # the spec passed to cost_fn is the one that was filled
            okarg = costcall[0][2] and is_modified_vars(costcall[0][2][0])
            ctx.ob('R05b', f'{lbl} cost_fn argument', bool(okarg),
                   'cost_fn receives the modified vars' if okarg else
                   f'cost_fn is called with {short(costcall[0], 80)}', where(gc, e.node),
                   nontrivial=False)


def factors(t: Term) -> List[Term]:
    if t[0] == 'bin' and t[1] == '*':
        return factors(t[2]) + factors(t[3])
    if is_call(t, 'torch.mul') and len(t[2]) == 2:
        return factors(t[2][0]) + factors(t[2][1])
    return [t]


def zip_of(t: Optional[Term]):
    """If t is component k of an element of ``[enumerate(]zip(a, b)[)]``: ((a, b), k)."""
    if t is None or t[0] != 'sub' or t[2][0] != 'const':
        return None
    k = t[2][1]
    el = t[1]
    # strip the enumerate layer: sub(elem(enumerate(zip)), 1)
    if el[0] == 'sub' and el[2] == ('const', 1) and el[1][0] == 'elem' and \
            is_call(el[1][1], 'builtins.enumerate'):
        z = el[1][1][2][0]
    elif el[0] == 'elem':
        z = el[1]
    else:
        return None
    if is_call(z, 'builtins.zip') and len(z[2]) == 2:
        return (z[2][0], z[2][1]), k
    return None


def quantizer_of(t: Term) -> Optional[str]:
    for x in subterms(t):
        if x[0] == 'attr' and x[1] == SELF and x[2].endswith('_mps_quantizer'):
            return x[2]
    return None


def r05c(ctx):
    """Premise of C05: "hard-sampling mode" must really make every quantizer's coefficients a
    one-hot.  Imported from C10: the hard branch of the MPS sampler (R10c) and the slot-by-slot
    forwarding of the sampling options down to every quantizer (R10d)."""
    from . import c10
    before = len(ctx.obligations)
    c10.r10c(ctx)
    c10.r10d(ctx)
    keep = []
    for o in ctx.obligations[before:]:
        if 'SuperNet' in o.construct:
            continue            # C05 is about MPS
        o.rule = 'R05c'
        keep.append(o)
    ctx.obligations[before:] = keep


def run(ctx):
    from .c06 import memo_rule
    memo_rule(ctx, 'R05d', 'MPS._get_single_cost',
              ctx.repo.cls('MPS').methods['_get_single_cost'], 1, 2)
    from .c04 import accumulation_rule, leaf_lists_rule, lookup_key_rule, uniquify_rule
    uniquify_rule(ctx, 'R05f')
    lookup_key_rule(ctx, 'R05g', 'MPS')
    # the lookup answers with the function of the pattern the layer satisfies (C15's rules on
    # the built-in constraints, shared)
    from . import c15
    before = len(ctx.obligations)
    c15.r15d(ctx)
    c15.r15f(ctx)
    for o in ctx.obligations[before:]:
        o.rule = 'R05j'
    leaf_lists_rule(ctx, 'R05f', 'MPS')
    accumulation_rule(ctx, 'R05e', 'MPS._get_single_cost',
                      ctx.repo.cls('MPS').methods['_get_single_cost'])
    from .c04 import call_site_rule
    call_site_rule(ctx, 'R05e', 'MPS._get_single_cost',
                   ctx.repo.cls('MPS').methods['_get_single_cost'])
    r05a(ctx)
    r05b(ctx)
    r05c(ctx)
    # premise of 'hard-sampling mode': the request reaches every quantizer through its owner
    from .c11 import options_reach_owned_quantizers
    options_reach_owned_quantizers(ctx, 'R05c')
    # the spec values are handed out by reference: no cost function updates them in place
    from . import c12
    c12.r12b(ctx, rule='R05i')
    ctx.assume('vars(layer) contains the attributes assigned by the __init__ chain of the torch '
               'base class (parsed from torch source) and by the repository class')


MANIFEST = {
    'text': 'Writer/reader agreement of spec keys for every (MPS layer type, cost spec, pattern): '
            'each key a registered cost function reads is written, effective sizes are written '
            'under the PyTorch attribute names of the layer type, precisions come from the '
            'quantizer the coefficient belongs to; the weighting loop multiplies theta_in[i] * '
            'theta_w[j] * cost_fn(spec[i,j]). The numeric identity with sum(weights x bits) is '
            'not computed. A non-shared metric charges every call site with its own shapes (no contribution read back from a memo another iteration filled).',
    'note': 'Trusted: attribute names of nn.Conv1d/Conv2d/Linear/Module read from torch source; '
            'key reads are collected syntactically and through helper calls that receive the '
            'same spec object.',
    'technique': 'writer/reader table agreement over resolved registries + def-use analysis of '
                 'the weighting loop',
}
