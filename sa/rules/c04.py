"""C04 — PIT cost equals the cost of the network export would produce (structural clauses).

 R04a dual view: every hyper-parameter that export passes as a searched value is overridden
      in the cost spec under the torch attribute name, with a value that bottoms out in the
      same private mask function as the exported value; ``discrete_cost`` is the only
      difference (``*_eff = sum(mask(self.discrete_cost))`` vs ``*_opt = sum(mask(True))``).
      The continuous branch of the mask functions reads the same masker theta; the features
      calculator attached to a PIT layer pairs the (eff, mask) views of that same layer.
 R04b bias predicate: size/ops cost functions count the bias iff
      ``spec['_parameters']['bias'] is not None`` — the object export tests.
 R04c shared vs per-invocation: each _get_single_cost iterates the unique list iff
      ``cost_spec.shared`` (sibling agreement PIT / MPS / SuperNet / mps.utils).
 R04h the wrapper's two layer lists hold what their names say (every invocation / each layer
      once), followed through the tuple the conversion returns.
 R04d fresh spec and accumulation: searchable layers are charged through a fresh
      dict(vars(self)) updated with the node's shapes; every layer's cost is added; fixed
      layers are charged only under full_cost.
"""
from __future__ import annotations

import ast
from typing import Dict, List, Optional

from ..costlib import cost_specs, layer_map
from ..model import AnalysisError, ClassInfo
from ..pitlib import pit_layer_classes
from ..sym import NONE, Term, mentions, show, subterms
from ..util import (SELF, Inliner, arg, callee, guards_of, inline_globals, prior_assumes, is_call, method_call, paths, returning, short,
                    where)
from .c01 import _binarizer, layer_kind
from .c05 import is_vars_copy, written_by

EXPLANATION = ('Def-use agreement between the two views of each searched hyper-parameter (the '
               'value export materialises and the value the cost is charged for), of the bias '
               'predicate, and of the shared/per-invocation iteration in every _get_single_cost; '
               'decided for every architecture and mask value. Equality of the numbers is not '
               'computed.')
RULE_TEXT = ('obligation = (PIT layer class, hyper-parameter) / (cost function, bias term) / '
             '(wrapper, iteration clause); discovered from registries and class hierarchy')


def mask_call(fn_name: str, argterm: Term) -> Term:
    return ('call', ('attr', SELF, fn_name), (argterm,), ())


def _num(t):
    return t[1] if t[0] == 'const' and isinstance(t[1], (int, float)) and \
        not isinstance(t[1], bool) else None


def _subst(t, a, b):
    if t == a:
        return b
    if isinstance(t, tuple):
        return tuple(_subst(x, a, b) for x in t)
    return t


def _norm(t):
    """drop value-preserving wrappers (phi of identical alternatives, .float(), keyword vs
    positional discrete flag)"""
    if not isinstance(t, tuple):
        return t
    if t and t[0] == 'phi':
        alts = {_norm(x) for x in t[1]}
        if len(alts) == 1:
            return alts.pop()
        return ('phi', tuple(sorted(alts, key=repr)))
    return tuple(_norm(x) for x in t)


def r04a(ctx):
    repo = ctx.repo
    tf = ctx.torch
    n = 0
    dc = ('attr', SELF, 'discrete_cost')
    for ci in pit_layer_classes(repo):
        kind = layer_kind(ctx, ci)
        gmv = ci.methods.get('get_modified_vars')
        if gmv is None or kind is None:
            continue
        n += 1
        ok_copy = all(is_vars_copy(p.retval) for p in returning(paths(repo, gmv)))
        ctx.ob('R04d', f'{ci.name}.get_modified_vars returns dict(vars(self))', ok_copy,
               'fresh copy: charging a layer never writes into it' if ok_copy else
               'the cost spec is not a fresh dict(vars(self))', where(gmv))
        w = written_by(ctx, gmv, is_vars_copy)
        pos = tf.init_positional(kind)
        if kind.startswith('BatchNorm'):
            exp = {pos[0]: ('attr', SELF, 'out_features_opt')}
        else:
            exp = {pos[0]: ('attr', ('attr', SELF, 'input_features_calculator'), 'features'),
                   pos[1]: ('attr', SELF, 'out_features_eff')}
            if ci.getters.get('kernel_size_opt') is not None:
                exp['kernel_size'] = ('tuple', (('attr', SELF, 'k_eff'),))
        for k, want in exp.items():
            vals = w.get(k, [])
            ok = bool(vals) and all(v == want for v in vals)
            ctx.ob('R04a', f'{ci.name}.get_modified_vars[{k}]', ok,
                   f'{k} <- {short(want, 60)}' if ok else
                   f'spec[{k}] is {[short(v, 60) for v in vals] or "not overridden"}: the cost '
                   f'would use the static {k} instead of {short(want, 60)}, the effective value '
                   f'that export materialises', where(gmv))
        extra = sorted(set(w) - set(exp) - {'dilation'})
        ctx.ob('R04a', f'{ci.name}.get_modified_vars overrides only searched keys', not extra,
               'no other key overridden' if not extra else f'also overrides {extra}', where(gmv),
               nontrivial=False)
        # eff getters: in both worlds of discrete_cost the effective size is the sum of the mask
        # function export counts, evaluated with discrete = discrete_cost.  Compared after
        # inlining properties / helper methods, so that equivalent spellings (reading the
        # public mask property in the discrete case, theta in the continuous one) are accepted.
        inl = Inliner(repo, {SELF: ci}, depth=4, skip={'theta', 'features', 'features_mask_'})
        for getter, maskfn in (('out_features_eff', '_features_mask'), ('k_eff', '_time_mask')):
            g = ci.getters.get(getter)
            if g is None or ci.methods.get(maskfn) is None:
                continue
            for D in (True, False):
                got = set()
                for p in returning(paths(repo, g)):
                    if any(a == dc and v is not D for a, v in p.assumptions):
                        continue
                    got.add(_norm(inl.expand(_subst(p.retval, dc, ('const', D)))))
                ref = _norm(inl.expand(('call', ('global', 'torch.sum'),
                                        (('call', ('attr', SELF, maskfn), (('const', D),), ()),),
                                        ())))
                ok = got == {ref}
                ctx.ob('R04a', f'{ci.name}.{getter} [discrete_cost={D}]', ok,
                       f'sum of {maskfn}({D})' if ok else
                       f'with discrete_cost={D}, {getter} evaluates to '
                       f'{[short(x, 120) for x in got]} but the mask export counts gives '
                       f'{short(ref, 120)}: the cost is charged for a size the exported layer '
                       f'does not have', where(g))
        # continuous branch of the mask functions reads the same theta
        fm = ci.methods.get('_features_mask')
        if fm is not None:
            for p in returning(paths(repo, fm, {'discrete': ('const', False)})):
                ok = p.retval == ('attr', ('attr', SELF, 'out_features_masker'), 'theta')
                ctx.ob('R04a', f'{ci.name}._features_mask(discrete=False)', ok,
                       'theta of the output-feature masker' if ok else
                       f'continuous mask is {short(p.retval)}', where(fm))
        tm = ci.methods.get('_time_mask')
        if tm is not None:
            for p in returning(paths(repo, tm, {'discrete': ('const', False)})):
                t = p.retval
                need = [('attr', ('attr', SELF, 'timestep_masker'), 'theta'),
                        ('attr', ('attr', SELF, 'dilation_masker'), 'theta'),
                        ('attr', SELF, '_beta_norm'), ('attr', SELF, '_gamma_norm')]
                miss = [short(x, 40) for x in need if not mentions(t, lambda y, x=x: y == x)]
                binz = mentions(t, lambda y: y == ('global', _binarizer(ctx)))
                ok = not miss and not binz
                ctx.ob('R04a', f'{ci.name}._time_mask(discrete=False)', ok,
                       'product of the normalised beta- and gamma-theta' if ok else
                       f'continuous time mask {short(t)} lacks {miss}'
                       f'{" / is binarised" if binz else ""}', where(tm))
    ctx.floor('R04a', 'PIT layers with get_modified_vars', n, 5)
    # features calculator attached to PIT layers: (eff, mask) of the same layer
    fc = repo.fn('pit_features_calc')
    found = False
    for p in returning(paths(repo, fc)):
        t = p.retval
        if is_call(t, 'ModAttrFeaturesCalculator'):
            found = True
            ok = len(t[2]) == 3 and t[2][1] == ('const', 'out_features_eff') and \
                t[2][2] == ('const', 'features_mask') and \
                method_call(t[2][0]) is not None and method_call(t[2][0])[1] == 'get_submodule'
            ctx.ob('R04a', 'pit_features_calc pairs (out_features_eff, features_mask)', ok,
                   'consumers are charged/exported with the two views of the producer' if ok else
                   f'calculator is {short(t)}', where(fc))
            for name in ('out_features_eff', 'features_mask'):
                for ci in pit_layer_classes(repo):
                    if layer_kind(ctx, ci) in ('Conv1d', 'Conv2d', 'Linear'):
                        has = repo.find_getter(ci, name) is not None
                        ctx.ob('R04a', f'{ci.name}.{name} exists', has,
                               'attribute read by the calculator exists' if has else
                               f'{ci.name} has no property {name} (read through getattr by the '
                               f'features calculator)', ci.where, nontrivial=False)
    if not found:
        raise AnalysisError('pit_features_calc: ModAttrFeaturesCalculator creation not found')


def bias_worlds(repo, fn, sp):
    """Polynomials (in the spec entries) a size / ops cost function returns when the layer has
    a bias and when it has none: conditional expressions, ``if`` statements and int(<test>)
    indicators on ``spec['_parameters']['bias'] is [not] None`` are all resolved per world.
    Returns (P_present, P_absent, other) with other = tests on anything else than the bias."""
    from .. import poly
    from ..util import paths_split
    bias = ('sub', ('sub', sp, ('const', '_parameters')), ('const', 'bias'))

    def world_of(a, pol):
        """True: bias present, False: absent, None: not a bias test"""
        if a == ('isnone', bias):
            return not pol
        if a[0] == 'cmp' and a[1] in ('is', 'is not') and bias in (a[2], a[3]) and \
                NONE in (a[2], a[3]):
            return (a[1] == 'is not') == pol
        if a[0] == 'un' and a[1] == 'not':
            w = world_of(a[2], pol)
            return None if w is None else not w
        return None

    def resolve(t, present):
        if isinstance(t, tuple):
            if t and t[0] in ('cmp', 'isnone', 'un'):
                w = world_of(t, True)
                if w is not None:
                    return ('const', w == present)
            t = tuple(resolve(x, present) for x in t)
            if t and t[0] == 'call' and is_call(t, 'builtins.int', 'builtins.float') and \
                    len(t[2]) == 1 and t[2][0][0] == 'const' and isinstance(t[2][0][1], bool):
                return ('const', int(t[2][0][1]))
            if t and t[0] == 'ifexp' and t[1][0] == 'const' and isinstance(t[1][1], bool):
                return t[2] if t[1][1] else t[3]
        return t
    res = {True: [], False: []}
    other = []
    for p in returning(paths_split(repo, fn)):
        ws = [world_of(a, pol) for a, pol in p.assumptions]
        other += [a for (a, pol), w in zip(p.assumptions, ws) if w is None]
        for present in (True, False):
            if any(w is not None and w != present for w in ws):
                continue
            t = resolve(inline_globals(repo, p.retval), present)
            try:
                P = poly.to_poly(t)
            except Exception:       # noqa: BLE001
                P = None
            if P not in res[present]:
                res[present].append(P)
    return res[True], res[False], other


def r04b(ctx):
    repo = ctx.repo
    specs = cost_specs(repo)
    n = 0
    for sname in ('params', 'ops'):
        si = specs.get(sname)
        if si is None:
            raise AnalysisError(f'cost spec {sname} not found')
        for reg in si.regs:
            sp = ('param', reg.fn.params[0])
            pres, absn, other = bias_worlds(repo, reg.fn, sp)
            n += 1
            why = ''
            if len(pres) != 1 or len(absn) != 1 or pres[0] is None or absn[0] is None:
                why = 'the result is not one polynomial of the spec per bias world'
            else:
                from .. import poly
                D = poly.add(pres[0], absn[0], -1)
                kern = ('sub', sp, ('const', 'kernel_size'))
                if not D:
                    why = 'the result does not depend on the presence of a bias'
                elif any(c < 0 for c in D.values()):
                    why = 'a bias makes the cost smaller'
                elif not absn[0]:
                    why = 'without a bias the layer costs nothing (the weights are not counted)'
                elif any(mentions(m, lambda y: y == kern) for m in D):
                    why = ('the bias term grows with the kernel size (one bias per output '
                           'element is expected)')
                elif any(c != 1 for c in D.values()) or len(D) != 1:
                    why = 'the bias is not counted exactly once per output element'
            ok = not why
            ctx.ob('R04b', f'{sname}[{reg.pattern}] bias term', ok,
                   "one bias per output element, counted iff spec['_parameters']['bias'] is not "
                   "None" if ok else
                   f'{reg.fn.name}: {why} (with bias: '
                   f'{short(poly.from_poly(pres[0]), 90) if pres and pres[0] is not None else "?"}'
                   f'; without: '
                   f'{short(poly.from_poly(absn[0]), 90) if absn and absn[0] is not None else "?"}'
                   f'): the bias must be counted exactly when '
                   f"spec['_parameters']['bias'] is not None (the predicate export uses to "
                   f'create the bias)', f'{reg.module.relpath}:{reg.fn.node.lineno}')
    ctx.floor('R04b', 'size/ops cost functions', n, 10)


def single_cost_fns(ctx):
    out = []
    for c in ctx.repo.subclasses(ctx.repo.cls('DNAS'), strict=True):
        f = c.methods.get('_get_single_cost')
        if f is not None:
            out.append((c.name, f))
    out.append(('mps.utils', ctx.repo.fn('optimize_prec_assignment')))
    return out


def r04c(ctx):
    repo = ctx.repo
    n = 0
    for name, fn in single_cost_fns(ctx):
        owner = SELF if fn.cls is not None else ('param', fn.params[0])
        found = []
        for p in paths(repo, fn):
            for e in p.events:
                for c in e.ctx:
                    if c[0] == 'loop' and c[2] is not None and c[2][0] == 'ifexp':
                        if c[2] not in found:
                            found.append(c[2])
        n += 1
        ok = False
        for t in found:
            cond, a, b = t[1], t[2], t[3]
            if cond[0] == 'attr' and cond[2] == 'shared' and \
                    a == ('attr', owner, '_unique_leaf_modules') and \
                    b == ('attr', owner, '_leaf_modules'):
                ok = True
        why = ''
        if not ok:
            # which list is iterated instead?
            doms = []
            for p in paths(repo, fn):
                for e in p.events:
                    for c in e.ctx:
                        if c[0] == 'loop' and c[2] is not None and c[2] not in doms and \
                                mentions(c[2], lambda x: x[0] == 'attr' and x[1] == owner):
                            doms.append(c[2])
            spec_p = [('param', x) for x in fn.params if 'spec' in x or x == 'name']
            keyed = [d for d in doms if d[0] == 'sub' and
                     any(mentions(d[2], lambda x, q=q: x == q) for q in spec_p)]
            if keyed:
                # a per-specification table: judge what was stored into it
                tab = keyed[0][1]
                stored = [e.data[2] for g in repo.all_functions() if g.cls is fn.cls
                          for p in paths(repo, g) for e in p.events
                          if e.kind == 'setitem' and e.data[0] == tab]
                ok = bool(stored) and all(
                    v[0] == 'ifexp' and v[1][0] == 'attr' and v[1][2] == 'shared' and
                    v[2] == ('attr', owner, '_unique_leaf_modules') and
                    v[3] == ('attr', owner, '_leaf_modules') for v in stored)
                why = f'per-specification table {short(tab, 40)}'
            else:
                why = ('the list comes from ' + (', '.join(short(d, 60) for d in doms[:2]) or
                                                 'no conditional list') +
                       ', which does not depend on the specification being evaluated (state '
                       'resolved once is stale as soon as a dictionary mixes shared and '
                       'per-invocation metrics)')
        ctx.ob('R04c', f'{name} iteration list', ok,
               'unique layers iff the metric is shared, else every invocation' if ok else
               f'{why}: a shared metric must visit each layer once, a per-invocation metric '
               f'every call site', where(fn))
    ctx.floor('R04c', 'cost iteration sites', n, 4)


def accumulation_rule(ctx, rule: str, label: str, fn, keep=None):
    """Every contribution computed in the loop(s) of a cost routine reaches the returned total.
    The routine is evaluated with two generic iterations per loop; a call made inside a loop
    whose value reaches the returned value on some path is a contribution; on every path each
    contribution made (first and second iteration alike) must be part of the returned value --
    ``total = f(x)`` instead of ``total = total + f(x)`` keeps only the last layer."""
    repo = ctx.repo
    ps = returning(paths(repo, fn, loop_unroll=2, keep=keep))
    contrib = set()
    for p in ps:
        for e in p.calls():
            if any(c and c[0] == 'loop' for c in e.ctx) and p.retval is not None and \
                    mentions(p.retval, lambda x, t=e.data[0]: x == t):
                contrib.add(id(e.node))
    lost = {}
    n = 0
    for p in ps:
        for e in p.calls():
            if id(e.node) in contrib:
                n += 1
                if not mentions(p.retval, lambda x, t=e.data[0]: x == t):
                    lost.setdefault(getattr(e.node, 'lineno', 0), e)
    if n == 0 and not lost:
        # no statement loop: a total built by sum(... for ...) / torch.stack([...]).sum()
        # accumulates by construction
        comp_sum = any(p.retval is not None and mentions(
            p.retval, lambda x: x[0] == 'call' and x[2] and
            (is_call(x, 'builtins.sum', 'torch.sum', 'torch.stack') or
             (method_call(x) is not None and method_call(x)[1] == 'sum')) and
            mentions(x, lambda y: y[0] == 'comp')) for p in ps)
        if comp_sum:
            ctx.ob(rule, f'{label} accumulates every contribution', True,
                   'the total is a sum over a comprehension of the per-layer costs', where(fn))
            return
    ctx.ob(rule, f'{label} accumulates every contribution', not lost and n > 0,
           f'{len(contrib)} contributing call site(s); each contribution of each of two generic '
           f'iterations is part of the returned total' if not lost and n > 0 else
           'no contributing call found in a loop' if not lost else
           '; '.join(f'the contribution {short(e.data[0], 70)} computed in one iteration is not '
                     f'part of the value returned after a later iteration (the total is '
                     f'overwritten, not accumulated): only the last layer is charged'
                     for e in lost.values()),
           where(fn, next(iter(lost.values())).node) if lost else where(fn))


def call_site_rule(ctx, rule: str, label: str, fn, keep=None):
    """A metric that is not shared is charged once per call site, with the shapes of that call
    site: a contribution that an iteration of the accumulation loop reads back from a container
    (a memo) must have been stored by the *same* iteration, or under a key that identifies the
    call site (the fx node of the leaf triple).  A memo keyed by the layer name alone hands the
    cost computed for the first invocation of a weight-shared layer to every later invocation
    (other output resolution)."""
    repo = ctx.repo
    ps = returning(paths(repo, fn, loop_unroll=2, keep=keep))

    def addends(t):
        if t is not None and t[0] == 'bin' and t[1] == '+':
            return addends(t[2]) + addends(t[3])
        return [t] if t is not None else []
    bad = None
    n = 0
    for p in ps:
        stores = [(e.data[0], e.data[1]) for e in p.events if e.kind == 'setitem']
        for e in p.calls():
            mc = method_call(e.data[0])
            if mc is not None and mc[1] in ('setdefault',) and mc[2]:
                stores.append((mc[0], mc[2][0]))
        for a in addends(p.retval):
            reads = [x for x in subterms(a) if
                     (x[0] == 'sub' and x[1][0] in ('dict', 'attr', 'list')) or
                     (x[0] == 'call' and method_call(x) is not None and
                      method_call(x)[1] == 'get' and method_call(x)[0][0] in ('dict', 'attr'))]
            for x in reads:
                cont, key = (x[1], x[2]) if x[0] == 'sub' else \
                    (method_call(x)[0], method_call(x)[2][0] if method_call(x)[2] else None)
                if key is None or not mentions(key, lambda y: y[0] == 'elem'):
                    continue
                if cont[0] == 'attr' and cont[1] != SELF:
                    continue
                if cont[0] == 'attr' and not any(c == cont for c, _ in stores):
                    continue        # a table filled elsewhere (cost function maps, leaf lists)
                n += 1
                same_iter = any(c == cont and k == key for c, k in stores)
                site_key = mentions(key, lambda y: y[0] == 'sub' and y[1][0] == 'elem' and
                                    y[2] == ('const', 1))
                if not same_iter and not site_key and bad is None:
                    bad = (x, key)
    ctx.ob(rule, f'{label} charges every call site with its own shapes', bad is None,
           (f'{n} memo read(s), each stored by the same iteration or keyed by the call site'
            if n else 'no contribution is read back from a memo') if bad is None else
           f'the contribution {short(bad[0], 80)} is read from a container under the key '
           f'{short(bad[1], 60)}, which another iteration (another call site of the same layer) '
           f'may have stored: a weight-shared layer invoked on two resolutions is charged twice '
           f'with the shapes of its first call site when the metric is not shared',
           where(fn), nontrivial=bool(n))


def tuple_elems(t: Term) -> Optional[List[Term]]:
    """Elements of a tuple-valued term: a display, or displays joined with ``+``."""
    if t[0] == 'tuple':
        return list(t[1])
    if t[0] == 'bin' and t[1] == '+':
        a, b = tuple_elems(t[2]), tuple_elems(t[3])
        if a is not None and b is not None:
            return a + b
    return None


def uniquify_rule(ctx, rule: str):
    """Shared metrics (parameters) count a layer once however often, and on whatever tensor
    shapes, it is invoked: uniquify_leaf_modules is interpreted (finite interpreter) on a list
    in which one module appears at three call sites with two different output shapes; the
    result must keep exactly the first entry of each module name, in order."""
    from ..mini import Mini, Obj, Raised, Unsupported
    repo = ctx.repo
    fn = repo.fn('inspection.uniquify_leaf_modules')

    def node(shape):
        o = Obj('Node')
        tm = Obj('TensorMeta')
        tm.attrs['shape'] = shape
        o.attrs.update({'meta': {'tensor_meta': tm} if shape is not None else {}})
        return o
    L1, L2 = Obj('Layer'), Obj('Layer')
    world = [('blk.conv', node((2, 4, 8, 8)), L1), ('blk.conv', node((2, 4, 4, 4)), L1),
             ('head', node((2, 10)), L2), ('blk.conv', node((2, 4, 8, 8)), L1),
             ('head', node(None), L2)]

    class _U(Mini):
        def expr(self, e, env):
            if isinstance(e, ast.Attribute):
                o = self.expr(e.value, env)
                if isinstance(o, Obj):
                    return o.attrs[e.attr] if e.attr in o.attrs else ('boundmethod', o, e.attr)
                return ('boundmethod', o, e.attr)
            return super().expr(e, env)

        def builtin(self, name, args, kwargs, node_):
            if name == 'getattr':
                o = args[0]
                if isinstance(o, Obj) and args[1] in o.attrs:
                    return o.attrs[args[1]]
                if len(args) > 2:
                    return args[2]
                raise Raised('AttributeError', node_)
            if name == 'id':
                return id(args[0])
            return super().builtin(name, args, kwargs, node_)
    try:
        res = _U({}).call_function(fn.node, [list(world)])
    except (Unsupported, Raised) as ex:
        raise AnalysisError(f'{rule}: uniquify_leaf_modules is outside the interpreted subset: {ex}')
    try:
        got = [(r[0], any(r[1] is w[1] for w in world[:1] + world[2:3])) for r in list(res)]
    except Exception:       # noqa: BLE001
        got = None
    want = [('blk.conv', True), ('head', True)]
    ok = got == want
    ctx.ob(rule, 'uniquify_leaf_modules keeps one entry per module', ok,
           'first call site of each module name, in order' if ok else
           f'for a module invoked at three call sites (two output shapes) and another at two, the '
           f'result is {[g[0] for g in got] if got is not None else res}: a shared metric '
           f'(parameters) counts a layer invoked on two resolutions twice (and a choice block '
           f'four times: once per entry at top level times once per entry inside the combiner)',
           where(fn))


def lookup_key_rule(ctx, rule: str, wname: str):
    """Cost-function selection: every CostSpec lookup of _single_cost_fn_map uses the key
    (layer type, vars(layer)) -- the STATIC attributes of the layer.  Pattern constraints
    compare integer hyper-parameters (in_channels == groups); a spec with effective
    (fractional, mask- or coefficient-dependent) sizes makes them fail and selects the generic
    function for a depthwise layer, and the selection is frozen when the map is built."""
    repo = ctx.repo
    sf = repo.cls(wname).methods['_single_cost_fn_map']
    n, bad = 0, []
    seen_lk = set()
    for p in returning(paths(repo, sf)):
        # the map is filled item by item, or returned as a dictionary comprehension
        cands = [(e, e.data[2]) for e in p.events
                 if e.kind == 'setitem' and e.data[0][0] != 'unknown']
        if p.retval is not None and mentions(p.retval, lambda y: y[0] == 'comp'):
            last = p.events[-1] if p.events else None
            cands += [(last, x) for x in subterms(p.retval)
                      if x[0] == 'sub' and x[1] == ('param', sf.params[1])]
        for e, v in cands:
            if v[0] == 'sub' and v[1] == ('param', sf.params[1]) and v[2][0] == 'tuple' and \
                    len(v[2][1]) == 2:
                if v in seen_lk:
                    continue
                seen_lk.add(v)
                n += 1
                spec = v[2][1][1]
                if not (is_call(spec, 'builtins.vars') and spec[2] and
                        spec[2][0][0] in ('sub', 'elem')):
                    bad.append((e, spec))
    ctx.ob(rule, f'{wname}._single_cost_fn_map lookup key', n > 0 and not bad,
           'cost functions are selected with (layer type, vars(layer)): static attributes'
           if n > 0 and not bad else
           'no CostSpec lookup found' if not bad else
           f'a cost function is selected with the spec {short(bad[0][1], 80)} instead of '
           f'vars(layer): pattern constraints (depthwise: in_channels == groups) are evaluated '
           f'on effective sizes that are fractional during the search, fail, and the generic '
           f'model is frozen into the map for a depthwise layer',
           where(sf, bad[0][0].node) if bad and bad[0][0] is not None else where(sf))


def leaf_lists_rule(ctx, rule: str, wname: str):
    """The two layer lists of a wrapper hold what _get_single_cost takes them for:
    ``_leaf_modules`` every invocation (named_leaf_modules of the converted graph),
    ``_unique_leaf_modules`` each layer once (uniquify_leaf_modules of it).  The values are
    followed from the constructor's stores through the tuple the conversion returns."""
    repo = ctx.repo
    w = repo.cls(wname)
    init = w.methods['__init__']
    n = 0
    for p in returning(paths(repo, init)):
        for e in p.events:
            if not (e.kind == 'setattr' and e.data[0] == SELF and
                    e.data[1] in ('_leaf_modules', '_unique_leaf_modules')):
                continue
            v = e.data[2]
            comps: List[Term] = []
            if v[0] == 'sub' and v[2][0] == 'const' and isinstance(v[2][1], int) and \
                    v[1][0] == 'call' and callee(v[1]) in repo.functions:
                conv = repo.functions[callee(v[1])]
                for q in returning(paths(repo, conv)):
                    els = tuple_elems(q.retval) if q.retval is not None else None
                    if els is None or v[2][1] >= len(els):
                        raise AnalysisError(f'{rule}: {conv.qualname} does not return a tuple '
                                            f'display ({short(q.retval, 80)})')
                    comps.append(els[v[2][1]])
            else:
                comps.append(v)
            if not comps:
                continue
            n += 1
            uniq = [mentions(c, lambda y: y[0] == 'call' and
                             (callee(y) or '').endswith('uniquify_leaf_modules')) for c in comps]
            named = [mentions(c, lambda y: y[0] == 'call' and
                              (callee(y) or '').endswith('named_leaf_modules')) for c in comps]
            want_unique = e.data[1] == '_unique_leaf_modules'
            ok = all(named) and all(u == want_unique for u in uniq)
            ctx.ob(rule, f'{wname}.{e.data[1]} content', ok,
                   ('each layer once (uniquify_leaf_modules)' if want_unique else
                    'every invocation (named_leaf_modules, not de-duplicated)') if ok else
                   f'self.{e.data[1]} receives {short(comps[0], 90)}: '
                   + ('the per-invocation list ends up in the attribute that shared metrics '
                      '(parameters) iterate, so a layer used twice is counted twice'
                      if want_unique else
                      'the de-duplicated list ends up in the attribute that per-invocation '
                      'metrics (operations) iterate, so a layer used twice is counted once'),
                   where(init, e.node))
    ctx.floor(rule, f'{wname} leaf-list stores', n, 2)


def r04d(ctx):
    repo = ctx.repo
    w = repo.cls('PIT')
    fn = w.methods['_get_single_cost']
    searchable = 0
    fixed = 0
    for p in returning(paths(repo, fn)):
        for e in p.calls():
            t = e.data[0]
            # cost_fn_map[lname](v)
            if t[1][0] == 'sub' and t[1][1] == ('param', 'cost_fn_map') and len(t[2]) == 1:
                v = t[2][0]
                g = prior_assumes(p, e)      # also if/elif/else-continue before the call
                is_pit = any(is_call(a, 'builtins.isinstance') and pol for a, pol in g)
                if is_pit:
                    searchable += 1
                    mc = method_call(v)
                    ok = mc is not None and mc[1] == 'get_modified_vars' and mc[0][0] == 'sub'
                    upd = any(method_call(e2.data[0]) and method_call(e2.data[0])[1] == 'update'
                              and method_call(e2.data[0])[0] == v and
                              is_call(method_call(e2.data[0])[2][0], 'shapes_dict')
                              for e2 in p.calls())
                    ctx.ob('R04d', 'PIT._get_single_cost searchable layer spec', ok and upd,
                           'get_modified_vars() updated with the node shapes' if ok and upd else
                           f'searchable layers are charged with {short(v)} '
                           f'(shapes update: {upd})', where(fn, e.node))
                else:
                    fixed += 1
                    full = any(a == ('attr', SELF, 'full_cost') and pol for a, pol in g)
                    ctx.ob('R04d', 'PIT._get_single_cost fixed layers only under full_cost', full,
                           'fixed layers charged only when full_cost is set' if full else
                           f'fixed layers are charged under {[(short(a, 40), v) for a, v in g]}',
                           where(fn, e.node))
    accumulation_rule(ctx, 'R04d', 'PIT._get_single_cost', fn)
    call_site_rule(ctx, 'R04d', 'PIT._get_single_cost', fn)
    ctx.floor('R04d', 'searchable-layer cost sites', searchable, 1)
    ctx.floor('R04d', 'fixed-layer cost sites', fixed, 1)
    lookup_key_rule(ctx, 'R04d', 'PIT')
    # ... and the lookup answers with the function of the pattern the layer satisfies: the
    # depthwise constraint is the library-wide depthwise definition (in == out == groups) and
    # every built-in constraint means its pattern on a grid of concrete layers (C15's rules) --
    # an ordinary convolution taken for a depthwise one is priced by its input channels only
    from . import c15
    before = len(ctx.obligations)
    c15.r15d(ctx)
    c15.r15f(ctx)
    for o in ctx.obligations[before:]:
        o.rule = 'R04j'


def r04f(ctx):
    """No stale hyper-parameter is priced.  For every PIT layer class, the constructor slots
    that export() fills with a recomputed value (anything but the layer's own static
    attribute: channels, kernel size, dilation, and ``groups`` on the depthwise path) are the
    *searched* hyper-parameters.  A built-in cost function registered for that layer type
    whose returned value depends on spec[<searched slot>] must find it overridden by
    get_modified_vars; otherwise the discretised cost is computed from the static value while
    the exported layer has the recomputed one."""
    from ..util import bind_args
    from .c01 import ctor_calls, find_export_submodule
    repo, tf = ctx.repo, ctx.torch
    specs = cost_specs(repo)
    pit_specs = ('params', 'params_no_bias', 'ops', 'ops_no_bias', 'gap8_latency')
    n = 0
    for ci in pit_layer_classes(repo):
        kind = layer_kind(ctx, ci)
        exp = ci.methods.get('export')
        gmv = ci.methods.get('get_modified_vars')
        if exp is None or gmv is None or kind not in ('Conv1d', 'Conv2d', 'Linear'):
            continue
        sub = find_export_submodule(ctx, exp, ci)
        searched: Dict[str, Term] = {}
        for p in returning(paths(repo, exp)):
            for e, t, cname in ctor_calls(p, (kind,)):
                for pname, val in bind_args(t, tf.init_positional(cname)).items():
                    if pname == 'bias':
                        continue
                    if val != ('attr', sub, pname):
                        searched.setdefault(pname, val)
        if not searched:
            raise AnalysisError(f'R04f: {ci.name}.export fills no slot with a searched value')
        overridden = set(written_by(ctx, gmv, is_vars_copy))
        for sname in pit_specs:
            si = specs.get(sname)
            if si is None:
                raise AnalysisError(f'R04f: cost spec {sname} not found')
            for reg in si.regs:
                if reg.layer_type.split('.')[-1] != kind:
                    continue
                sp = ('param', reg.fn.params[0])
                used = set()
                from ..util import resolve_namedtuples
                for p in returning(paths(repo, reg.fn)):
                    # fields of a record built from the spec: only the ones the result reads
                    for x in subterms(resolve_namedtuples(repo, p.retval)):
                        if x[0] == 'sub' and x[1] == sp and x[2][0] == 'const':
                            used.add(x[2][1])
                n += 1
                stale = sorted((used & set(searched)) - overridden)
                ctx.ob('R04f', f'{ci.name} x {sname}[{reg.pattern}] prices no stale '
                       f'hyper-parameter', not stale,
                       f'value depends on {sorted(used & set(searched))}, all overridden' if not stale
                       else f'{reg.fn.name} computes its result from spec{stale}, which '
                       f'{ci.name}.get_modified_vars leaves at the static value although export() '
                       f'builds the layer with {[short(searched[k], 50) for k in stale]}: after '
                       f'pruning the cost is not the cost of the exported layer',
                       where(reg.fn))
    ctx.floor('R04f', 'layer class x registration pairs', n, 20)


def run(ctx):
    from .c06 import memo_rule
    memo_rule(ctx, 'R04g', 'PIT._get_single_cost',
              ctx.repo.cls('PIT').methods['_get_single_cost'], 1, 2)
    r04f(ctx)
    r04a(ctx)
    r04b(ctx)
    r04c(ctx)
    r04d(ctx)
    leaf_lists_rule(ctx, 'R04h', 'PIT')
    uniquify_rule(ctx, 'R04h')
    # the spec values are handed out by reference (a features calculator returns its buffer):
    # no registered cost function writes its spec or updates a value in place (= C12 R12b)
    from . import c12
    c12.r12b(ctx, rule='R04i')
    from .c12 import r12e
    r12e(ctx, 'R04e')       # unpruned continuous size = original size
    ctx.assume('nn.Module stores a missing bias as _parameters["bias"] = None')


MANIFEST = {
    'text': 'For every architecture and mask value: each searched hyper-parameter is charged under '
            'its torch name with a value computed from the same mask function export counts '
            '(discrete_cost the only difference), the bias is counted by the predicate export '
            'uses, shared metrics iterate unique layers and per-invocation metrics every call '
            'site, specs are fresh copies and every layer cost is accumulated. The equality of '
            'the resulting numbers with a from-scratch evaluation on the exported network is not '
            'computed.',
    'note': 'Trusted: torch constructor parameter names from torch source; BN folding and gap8 on '
            '2D nets are not separately analysed.',
    'technique': 'def-use agreement of dual views (cost vs export) + sibling agreement of the '
                 '_get_single_cost implementations',
}
