"""C13 — quantizers emit values that fit their declared bit-width and scale (structural).

 R13a guarded division: every ``/`` in the anchored quantizer modules has a divisor that is
      a non-zero constant, the ``2**p - 1`` step count (p >= 1 known on the path, or an
      activation quantizer whose precisions are >= 2), epsilon-stabilised (``x + c``, c > 0),
      zero-guarded by a dominating ``masked_fill_(d.eq(0), c)``, selected by the divisor's own
      non-zero mask, or a quotient/product of such values.
 R13b range clamps: weights ``clip(round(x / s), max = 2**(p-1) - 1)`` with the 0-bit case
      short-circuited to zeros; activations ``floor(f * clamp(x, lo, hi))`` with
      f = (2**p - 1) / (range + eps).
 R13f range provenance of the symmetric weight quantizer: ch_max = per-output-channel max |x|,
      ch_min = -ch_max (the lower end of the signed range is not clipped).
 R13c monotone: each STE forward is non-decreasing in its data input (numeric domain).
 R13d rounding-mode agreement: activation quantizers and the integer back ends'
      re-quantisation truncate (floor); weights and bias round.
 R13e reported scale == used scale: the ``scale`` property equals the reciprocal of the
      factor forward multiplies by (polynomial normal form).
"""
from __future__ import annotations

from typing import List, Optional, Tuple

from .. import poly
from ..model import AnalysisError, ClassInfo, FunctionInfo
from ..numdom import AV, INF, NumError, NumEval
from ..sym import NONE, State, Term, mentions, show, subterms
from ..util import (SELF, arg, callee, is_call, method_call, paths, returning, short, where)

EXPLANATION = ('Classification of every division in the quantizer modules by the provenance of '
               'its divisor (path-sensitive: dominating zero-guards and precision tests), '
               'structural recognition of the clamp/round/floor pipelines, monotonicity of the '
               'forward bodies in the numeric domain, polynomial comparison of the reported '
               'scale with the factor used. Holds for every input tensor; quantisation error '
               'bounds and float32 effects are not decided.')
RULE_TEXT = ('obligation = one division site / one forward path / one quantizer class and one '
             'clause; sites are discovered in the four anchored quantizer modules')

MODULES = ('minmax_weight', 'pact_act', 'qtz_bias', 'dummy')
VIEWS = {'view', 'reshape', 'unsqueeze', 'expand', 'to', 'float', 'clone', 'detach'}
# activation quantizers: C13 quantifies their precision over 2..8 (never 0)
ACT_FUNCS = ('PACTAct', 'PACTActSigned')


def quant_functions(ctx) -> List[FunctionInfo]:
    out = []
    for f in ctx.repo.all_functions():
        mn = f.module.name
        if '.quant.quantizers.' in mn and mn.rsplit('.', 1)[-1] in MODULES:
            out.append(f)
    return out


def strip_views(t: Term) -> Term:
    while True:
        mc = method_call(t)
        if mc and mc[1] in VIEWS:
            t = mc[0]
            continue
        return t


def nonzero(t: Term, p: State, fn: FunctionInfo, depth: int = 0) -> Tuple[bool, str]:
    t = strip_views(t)
    if depth > 6:
        return False, 'too deep'
    if t[0] == 'const' and isinstance(t[1], (int, float)) and t[1] != 0:
        return True, 'non-zero constant'
    # 2**P - 1
    if t[0] == 'bin' and t[1] == '-' and t[3] == ('const', 1) and t[2][0] == 'bin' and \
            t[2][1] == '**' and t[2][2] == ('const', 2):
        P = t[2][3]
        if any(a == ('cmp', '==', P, ('const', 0)) and v is False for a, v in p.assumptions):
            return True, 'step count 2**p - 1 with p != 0 on this path'
        owner = fn.cls.name if fn.cls is not None else ''
        if owner.startswith(ACT_FUNCS):
            return True, 'step count 2**p - 1 of an activation quantizer (p >= 2)'
        return False, 'step count 2**p - 1 but p may be 0 here (no "precision != 0" guard)'
    # x + c  (epsilon-stabilised)
    if t[0] == 'bin' and t[1] == '+':
        for c in (t[2], t[3]):
            if c[0] == 'const' and isinstance(c[1], (int, float)) and c[1] > 0:
                return True, f'epsilon-stabilised (+{c[1]})'
    # dominating masked_fill_(d.eq(0), c)
    for e in p.calls():
        mc = method_call(e.data[0])
        if mc and mc[1] == 'masked_fill_' and mc[0] == t and len(mc[2]) == 2:
            m, c = mc[2]
            mm = method_call(m)
            if mm and mm[0] == t and mm[1] == 'eq' and mm[2] == (('const', 0),) and \
                    c[0] == 'const' and c[1] != 0:
                return True, 'zero entries replaced by a non-zero constant beforehand'
    # d[mask] with mask = ~isclose(d, 0) / d != 0
    if t[0] == 'sub':
        d, m = t[1], t[2]
        if m[0] == 'un' and m[1] == '~':
            mm = method_call(m[2])
            if mm and mm[0] == d and mm[1] == 'isclose' and is_call(mm[2][0], 'torch.zeros',
                                                                    'torch.zeros_like'):
                return True, 'selected by the divisor\'s own non-zero mask'
        if m[0] == 'cmp' and m[1] == '!=' and m[2] == d and m[3] == ('const', 0):
            return True, 'selected by the divisor\'s own non-zero mask'
    if t[0] == 'bin' and t[1] in ('/', '*'):
        a, ra = nonzero(t[2], p, fn, depth + 1)
        b, rb = nonzero(t[3], p, fn, depth + 1)
        if a and b:
            return True, f'{"quotient" if t[1] == "/" else "product"} of non-zero values'
        return False, ra if not a else rb
    return False, f'{short(t, 80)} may be zero'


def r13a(ctx):
    n = 0
    fns = quant_functions(ctx)
    # private module-level helpers of the quantizer modules are analysed where they are used:
    # inlined into their callers (with the callers' guards); a helper that some anchored function
    # calls is not judged on its own, out of context
    import ast as _ast
    names = {f.name for f in fns if f.cls is None}
    used = set()
    for f in fns:
        for x in _ast.walk(f.node):
            if isinstance(x, _ast.Call) and isinstance(x.func, _ast.Name) and \
                    x.func.id in names and x.func.id != f.name:
                used.add(x.func.id)
    for fn in fns:
        if fn.cls is None and fn.name in used and fn.name.startswith('_') and \
                not fn.name.startswith('__'):
            # still analysed through every caller below
            called_by_public = True
            if called_by_public:
                continue
        keep = tuple(sorted(n_ for n_ in names if not (n_ in used and n_.startswith('_'))))
        for p in paths(ctx.repo, fn, keep=keep):
            terms = [x for e in p.events for x in e.data] + ([p.retval] if p.retval else [])
            seen = set()
            for t in terms:
                for x in subterms(t):
                    if x[0] == 'bin' and x[1] == '/' and x not in seen:
                        seen.add(x)
                        # nested numerators are visited on their own
                        ok, why = nonzero(x[3], p, fn)
                        n += 1
                        ctx.ob('R13a', f'{_fq(fn)} division by {short(strip_views(x[3]), 70)}',
                               ok, why if ok else
                               f'divisor not protected against zero: {why} -> NaN / infinity in '
                               f'the quantizer output for some input', where(fn))
    ctx.floor('R13a', 'division sites', n, 8)


def _fq(fn: FunctionInfo) -> str:
    return (fn.cls.name + '.' if fn.cls else '') + fn.name


def r13b(ctx):
    repo = ctx.repo
    q = repo.fn('minmax_weight._min_max_quantize')
    x, prec = ('param', q.params[0]), ('param', q.params[3])
    seen_zero = False
    seen_q = 0
    for p in returning(paths(repo, q)):
        r = p.retval
        zero_path = any(a == ('cmp', '==', prec, ('const', 0)) and v for a, v in p.assumptions)
        if zero_path:
            seen_zero = True
            ok = is_call(r, 'torch.zeros', 'torch.zeros_like')
            ctx.ob('R13b', '_min_max_quantize 0-bit path', ok,
                   'returns zeros' if ok else f'0-bit path returns {short(r)}', where(q))
            continue
        seen_q += 1
        core = r
        if r[0] == 'bin' and r[1] == '*':           # dequantised: y * scale
            core = r[2] if is_call(r[2], 'torch.clip', 'torch.clamp') else r[3]
        ok = is_call(core, 'torch.clip', 'torch.clamp')
        msg = ''
        if ok:
            mx = arg(core, 2, 'max')
            mn = arg(core, 1, 'min')
            want = ('bin', '-', ('bin', '**', ('const', 2), ('bin', '-', prec, ('const', 1))),
                    ('const', 1))
            ok = mx is not None and _pow_equal(mx, want)
            if not ok:
                msg = f'upper clip is {short(mx) if mx else "missing"}, expected 2**(p-1) - 1'
            if ok and mn is not None and mn != NONE:
                wantmin = ('un', 'neg', ('bin', '**', ('const', 2),
                                         ('bin', '-', prec, ('const', 1))))
                ok = _pow_equal(mn, wantmin)
                if not ok:
                    msg = f'lower clip is {short(mn)}, expected -2**(p-1)'
            inner = core[2][0]
            if ok and not (is_call(inner, 'torch.round') and inner[2][0][0] == 'bin' and
                           inner[2][0][1] == '/' and inner[2][0][2] == x):
                ok = False
                msg = f'clipped value is {short(inner)}, expected round(x / scale)'
        else:
            msg = f'integer image is {short(core)}: no clip to the signed range'
        lbl = ', '.join(f'{show(a)}={v}' for a, v in p.assumptions)
        ctx.ob('R13b', f'_min_max_quantize[{lbl}]', ok,
               'clip(round(x / scale), max = 2**(p-1) - 1)' if ok else msg, where(q))
    ctx.ob('R13b', '_min_max_quantize has a 0-bit short-circuit', seen_zero and seen_q >= 1,
           '0 bits handled before any division', where(q), nontrivial=False)
    # activations
    n = 0
    for cname, lo_hi in (('PACTActSTE', 'unsigned'), ('PACTActSignedSTE', 'signed')):
        c = repo.cls(cname)
        fwd = c.methods['forward']
        inp, prec = ('param', fwd.params[1]), ('param', fwd.params[2])
        for p in returning(paths(repo, fwd)):
            n += 1
            r = p.retval
            core = r[2] if r[0] == 'bin' and r[1] == '/' else r
            ok = is_call(core, 'torch.floor') and core[2][0][0] == 'bin' and core[2][0][1] == '*'
            msg = f'integer image is {short(core)}'
            if ok:
                a, b = core[2][0][2], core[2][0][3]
                cl, f = (a, b) if is_call(a, 'torch.clamp', 'torch.clip') else (b, a)
                ok = is_call(cl, 'torch.clamp', 'torch.clip') and cl[2][0] == inp and len(cl[2]) == 3
                if ok:
                    lo, hi = cl[2][1], cl[2][2]
                    rng = hi if lo == ('const', 0) else ('bin', '-', hi, lo)
                    if lo_hi == 'unsigned' and lo != ('const', 0):
                        ok = False
                        msg = f'lower clamp is {short(lo)}, expected 0'
                    # f = (2**p - 1) / (range + eps)
                    if ok:
                        okf = f[0] == 'bin' and f[1] == '/' and \
                            f[2] == ('bin', '-', ('bin', '**', ('const', 2), prec), ('const', 1))
                        if okf:
                            den = f[3]
                            eps = poly.add(poly.to_poly(den), poly.to_poly(rng), -1)
                            ec = poly.is_const(eps)
                            okf = ec is not None and 0 < ec <= 1e-2
                        ok = okf
                        if not ok:
                            msg = (f'factor is {short(f)}, expected (2**p - 1) / (clip range + '
                                   f'eps): levels would not span [0, 2**p - 1]')
                else:
                    msg = f'floor argument {short(core[2][0])} is not factor * clamp(input, lo, hi)'
            lbl = ', '.join(f'{show(a)}={v}' for a, v in p.assumptions)
            ctx.ob('R13b', f'{cname}.forward[{lbl}]', ok,
                   'floor((2**p - 1)/(range + eps) * clamp(x, lo, hi))' if ok else msg,
                   where(fwd))
    ctx.floor('R13b', 'activation forward paths', n, 4)


def _pow_equal(a: Term, b: Term) -> bool:
    """Equality of expressions containing 2**(p-1): compare after replacing each power by an
    atom keyed by the normalised exponent."""
    def norm(t):
        if isinstance(t, tuple):
            if t and t[0] == 'bin' and t[1] == '**':
                return ('pow', norm(t[2]), poly.from_poly(poly.to_poly(t[3])))
            return tuple(norm(x) for x in t)
        return t
    try:
        return poly.equal(norm(a), norm(b))
    except Exception:       # noqa: BLE001
        return False


def r13c(ctx):
    repo = ctx.repo
    targets = [('_min_max_quantize', repo.fn('minmax_weight._min_max_quantize'), 0),
               ('PACTActSTE.forward', repo.cls('PACTActSTE').methods['forward'], 1),
               ('PACTActSignedSTE.forward', repo.cls('PACTActSignedSTE').methods['forward'], 1),
               ('RoundSTE.forward', repo.cls('RoundSTE').methods['forward'], 1)]
    for name, fn, xi in targets:
        xname = fn.params[xi]

        def inp(t, xname=xname, fn=fn):
            if t == ('param', xname):
                return AV(-INF, INF, {'x': 1})
            tt = strip_views(t)
            if tt != t:
                return None
            # range / precision arguments: positive scales, held constant
            if t[0] == 'param' and t[1] in fn.params and t[1] != xname:
                if t[1] in ('precision',):
                    return AV(1.0, 8.0)
                if t[1] == 'dequantize':
                    return None
                return None
            if t[0] == 'sub' and t[1][0] == 'attr' and t[1][2] == 'data':
                return AV(-INF, INF)        # clip values (constants w.r.t. x)
            if t[0] == 'bin' and t[1] == '-' and t[2] == ('param', 'ch_max') and \
                    t[3] == ('param', 'ch_min'):
                return AV(1e-30, INF)       # zero-guarded range (R13a)
            return None
        ne = NumEval(repo, inp)

        def ev_views(t):
            return t
        for p in returning(paths(repo, fn)):
            lbl = ', '.join(f'{show(a)}={v}' for a, v in p.assumptions)
            r = _drop_views(p.retval)
            try:
                v = ne.ev(_clamp_as_minmax(r))
                ok = v.d('x') in (0, 1)
                msg = 'non-decreasing in the input' if ok else \
                    f'{name} is not provably non-decreasing in its data input'
            except NumError as e:
                # pact scale factor: positive by R13a; model (2**p-1)/(range+eps) as positive
                ok = False
                msg = f'cannot establish monotonicity: {e}'
            ctx.ob('R13c', f'{name}[{lbl}]', ok, msg, where(fn))


def _drop_views(t):
    if isinstance(t, tuple):
        mc = method_call(t) if t and t[0] == 'call' else None
        if mc and mc[1] in VIEWS:
            return _drop_views(mc[0])
        return tuple(_drop_views(x) for x in t)
    return t


def _clamp_as_minmax(t):
    """clamp(x, lo, hi) -> min(max(x, lo), hi);  clip(x, max=m) -> min(x, m);
    (2**p - 1)/(range + eps) -> kept (range + eps evaluated as positive below)."""
    if isinstance(t, tuple):
        if t and t[0] == 'call' and is_call(t, 'torch.clamp', 'torch.clip'):
            x = _clamp_as_minmax(t[2][0])
            lo = arg(t, 1, 'min')
            hi = arg(t, 2, 'max')
            r = x
            if lo is not None and lo != NONE:
                r = ('call', ('global', 'builtins.max'), (r, _posconst(lo)), ())
            if hi is not None and hi != NONE:
                r = ('call', ('global', 'builtins.min'), (r, _posconst(hi)), ())
            return r
        if t and t[0] == 'bin' and t[1] == '/' and t[3][0] == 'bin' and t[3][1] == '+' and \
                t[3][3][0] == 'const' and t[3][3][1] > 0 and t[2][0] == 'bin' and t[2][1] == '-':
            # (2**p - 1) / (range + eps): a positive constant w.r.t. the input
            return ('call', ('global', 'builtins.max'), (('const', 1e-9), ('const', 1e9)), ())
        return tuple(_clamp_as_minmax(x) for x in t)
    return t


def _posconst(t):
    return t


def r13d(ctx):
    repo = ctx.repo

    def rounding_ops(fn: FunctionInfo) -> set:
        ops = set()
        for p in returning(paths(repo, fn)):
            for e in p.calls():
                c = callee(e.data[0])
                if c in ('torch.floor', 'torch.round', 'torch.ceil', 'torch.trunc'):
                    ops.add(c.split('.')[-1])
            for x in subterms(p.retval):
                if x[0] == 'call' and callee(x) in ('torch.floor', 'torch.round', 'torch.ceil',
                                                    'torch.trunc'):
                    ops.add(callee(x).split('.')[-1])
        return ops
    exp = [('PACTActSTE.forward', repo.cls('PACTActSTE').methods['forward'], {'floor'}),
           ('PACTActSignedSTE.forward', repo.cls('PACTActSignedSTE').methods['forward'],
            {'floor'}),
           ('_min_max_quantize', repo.fn('minmax_weight._min_max_quantize'), {'round'}),
           ('RoundSTE.forward', repo.cls('RoundSTE').methods['forward'], {'round'})]
    for cname in ('MATCHConv2d', 'MATCHLinear', 'MAUPITIConv2d', 'MAUPITILinear'):
        exp.append((f'{cname}.forward', repo.cls(cname).methods['forward'], {'floor'}))
    for name, fn, want in exp:
        got = rounding_ops(fn)
        ctx.ob('R13d', f'{name} rounding primitive', got == want,
               f'uses {sorted(got)}' if got == want else
               f'uses {sorted(got) or "no rounding"}, expected {sorted(want)}: activation '
               f'quantizers and the integer back ends must both truncate (floor), weights and '
               f'bias round to nearest', where(fn))
    # the bias quantizer rounds through RoundSTE
    qb = repo.cls('QuantizerBias').methods['forward']
    ok = all(mentions(p.retval, lambda x: callee(x) is not None and
                      callee(x).endswith('RoundSTE.apply'))
             for p in returning(paths(repo, qb)))
    ctx.ob('R13d', 'QuantizerBias.forward rounding primitive', ok,
           'round to nearest through RoundSTE' if ok else 'bias is not rounded through RoundSTE',
           where(qb))


def r13e(ctx):
    repo = ctx.repo
    # PACT: scale * factor == 1
    for qname, ste, attrs in (('PACTAct', 'PACTActSTE', {'clip_val': 'clip_val'}),
                              ('PACTActSigned', 'PACTActSignedSTE',
                               {'clip_val_sup': 'clip_val_sup', 'clip_val_inf': 'clip_val_inf'})):
        qc = repo.cls(qname)
        g = qc.getters.get('scale')
        fwd = repo.cls(ste).methods['forward']
        sc = [p.retval for p in returning(paths(repo, g))]
        fac = None
        for p in returning(paths(repo, fwd)):
            r = p.retval
            if r[0] == 'bin' and r[1] == '/':
                fac = r[3]
        if fac is None or len(sc) != 1:
            raise AnalysisError(f'{qname}: scale / forward factor not found')
        # rename forward parameters to the quantizer's attributes
        ren = {('param', 'precision'): ('attr', SELF, 'precision')}
        for a in attrs:
            ren[('param', a)] = ('attr', SELF, a)
        fac_r = poly.substitute(fac, ren)
        ok = (fac_r[0] == 'bin' and fac_r[1] == '/' and sc[0][0] == 'bin' and sc[0][1] == '/' and
              _pow_equal(sc[0][2], fac_r[3]) and _pow_equal(sc[0][3], fac_r[2])) or \
            poly.rat_equal(('bin', '*', sc[0], fac_r), ('const', 1))
        ctx.ob('R13e', f'{qname}.scale vs {ste}.forward', ok,
               'scale is the reciprocal of the factor forward multiplies by' if ok else
               f'reported scale {short(sc[0])} is not the reciprocal of the factor used by '
               f'forward {short(fac_r)}: fake-quantised output != integer output x scale',
               where(g))
    # MinMaxWeight: scale property == scale_factor of _min_max_quantize
    mm = repo.cls('MinMaxWeight')
    g = mm.getters.get('scale')
    q = repo.fn('minmax_weight._min_max_quantize')
    used = None
    for p in returning(paths(repo, q)):
        r = p.retval
        if r[0] == 'bin' and r[1] == '*':
            used = strip_views(r[3]) if is_call(r[2], 'torch.clip', 'torch.clamp') else \
                strip_views(r[2])
    rep = [p.retval for p in returning(paths(repo, g))
           if not is_call(p.retval, 'torch.zeros')]
    if used is None or len(rep) != 1:
        raise AnalysisError('MinMaxWeight: scale terms not found')
    ren = {('param', 'ch_max'): ('attr', SELF, 'ch_max'),
           ('param', 'ch_min'): ('attr', SELF, 'ch_min'),
           ('param', 'precision'): ('attr', SELF, 'precision')}
    ok = _pow_equal(poly.substitute(used, ren), rep[0])
    ctx.ob('R13e', 'MinMaxWeight.scale vs _min_max_quantize', ok,
           'scale == range / (2**p - 1), the factor the quantizer uses' if ok else
           f'reported scale {short(rep[0])} differs from the factor used '
           f'{short(poly.substitute(used, ren))}', where(g))
    # ... including the in-place repairs of the range (zero range replaced by 1): the two sites
    # must patch the same elements, otherwise the reported scale of a channel the quantizer
    # still treats normally is a different number
    def canon_cmp(t):
        # x.eq(c) / torch.eq(x, c) / x == c are one comparison
        if isinstance(t, tuple):
            t = tuple(canon_cmp(x) for x in t)
            ops = {'eq': '==', 'ne': '!=', 'gt': '>', 'ge': '>=', 'lt': '<', 'le': '<='}
            if t and t[0] == 'call':
                mc = method_call(t)
                c = callee(t)
                if mc and mc[1] in ops and len(mc[2]) == 1:
                    return ('cmp', ops[mc[1]], mc[0], mc[2][0])
                if c and c.startswith('torch.') and c[6:] in ops and len(t[2]) == 2:
                    return ('cmp', ops[c[6:]], t[2][0], t[2][1])
        return t

    def fixups(fn, rename):
        out = []
        for p in returning(paths(repo, fn)):
            cur = []
            for e in p.calls():
                mc = method_call(e.data[0])
                if mc and mc[1].endswith('_') and not mc[1].startswith('_') and \
                        mentions(mc[0], lambda y: y[0] == 'bin' and y[1] == '-'):
                    cur.append(show(canon_cmp(poly.substitute(e.data[0], rename))))
            if cur and cur not in out:
                out.append(cur)
        return out
    fq, fs = fixups(q, ren), fixups(g, {})
    same = fq == fs and bool(fq)
    ctx.ob('R13e', 'MinMaxWeight.scale repairs the range like _min_max_quantize', same,
           f'same in-place repair at both sites: {fq[0][0][:70] if fq else ""}' if same else
           f'the quantizer repairs its range with {[x[:90] for x in (fq[0] if fq else [])]} but '
           f'the reported scale with {[x[:90] for x in (fs[0] if fs else [])]}: for a channel one '
           f'site patches and the other does not, fake-quantised output != integer output x '
           f'reported scale', where(g))
    # the arguments forward passes to the STE are the stored range
    fw = mm.methods['forward']
    ok = False
    for p in returning(paths(repo, fw)):
        for e in p.calls():
            t = e.data[0]
            if callee(t) and callee(t).endswith('.apply') and len(t[2]) >= 3:
                ok = t[2][1] == ('attr', SELF, 'ch_min') and t[2][2] == ('attr', SELF, 'ch_max') \
                    or ok
    ctx.ob('R13e', 'MinMaxWeight.forward quantizes with the stored range', ok,
           'the range handed to the STE is the one scale reads' if ok else
           'forward does not quantize with self.ch_min / self.ch_max', where(fw),
           nontrivial=False)
    # bias: divides and multiplies by the same self.scale = s_a * s_w
    qb = repo.cls('QuantizerBias')
    fwd = qb.methods['forward']
    ok_store = any(e.kind == 'setattr' and e.data[0] == SELF and e.data[1] == '_scale' and
                   poly.equal(e.data[2], ('bin', '*', ('param', fwd.params[2]),
                                          ('param', fwd.params[3])))
                   for p in returning(paths(repo, fwd)) for e in p.events)
    getter_ok = all(p.retval == ('attr', SELF, '_scale')
                    for p in returning(paths(repo, qb.getters['scale'])))
    ctx.ob('R13e', 'QuantizerBias scale = s_a * s_w', ok_store and getter_ok,
           'scale is the product of the activation and weight scales' if ok_store and getter_ok
           else 'bias scale is not s_a * s_w', where(fwd))
    # the scales are the caller's tensors (the integer back ends keep and reuse them): forward
    # must not update them in place, directly or through an alias (x.to(device) returns x itself
    # when nothing changes)
    inplace = []
    for p in returning(paths(repo, fwd)):
        for e in p.events:
            tgt = None
            if e.kind == 'augname':
                tgt = e.data[1]
            elif e.kind == 'call':
                mc = method_call(e.data[0])
                if mc and mc[1].endswith('_') and not mc[1].startswith('_'):
                    tgt = mc[0]
            while tgt is not None and method_call(tgt) is not None and \
                    method_call(tgt)[1] in ('to', 'detach', 'view', 'reshape', 'squeeze',
                                            'contiguous', 'float', 'type_as'):
                tgt = method_call(tgt)[0]
            if tgt is not None and tgt[0] == 'param' and tgt[1] in fwd.params[2:4] and \
                    show(tgt) not in inplace:
                inplace.append(show(tgt))
    ctx.ob('R13e', 'QuantizerBias.forward leaves its scale arguments unchanged', not inplace,
           'no in-place update of s_a / s_w' if not inplace else
           f'forward updates {inplace} in place (through an alias): the caller\'s scale tensor '
           f'becomes s_a * s_w, so a second call, or the back end that reuses the tensor, works '
           f'with s_a**2 * s_w', where(fwd), nontrivial=False)
    for p in returning(paths(repo, fwd)):
        r = p.retval
        deq = any(a == ('attr', SELF, 'dequantize') and v for a, v in p.assumptions)
        # the scale as a value: self.scale / self._scale read after the store, or the stored
        # product itself kept in a local
        prod = ('bin', '*', ('param', fwd.params[2]), ('param', fwd.params[3]))

        def is_scale(x, prod=prod):
            x = poly.substitute(x, {('attr', SELF, 'scale'): prod, ('attr', SELF, '_scale'): prod})
            return poly.equal(x, prod)
        inner = [x for x in subterms(r) if callee(x) and callee(x).endswith('QuantizeBiasSTE.apply')]
        ok = bool(inner) and len(inner[0][2]) > 1 and is_scale(inner[0][2][1]) and \
            (not deq or (r[0] == 'bin' and r[1] == '*' and
                         (is_scale(r[2]) or is_scale(r[3]))))
        ctx.ob('R13e', f'QuantizerBias.forward[dequantize={deq}]', ok,
               'divides by and re-multiplies with the same scale' if ok else
               f'bias path is {short(r)}', where(fwd))


def _reduction(t: Term):
    """(kind, operand, dim) of a per-channel extreme: x.max(d)[0] / torch.max(x, d)[0] /
    x.amax(d) / torch.amax(x, d) (kind 'max' or 'min'); None otherwise."""
    if t[0] == 'sub' and t[2] == ('const', 0):
        t = t[1]
        names = ('max', 'min')
    else:
        names = ('amax', 'amin')
    if t[0] != 'call':
        return None
    mc = method_call(t)
    c = callee(t)
    if mc is not None and mc[1] in names:
        x, rest, kws = mc[0], mc[2], dict(mc[3])
        kind = mc[1][-3:]
    elif c in tuple('torch.' + n for n in names) and t[2]:
        x, rest, kws = t[2][0], t[2][1:], dict(t[3])
        kind = c[-3:]
    else:
        return None
    dim = kws.get('dim', rest[0] if rest else None)
    return kind, x, dim


def _chain(x: Term):
    """names of the unary tensor methods / torch functions applied on the way from the input
    to x, innermost first, with their argument tuples"""
    out = []
    while x[0] == 'call':
        mc = method_call(x)
        c = callee(x)
        if mc is not None:
            out.append((mc[1], mc[2], dict(mc[3])))
            x = mc[0]
        elif c and c.startswith('torch.') and x[2]:
            out.append((c[6:], x[2][1:], dict(x[3])))
            x = x[2][0]
        else:
            break
    return x, list(reversed(out))


def r13f(ctx):
    """Range provenance of the symmetric weight quantizer.  The lower end of the signed range
    is not clipped: round(x / scale) >= -2**(p-1) holds because |x| <= ch_max on the channel,
    i.e. because ch_max is the per-output-channel maximum of |x| (abs before the reduction,
    reduction over every axis but the channel axis 0) and ch_min = -ch_max, handed to the STE
    in that order."""
    repo = ctx.repo
    mm = repo.cls('MinMaxWeight')
    init = mm.methods['__init__']
    sym_fn = None
    from ..util import paths_split

    def pick(t):
        # element selection from a tuple display
        if isinstance(t, tuple):
            t = tuple(pick(x) for x in t)
            if t and t[0] == 'sub' and t[1][0] == 'tuple' and t[2][0] == 'const' and \
                    isinstance(t[2][1], int) and t[2][1] < len(t[1][1]):
                return t[1][1][t[2][1]]
        return t
    for p in returning(paths_split(repo, init)):
        for e in p.events:
            v = pick(e.data[2]) if e.kind == 'setattr' else None
            if e.kind == 'setattr' and e.data[0] == SELF and e.data[1] == 'compute_min_max' and \
                    any(a == ('param', 'symmetric') and pol for a, pol in p.assumptions) and \
                    v[0] == 'attr' and v[1] == SELF:
                sym_fn = repo.find_method(mm, v[2])
    if sym_fn is None:
        raise AnalysisError('R13f: symmetric range function of MinMaxWeight not found')
    inp = ('param', sym_fn.params[1])
    for p in returning(paths(repo, sym_fn)):
        r = p.retval
        if r is None or r[0] != 'tuple' or len(r[1]) != 2:
            raise AnalysisError(f'R13f: {sym_fn.name} does not return (min, max)')
        lo, hi = r[1]
        red = _reduction(hi)
        problems = []
        if red is None or red[0] != 'max':
            problems.append(f'the upper end {short(hi, 60)} is not a maximum')
        else:
            base, chain = _chain(red[1])
            names = [c[0] for c in chain]
            if base != inp:
                problems.append(f'the maximum is not taken over the input ({short(base, 40)})')
            if 'abs' not in names:
                problems.append('the maximum is taken over x, not over |x|: a channel whose '
                                'most negative weight exceeds its largest positive one maps below '
                                '-2**(p-1) (the lower end is not clipped)')
            # channel axis kept: a 2-D view (size(0), -1) / flatten(1) reduced over dim 1
            two_d = False
            for nm, args, kws in chain:
                if nm in ('view', 'reshape') and len(args) == 2 and args[1] == ('const', -1) and \
                        mentions(args[0], lambda y: y == inp) and \
                        mentions(args[0], lambda y: y == ('const', 0)):
                    two_d = True
                if nm == 'flatten' and (args[:1] == (('const', 1),) or
                                        kws.get('start_dim') == ('const', 1)):
                    two_d = True
            if not (two_d and red[2] in (('const', 1), ('const', -1))):
                problems.append(f'the reduction (dim {short(red[2], 20) if red[2] else None}) is '
                                f'not over every axis but the output-channel axis 0: the range of '
                                f'a channel is taken from other channels')
        neg = lo == ('un', '-', hi) or poly.equal(lo, ('bin', '*', ('const', -1), hi)) or \
            (callee(lo) in ('torch.neg', 'torch.negative') and lo[2][0] == hi)
        if not neg:
            problems.append(f'the lower end {short(lo, 60)} is not minus the upper end')
        ctx.ob('R13f', f'MinMaxWeight.{sym_fn.name} range', not problems,
               'ch_max = per-channel max |x|, ch_min = -ch_max: |x / scale| <= (2**p - 1) / 2'
               if not problems else '; '.join(problems), where(sym_fn))


def run(ctx):
    r13f(ctx)
    r13a(ctx)
    r13b(ctx)
    r13c(ctx)
    r13d(ctx)
    r13e(ctx)
    ctx.assume('activation precisions are >= 2 (C13 quantifies them over 2..8); weight precision '
               '0 is admitted and must be guarded')
    ctx.assume('clip values and channel ranges are finite; FQWeight is not anchored by C13 and is '
               'not analysed')


MANIFEST = {
    'text': 'For every input tensor: no division in the anchored quantizers can be by zero '
            '(provenance of each divisor, path-sensitive), weights are rounded then clipped to '
            'the signed range with a 0-bit short-circuit, activations are clamped, scaled by '
            '(2**p-1)/(range+eps) and floored, each forward is monotone, rounding modes agree '
            'with the integer back ends, and the reported scale is exactly the reciprocal of the '
            'factor used. Not decided: error < 1 step, half-way rounding, float32 effects.',
    'note': 'Assumes activation precisions >= 2 and torch.clamp/round/floor semantics.',
    'technique': 'divisor-provenance classification (path-sensitive) + pipeline shape recognition '
                 '+ interval/monotonicity domain + polynomial normal form',
}
