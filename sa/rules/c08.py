"""C08 — no parameter setting can search a layer out of existence (structural clauses).

 R08a keep-alive dominance: in every trainable masker theta = [C @] (|p|*(1-ka)+ka) with ka a
      0/1 constant that has a one, so some element of theta is >= 1 for every real p; the
      binariser maps it to 1 because every layer's threshold is a constant < 1 and the
      binariser compares ``x > threshold``.
 R08b same tap: the certainly-alive element of the receptive-field mask and of the dilation
      mask is the same (END) tap, so their product keeps a tap (kernel >= 1).
 R08c dilation >= 1: dilation_opt = (non-negative run length + 1) * original dilation.
 R08d frozen groups: theta of a masker frozen by construction does not depend on any
      nn.Parameter; the frozen features masker is chosen exactly for width groups touching
      inputs / outputs / output-connected nodes and its theta is an all-ones constant; frozen
      time maskers are chosen exactly for strided convolutions.
 R08e (= C09 R09a/R09e/R09f) op classification and sharing graph agree: depthwise layers keep
      their producer's masker, width-following ops are not cut out of their group.
"""
from __future__ import annotations

import ast
from typing import List

from ..anchor import E, S
from ..model import AnalysisError, ClassInfo
from ..pitlib import (analyse_masker, frozen_masker_classes, masker_classes, pit_layer_classes,
                      registered_buffers, storage_kinds)
from ..sym import NONE, mentions, show, subterms
from ..util import (SELF, arg, callee, guards_of, path_guards, is_call, method_call, paths, returning,
                    short, where)
from .c01 import time_maskers

EXPLANATION = ('Abstract interpretation of the mask constants (anchor domain) and of theta '
               '(keep-alive blend recognised in polynomial normal form), constant analysis of '
               'binarisation thresholds, def-use check of dilation_opt, storage-kind analysis of '
               'frozen maskers and path conditions of the sites that create them. Decides that '
               'at least one feature / tap survives for every real parameter vector; does not '
               'run the exported network.')
RULE_TEXT = ('obligation = one masker class / layer constructor / creation site and one clause; '
             'all maskers are discovered structurally (classes with theta + trainable)')


def r08a(ctx):
    repo = ctx.repo
    frozen = frozen_masker_classes(repo)
    n = 0
    for ci in masker_classes(repo):
        if ci in frozen:
            continue
        n += 1
        mi = analyse_masker(repo, ci)
        if mi.error:
            raise AnalysisError(f'R08a: cannot model theta of {ci.name}: {mi.error}')
        ctx.ob('R08a', f'{ci.name}.theta keep-alive blend', mi.blend_ok,
               'theta = [C @] (|p|*(1-ka)+ka)' if mi.blend_ok else
               f'every path from the parameter to theta must pass through |p|*(1-ka)+ka: '
               f'{mi.blend_msg}', where(mi.theta_fn))
        if mi.blend_ok:
            ex1 = mi.exact_at_one == ('const', 1)
            ex0 = mi.exact_at_zero == mi.abs_term
            ctx.ob('R08a', f'{ci.name}.theta keep-alive exact for huge |p|', ex1 and ex0,
                   'at ka = 1 the blend is |p|*0 + 1 = 1 and at ka = 0 it is |p|, exactly, for '
                   'every finite |p|' if ex1 and ex0 else
                   f'the blend equals |p|*(1-ka)+ka only in real arithmetic: at ka = 1 it '
                   f'evaluates {short(mi.exact_at_one, 80)}, which relies on a cancellation that '
                   f'float32 does not perform for |p| >= 2**24 (the 1 is absorbed): a huge mask '
                   f'value on the keep-alive element makes it 0 and the layer can be pruned away',
                   where(mi.theta_fn))
        has_one = mi.ka is not None and (mi.ka.at[S] is True or mi.ka.at[E] is True)
        ctx.ob('R08a', f'{ci.name} keep-alive constant has a one', has_one,
               f'keep-alive {mi.ka}' if has_one else
               f'the keep-alive constant {mi.ka} has no element that is certainly 1 (with the '
               f'default arguments): every element of the mask can be pruned',
               where(mi.theta_fn))
        alive = mi.alive[S] is True or mi.alive[E] is True
        ctx.ob('R08a', f'{ci.name}.theta has a certainly-alive element', alive,
               f'alive positions {mi.alive}' if alive else
               f'no element of theta is >= 1 for every parameter value (keep-alive {mi.ka}, '
               f'C {mi.c})', where(mi.theta_fn))
    ctx.floor('R08a', 'trainable maskers', n, 3)

    # keep_alive_channels: default >= 1 and never overridden with something else
    for ci in masker_classes(repo):
        init = ci.methods.get('__init__')
        if init is None:
            continue
        dv = init.defaults().get('keep_alive_channels')
        if dv is not None:
            ok = isinstance(dv, ast.Constant) and isinstance(dv.value, int) and dv.value >= 1
            ctx.ob('R08a', f'{ci.name}.__init__ keep_alive_channels default', ok,
                   f'default {ast.unparse(dv)} >= 1' if ok else
                   f'default keep_alive_channels is {ast.unparse(dv)}: no channel is kept alive',
                   where(init), nontrivial=False)
    n_sites = 0
    for fn in repo.all_functions():
        for p in paths(repo, fn):
            for e in p.calls():
                t = e.data[0]
                c = callee(t)
                if c in repo.classes and repo.classes[c] in masker_classes(repo) and \
                        'keep_alive_channels' in (repo.classes[c].methods.get('__init__') or
                                                  fn).all_params:
                    n_sites += 1
                    v = arg(t, 2, 'keep_alive_channels')
                    ok = v is None or (v[0] == 'const' and isinstance(v[1], int) and v[1] >= 1) \
                        or v == ('param', 'keep_alive_channels')
                    ctx.ob('R08a', f'{fn.qualname.split("plinio.")[-1]} creates '
                           f'{repo.classes[c].name}', ok,
                           'keep_alive_channels left at its (>= 1) default' if ok else
                           f'keep_alive_channels = {show(v)}', where(fn, e.node),
                           nontrivial=False)
    ctx.count('R08a:masker creation sites', n_sites)

    # binarisation: threshold constant < 1, comparison x > threshold
    binz = repo.cls('PITBinarizer')
    fwd = binz.methods.get('forward')
    for p in returning(paths(repo, fwd)):
        t = p.retval
        cmp = [x for x in subterms(t) if x[0] == 'cmp']
        for x in subterms(t):       # torch.gt(x, t) / x.gt(t): the same comparison
            if is_call(x, 'torch.gt', 'torch.ge', 'torch.greater', 'torch.greater_equal') and \
                    len(x[2]) == 2:
                cmp.append(('cmp', '>', x[2][0], x[2][1]))
            mcx = method_call(x)
            if mcx and mcx[1] in ('gt', 'ge') and len(mcx[2]) == 1:
                cmp.append(('cmp', '>', mcx[0], mcx[2][0]))
        ok = len(cmp) == 1 and cmp[0][1] in ('>', '>=') and \
            cmp[0][2] == ('sub', ('param', 'args'), ('const', 0)) and \
            cmp[0][3] == ('sub', ('param', 'args'), ('const', 1))
        ctx.ob('R08a', 'PITBinarizer.forward comparison', ok,
               'mask = (x > threshold)' if ok else
               f'binariser computes {short(t)}: an element equal to the keep-alive value 1 must '
               f'map to 1 (x > threshold with x first, threshold second)', where(fwd))
    n_thr = 0
    for ci in pit_layer_classes(repo):
        init = ci.methods.get('__init__')
        if init is None or 'binarization_threshold' not in init.all_params:
            continue
        n_thr += 1
        dv = init.defaults().get('binarization_threshold')
        ok = isinstance(dv, ast.Constant) and isinstance(dv.value, (int, float)) and \
            0 <= dv.value < 1
        ctx.ob('R08a', f'{ci.name}.__init__ binarization_threshold default', ok,
               f'default threshold {ast.unparse(dv) if dv else None} in [0, 1)' if ok else
               f'default threshold {ast.unparse(dv) if dv else None} is not below the keep-alive '
               f'value 1: the kept element would be binarised to 0', where(init))
        stored = [e for p in paths(repo, init) for e in p.events
                  if e.kind == 'setattr' and e.data[0] == SELF and
                  e.data[1] == 'binarization_threshold']
        okst = stored and all(e.data[2] == ('param', 'binarization_threshold') for e in stored)
        ctx.ob('R08a', f'{ci.name}.__init__ stores the threshold', bool(okst),
               'self.binarization_threshold <- the constructor argument' if okst else
               'self.binarization_threshold is not the constructor argument', where(init),
               nontrivial=False)
        # creation sites do not override it
        for fn in ci.methods.values():
            for p in paths(repo, fn):
                for e in p.calls():
                    t = e.data[0]
                    if callee(t) == ci.qualname:
                        v = arg(t, None, 'binarization_threshold')
                        pos = init.params.index('binarization_threshold') - 1
                        if pos < len(t[2]):
                            v = t[2][pos]
                        okc = v is None or (v[0] == 'const' and 0 <= v[1] < 1)
                        ctx.ob('R08a', f'{fn.qualname.split("plinio.")[-1]} creates {ci.name}',
                               okc, 'threshold left at its default' if okc else
                               f'threshold overridden with {show(v)}', where(fn, e.node),
                               nontrivial=False)
    ctx.floor('R08a', 'layers with a binarisation threshold', n_thr, 3)


def r08b(ctx):
    roles = time_maskers(ctx)
    ctx.floor('R08b', 'time-mask roles', len(roles), 2)
    alive_by_role = {}
    for role, classes in sorted(roles.items()):
        for ci in classes:
            mi = analyse_masker(ctx.repo, ci)
            if mi.error:
                raise AnalysisError(f'R08b: cannot model theta of {ci.name}: {mi.error}')
            if not mi.blend_ok:
                ctx.ob('R08b', f'{ci.name}.theta keep-alive blend', False,
                       f'theta is not [C @] (|p|*(1-ka)+ka): {mi.blend_msg} — no tap is kept '
                       f'alive by construction', where(mi.theta_fn))
                continue
            alive_by_role.setdefault(role, []).append((ci, mi))
    # every combination (one masker per role) must share a certainly-alive tap
    rs = sorted(alive_by_role)
    if len(rs) < 2:
        return
    import itertools
    for combo in itertools.product(*[alive_by_role[r] for r in rs]):
        common = [pos for pos in (S, E) if all(mi.alive[pos] is True for _, mi in combo)]
        names = ' x '.join(ci.name for ci, _ in combo)
        ctx.ob('R08b', f'shared alive tap {names}', bool(common),
               f'both masks keep the {common[0]} tap' if common else
               'the masks have no common tap that is alive for every parameter value: ' +
               ', '.join(f'{ci.name} keeps '
                         f'{[p for p in (S, E) if mi.alive[p] is True] or "nothing certain"}'
                         for ci, mi in combo) + ' — their product (the kernel) can become empty',
               where(combo[-1][1].theta_fn))


def r08c(ctx):
    n = 0
    for ci in pit_layer_classes(ctx.repo):
        g = ci.getters.get('dilation_opt')
        if g is None:
            continue
        n += 1
        for p in returning(paths(ctx.repo, g)):
            t = p.retval
            plus1 = [x for x in subterms(t) if x[0] == 'bin' and x[1] == '+' and
                     ('const', 1) in (x[2], x[3])]
            ok = False
            msg = 'no "+ 1" over a run length'
            for x in plus1:
                other = x[2] if x[3] == ('const', 1) else x[3]
                if is_call(other, 'builtins.max'):
                    d = arg(other, None, 'default')
                    if d is not None and d[0] == 'const' and d[1] >= 0:
                        ok = True
                    else:
                        msg = f'max(...) default is {show(d) if d else "missing"}'
                elif is_call(other, 'builtins.len', 'builtins.sum'):
                    ok = True
            # no subtraction / negative factor applied afterwards
            neg = [x for x in subterms(t) if (x[0] == 'bin' and x[1] == '-') or
                   (x[0] == 'const' and isinstance(x[1], (int, float)) and
                    not isinstance(x[1], bool) and x[1] < 0)]
            ok = ok and not neg
            ctx.ob('R08c', f'{ci.name}.dilation_opt >= 1', ok,
                   'dilation = (run length >= 0) + 1, times the original dilation' if ok else
                   f'dilation_opt = {short(t, 200)} is not provably >= 1 ({msg}'
                   f'{"; negative term" if neg else ""})', where(g))
    ctx.floor('R08c', 'layers with dilation_opt', n, 1)


def r08d(ctx):
    repo = ctx.repo
    frozen = frozen_masker_classes(repo)
    ctx.floor('R08d', 'frozen masker classes', len(frozen), 3)
    for ci in frozen:
        mi = analyse_masker(repo, ci)
        kinds = storage_kinds(repo, ci)
        params = sorted(k for k, v in kinds.items() if v == 'param')
        ctx.ob('R08d', f'{ci.name}.theta independent of parameters', not mi.reads_param,
               'theta reads no nn.Parameter' if not mi.reads_param else
               f'theta of a masker frozen by construction reads the nn.Parameter(s) {params}: an '
               f'optimizer step (or weight decay) on them prunes a mask that must stay open',
               where(mi.theta_fn))
        if mi.buffer_only is not None:
            bufs = registered_buffers(repo, ci)
            init_t = bufs[mi.buffer_only][0]
            ok = is_call(init_t, 'torch.ones')
            ctx.ob('R08d', f'{ci.name}.theta is all ones', ok,
                   'constant all-ones mask (full width kept)' if ok else
                   f'frozen mask constant is {short(init_t)}', where(mi.theta_fn))
    # selection of the frozen features masker
    bs = repo.fn('build_shared_features_map')
    froz_f = [c for c in frozen if mi_is_features(repo, c)]
    seen = {'frozen': 0, 'plain': 0}
    for p in paths(repo, bs):
        sites = []
        for e in p.calls():
            t = e.data[0]
            c = callee(t)
            if c in repo.classes:
                sites.append((e, c, []))
            elif t[1][0] == 'ifexp' and all(x[0] == 'global' and x[1] in repo.classes
                                            for x in (t[1][2], t[1][3])):
                # (A if cond else B)(args): one creation site per alternative, under cond
                sites.append((e, t[1][2][1], [(t[1][1], True)]))
                sites.append((e, t[1][3][1], [(t[1][1], False)]))
        for e, c, extra in sites:
            if repo.find_getter(repo.classes[c], 'theta') is not None:
                is_frozen = repo.classes[c] in frozen
                conds = [(a, v) for a, v in path_guards(p, e) + extra
                         if mentions(a, lambda x: x[0] == 'global' and
                                     x[1].endswith(('get_graph_inputs', 'get_graph_outputs')))
                         or mentions(a, lambda x: x == ('const', 'output_connected'))]
                need = {'get_graph_inputs': False, 'get_graph_outputs': False,
                        'output_connected': False}
                for a, v in conds:
                    for k in need:
                        if mentions(a, lambda x, k=k: (x[0] == 'global' and x[1].endswith(k)) or
                                    x == ('const', k)):
                            need[k] = need[k] or True
                pol = {v for _, v in conds}
                # each of the three tests ranges over EVERY node of the width group (the
                # component the creating loop iterates), not only over the node that sizes
                # the masker
                loops = [x for x in e.ctx if x[0] == 'loop' and x[2] is not None]
                group = None
                for lp in loops:
                    if lp[2][0] == 'elem':          # for n in <component>
                        group = lp[2]
                if group is None and any(need.values()) and is_frozen:
                    # a frozen masker created outside the node loop of the group (the group
                    # whose width nothing defines): its guard mentions the three tests only
                    # through the value of the masker chosen before; nothing to quantify here,
                    # the trainable site carries the obligation
                    need = dict.fromkeys(need, False)
                if group is None and any(need.values()):
                    raise AnalysisError('R08d: width-group loop of build_shared_features_map '
                                        'not found')
                for k in need:
                    def has_k(x, k=k):
                        return mentions(x, lambda y: (y[0] == 'global' and y[1].endswith(k)) or
                                        y == ('const', k))
                    quantified = False
                    for a, _v in conds:
                        for x in subterms(a):
                            if is_call(x, 'builtins.any', 'builtins.all') and x[2] and \
                                    x[2][0][0] == 'comp' and x[2][0][3] and \
                                    x[2][0][3][0][1] == group and has_k(x[2][0][2][0]):
                                own = [y for y in subterms(x[2][0][2][0])
                                       if y[0] == 'elem' and y[1] == group]
                                outer = [y for y in own if any(y == ('elem', lp[2], lp[1])
                                                               for lp in loops)]
                                if own and not outer:
                                    quantified = True
                    if need[k]:
                        ctx.ob('R08d', f'build_shared_features_map tests {k} on every node of '
                               f'the width group ({repo.classes[c].name} site)', quantified,
                               'any(... for node in group)' if quantified else
                               f'the {k} test is not quantified over all nodes of the width group '
                               f'(only the node that sizes the masker is tested): a group that '
                               f'reaches the network interface through another node (an '
                               f'activation after the last layer) gets a trainable masker and '
                               f'the output width can be pruned', where(bs, e.node))
                if is_frozen:
                    # keeping a width is never what prunes a layer away: a frozen masker may
                    # also be created for another reason (a group whose width nothing defines);
                    # what matters is that the trainable class is excluded from the three cases
                    ok = True
                    seen['frozen'] += 1
                else:
                    ok = all(need.values()) and pol == {False}
                    seen['plain'] += 1
                ctx.ob('R08d', f'build_shared_features_map creates {repo.classes[c].name}', ok,
                       (('frozen masker on an input/output-connected group'
                         if conds and True in pol else
                         'frozen masker for a group kept for another reason') if is_frozen else
                        'trainable masker only when the group touches no input, output or '
                        'output-connected node') if ok else
                       (f'{repo.classes[c].name} is created under conditions '
                        f'{[(short(a, 80), v) for a, v in conds]}: the frozen class must be '
                        f'selected exactly when the width group touches a graph input, a graph '
                        f'output or an output-connected node'), where(bs, e.node))
    ctx.ob('R08d', 'build_shared_features_map creates both kinds',
           seen['frozen'] > 0 and seen['plain'] > 0,
           f'creation sites: {seen}', where(bs), nontrivial=False)
    # selection of frozen time maskers: stride != 1
    n = 0
    for ci in pit_layer_classes(repo):
        ai = ci.methods.get('autoimport')
        if ai is None or ci.methods.get('_time_mask') is None:
            continue
        for p in paths(repo, ai):
            for e in p.calls():
                t = e.data[0]
                if callee(t) == ci.qualname:
                    for role in ('timestep_masker', 'dilation_masker'):
                        init = ci.methods['__init__']
                        v = arg(t, init.params.index(role) - 1, role)
                        n += 1
                        ok = v is not None and v[0] == 'ifexp' and \
                            _is_stride_ne_1(v[1]) and _cls_in(repo, v[2], frozen) and \
                            not _cls_in(repo, v[3], frozen)
                        ctx.ob('R08d', f'{ci.name}.autoimport {role}', ok,
                               'frozen masker iff stride != 1' if ok else
                               f'{role} = {short(v) if v else None}: the receptive field and '
                               f'dilation of a strided convolution must be frozen (and only '
                               f'those)', where(ai, e.node))
    ctx.floor('R08d', 'time-masker selection sites', n, 2)


def mi_is_features(repo, c):
    return 'Features' in c.name


def _is_stride_ne_1(c) -> bool:
    return c[0] == 'cmp' and c[1] == '!=' and c[3] == ('const', 1) and \
        mentions(c[2], lambda x: x[0] == 'attr' and x[2] == 'stride')


def _cls_in(repo, t, classes) -> bool:
    c = callee(t)
    return c in repo.classes and repo.classes[c] in classes


def r08f(ctx, rule='R08f'):
    """Widths tied to the network output are frozen, on graphs: build_shared_features_map is
    interpreted (finite interpreter; networkx and the fx graph replaced by small concrete
    stand-ins) on graph worlds, and every width-defining layer whose features reach the
    output through nodes that do not define a width of their own (activations, pooling,
    flatten, element-wise sums, channel concatenations) must receive the frozen masker:
    export would otherwise remove output channels."""
    from ..mini import Mini, Obj, Raised, Token, Unsupported
    repo = ctx.repo
    fn = repo.fn('pit.graph.build_shared_features_map')

    nnp = Obj('pkg')
    for _t in ('Conv1d', 'Conv2d', 'Linear', 'BatchNorm1d', 'BatchNorm2d', 'ReLU', 'Module'):
        nnp.attrs[_t] = Token('cls:' + _t)
    TYPE_OF = {'def': 'Conv2d', 'dw': 'Conv2d', 'prop': 'ReLU'}

    def build(spec, out_pred):
        """spec: name -> (kind, [input names]); kinds: in, def (convolution), prop (activation),
        cat, dw (depthwise convolution: a layer that propagates the width of its input)"""
        nodes = {}
        for name, (kind, _ins) in spec.items():
            o = Obj('Node')
            tm = Obj('TensorMeta')
            tm.attrs.update({'shape': (2, 4, 8, 8), '_len': 7})
            o.attrs.update({'name': name, 'op': 'placeholder' if kind == 'in' else 'call_module',
                            'meta': {'untouchable': False,
                                     'features_concatenate': kind == 'cat',
                                     'features_defining': kind == 'def',
                                     'features_propagating': kind in ('prop', 'dw'),
                                     'flatten': False, 'squeeze': False, 'unsqueeze': False,
                                     'tensor_meta': tm}, '_kind': kind,
                            '_type': nnp.attrs.get(TYPE_OF.get(kind, ''))})
            nodes[name] = o
        out = Obj('Node')
        tmo = Obj('TensorMeta')
        tmo.attrs.update({'shape': (2, 4, 8, 8), '_len': 7})
        out.attrs.update({'name': 'output', 'op': 'output', '_kind': 'out',
                          'meta': {'untouchable': False, 'features_concatenate': False,
                                   'features_defining': False, 'features_propagating': False,
                                   'flatten': False, 'squeeze': False, 'unsqueeze': False,
                                   'tensor_meta': tmo}})
        edges = set()
        for name, (_k, ins) in spec.items():
            nodes[name].attrs['all_input_nodes'] = [nodes[i] for i in ins]
            for i in ins:
                edges.add((id(nodes[i]), id(nodes[name])))
        out.attrs['all_input_nodes'] = [nodes[out_pred]]
        edges.add((id(nodes[out_pred]), id(out)))
        allnodes = list(nodes.values()) + [out]
        return nodes, out, allnodes, edges

    class _G(Mini):
        def expr(self, e, env):
            if isinstance(e, ast.Attribute):
                o = self.expr(e.value, env)
                if isinstance(o, Obj):
                    if e.attr in o.attrs:
                        return o.attrs[e.attr]
                    if o.cls_name == 'DiGraph' and e.attr == 'nodes':
                        return list(o.attrs['_nodes'])
                return ('boundmethod', o, e.attr)
            return super().expr(e, env)

        def builtin(self, name, args, kwargs, node):
            if name == 'len' and isinstance(args[0], Obj) and '_len' in args[0].attrs:
                return args[0].attrs['_len']
            if name == 'hasattr':
                return isinstance(args[0], Obj) and args[1] in args[0].attrs
            return super().builtin(name, args, kwargs, node)

        def method(self, o, name, args, kwargs, node):
            if isinstance(o, Obj) and o.cls_name == 'DiGraph':
                N, E = o.attrs['_nodes'], o.attrs['_edges']
                if name == 'predecessors':
                    return [u for u in N if (id(u), id(args[0])) in E]
                if name == 'successors':
                    return [v for v in N if (id(args[0]), id(v)) in E]
                if name == 'remove_edge':
                    E.discard((id(args[0]), id(args[1])))
                    return None
                if name == 'remove_edges_from':
                    for u, v in args[0]:
                        E.discard((id(u), id(v)))
                    return None
                if name == 'remove_node':
                    o.attrs['_nodes'] = [x for x in N if x is not args[0]]
                    o.attrs['_edges'] = {(a, b) for a, b in E
                                         if a != id(args[0]) and b != id(args[0])}
                    return None
                if name == 'in_edges':
                    return [(u, args[0]) for u in N if (id(u), id(args[0])) in E]
            if isinstance(o, dict) and name == 'get':
                return o.get(args[0], args[1] if len(args) > 1 else None)
            return super().method(o, name, args, kwargs, node)

    def components(g):
        N, E = g.attrs['_nodes'], g.attrs['_edges']
        left = list(N)
        out = []
        while left:
            comp, todo = [], [left.pop(0)]
            while todo:
                x = todo.pop()
                comp.append(x)
                for y in list(left):
                    if (id(x), id(y)) in E or (id(y), id(x)) in E:
                        left.remove(y)
                        todo.append(y)
            out.append(comp)
        return out
    worlds = {
        'last layer followed by an activation':
            ({'x': ('in', []), 'c1': ('def', ['x']), 'r1': ('prop', ['c1']),
              'c2': ('def', ['r1']), 'r2': ('prop', ['c2'])}, 'r2', ['c2']),
        'output is a residual sum':
            ({'x': ('in', []), 's': ('def', ['x']), 'a': ('def', ['s']), 'b': ('def', ['s']),
              'add': ('prop', ['a', 'b'])}, 'add', ['a', 'b']),
        'output is a channel concatenation':
            ({'x': ('in', []), 's': ('def', ['x']), 'a': ('def', ['s']), 'b': ('def', ['s']),
              'cat': ('cat', ['a', 'b'])}, 'cat', ['a', 'b']),
        'channel concatenation followed by an activation':
            ({'x': ('in', []), 's': ('def', ['x']), 'a': ('def', ['s']), 'b': ('def', ['s']),
              'cat': ('cat', ['a', 'b']), 'r': ('prop', ['cat'])}, 'r', ['a', 'b']),
        # a depthwise layer takes its masker from its input; a concatenation has none to give
        'channel concatenation feeding a depthwise convolution':
            ({'x': ('in', []), 's': ('def', ['x']), 'a': ('def', ['s']), 'b': ('def', ['s']),
              'cat': ('cat', ['a', 'b']), 'dw': ('dw', ['cat']), 'r': ('prop', ['dw']),
              'c2': ('def', ['r']), 'r2': ('prop', ['c2'])}, 'r2', ['c2'], ['dw', 'a', 'b']),
        'channel concatenation, activation, depthwise convolution':
            ({'x': ('in', []), 's': ('def', ['x']), 'a': ('def', ['s']), 'b': ('def', ['s']),
              'cat': ('cat', ['a', 'b']), 'r0': ('prop', ['cat']), 'dw': ('dw', ['r0']),
              'c2': ('def', ['dw']), 'r2': ('prop', ['c2'])}, 'r2', ['c2'], ['dw', 'a', 'b']),
        # ... while a concatenation feeding an ordinary convolution leaves its inputs searchable
        'channel concatenation feeding a convolution':
            ({'x': ('in', []), 's': ('def', ['x']), 'a': ('def', ['s']), 'b': ('def', ['s']),
              'cat': ('cat', ['a', 'b']), 'c2': ('def', ['cat']), 'r2': ('prop', ['c2'])},
             'r2', ['c2'], []),
        'depthwise convolution after a convolution':
            ({'x': ('in', []), 's': ('def', ['x']), 'a': ('def', ['s']), 'dw': ('dw', ['a']),
              'c2': ('def', ['dw']), 'r2': ('prop', ['c2'])}, 'r2', ['c2'], []),
    }
    n = 0
    for label, wd in worlds.items():
        spec, out_pred, must_freeze = wd[:3]
        tied = wd[3] if len(wd) > 3 else None
        nodes, out, allnodes, edges = build(spec, out_pred)
        g = Obj('DiGraph')
        g.attrs.update({'_nodes': list(allnodes), '_edges': set(edges)})
        graph = Obj('Graph')
        graph.attrs['nodes'] = list(allnodes)
        mod = Obj('GraphModule')
        mod.attrs['graph'] = graph
        nx = Obj('pkg')
        nx.attrs['weakly_connected_components'] = Token('wcc', components)
        fxp = Obj('pkg')
        fxp.attrs['Node'] = Token('cls:Node')
        glob = {
            'fx_to_nx_graph': Token('fx_to_nx_graph', lambda _g: g),
            'get_graph_inputs': Token('get_graph_inputs',
                                      lambda _g: [x for x in allnodes
                                                  if x.attrs['op'] == 'placeholder']),
            'get_graph_outputs': Token('get_graph_outputs', lambda _g: [out]),
            'nx': nx, 'fx': fxp, 'cast': Token('cast', lambda _t, v: v),
            'PITFrozenFeaturesMasker': Token('Frozen', lambda *_a: 'FROZEN'),
            'PITFeaturesMasker': Token('Plain', lambda *_a: 'PLAIN'),
            'nn': nnp,
            'is_layer': Token('is_layer', lambda nd, _m, types: isinstance(nd, Obj) and any(
                nd.attrs.get('_type') is t for t in (types if isinstance(types, (tuple, list))
                                                     else (types,)))),
        }
        # the other functions of the module (steps the function may be split into)
        for st in fn.module.tree.body:
            if isinstance(st, ast.FunctionDef) and st is not fn.node and st.name not in glob:
                glob[st.name] = Token('fn:' + st.name,
                                      lambda *a, _n=st: _G(glob).call_function(_n, list(a)))
        try:
            res = _G(glob).call_function(fn.node, [mod])
        except (Unsupported, Raised) as ex:
            raise AnalysisError(f'{rule}: build_shared_features_map is outside the interpreted '
                                f'subset: {ex}')
        if not isinstance(res, dict):
            raise AnalysisError(f'{rule}: build_shared_features_map did not return a map')
        n += 1
        got = {name: next((v for k, v in res.items() if k is nodes[name]), None)
               for name in must_freeze}
        bad = sorted(k for k, v in got.items() if v != 'FROZEN')
        ctx.ob(rule, f'output-tied widths are frozen: {label}', not bad,
               f'{must_freeze} get the frozen masker' if not bad else
               f'layers {bad} produce the features of the network output (through '
               f'{out_pred}) but get {[got[k] for k in bad]}: their masks are trainable NAS '
               f'parameters, the search can prune them and export() then returns a network with '
               f'fewer output features than the model it was searched from', where(fn))
        if tied is None:
            continue
        # every layer that reads a masker gets one, and a width group whose masker cannot be
        # searched (no node of it defines the width) is kept together with the tensors
        # concatenated into it; groups that do define their width stay searchable
        val = {name: next((v for k, v in res.items() if k is nodes[name]), None)
               for name in spec if spec[name][0] in ('def', 'dw')}
        none = sorted(k for k, v in val.items() if v is None)
        loose = sorted(k for k in tied if val.get(k) != 'FROZEN') if tied else []
        okw = not none and not loose
        ctx.ob(rule, f'every masked layer gets a masker: {label}', okw,
               f'maskers {val}' if okw else
               (f'layer(s) {none} read a features masker but the map gives them None: the '
                f'converted model raises at its first forward pass' if none else
                f'layer(s) {loose} get {[val.get(k) for k in loose]}: the depthwise layer behind '
                f'the concatenation has no searchable masker of its own, so its width and the '
                f'widths concatenated into it must be kept together (export would otherwise '
                f'build a depthwise layer whose channels differ from its input)'),
               where(fn))
    ctx.floor(rule, 'graph worlds', n, 8)


def run(ctx):
    r08f(ctx)
    r08a(ctx)
    r08b(ctx)
    r08c(ctx)
    r08d(ctx)
    # the minimal receptive field is exported too (shared with C01 R01e)
    from .c01 import pad_guard_rule
    pad_guard_rule(ctx, 'R08g')
    # R08h "export() therefore always succeeds ... with layer sizes equal to those summary()
    # reports": the minimal architecture R08a-c guarantee (one feature, one tap) is also sliced
    # correctly -- every subscript of export uses the layer mask of its axis, as a boolean mask
    # or as a rank-stable index (an index squeezed without an axis becomes 0-dimensional exactly
    # at the keep-alive minimum and drops the sliced axis) -- and the constructor receives the
    # searched sizes (C01's export rules, shared)
    from . import c01
    before = len(ctx.obligations)
    c01.r01_export(ctx, c01.pit_layer_classes(ctx.repo))
    # ... and the sizes it receives (and summary() reports) are the element counts of the very
    # masks forward and the slicing use: a count taken with another comparison (>= instead of
    # the binarizer's >) differs exactly for a parameter that sits on the threshold
    c01.r01f(ctx, c01.pit_layer_classes(ctx.repo))
    for o in ctx.obligations[before:]:
        o.rule = 'R08h'
    # which layers share a masker -- and therefore which layers are frozen with the group that
    # touches the network interface, and which keep the width of their producer -- is decided by
    # the op classification and by the sharing graph built from it (C09): a depthwise layer
    # classified as width-defining gets a trainable masker of its own even when it is tied to
    # the network input
    from . import c09
    before = len(ctx.obligations)
    c09.r09a(ctx)
    c09.r09e(ctx)
    c09.r09f(ctx)
    for o in ctx.obligations[before:]:
        o.rule = 'R08e'
    ctx.assume('real (finite or infinite) parameter values: |p| >= 0, 0/1 constant matrices')
    ctx.assume('axis lengths > 1 when distinguishing START from END')


MANIFEST = {
    'text': 'For every real value of the mask parameters at once: each trainable mask has an '
            'element that is >= 1 (keep-alive blend + constant analysis), it binarises to 1 '
            '(threshold < 1, x > threshold), the two time masks keep the same tap so their '
            'product is non-empty, dilation >= 1, frozen maskers do not depend on parameters and '
            'are created exactly where the width/time axis must stay fixed. That export then '
            'runs on the original input shape is not decided.',
    'note': 'Trusted: anchor-domain transfer functions for list/flip/triu/transpose/comprehension '
            'constants; keep_alive_channels and thresholds are the constructor defaults (creation '
            'sites are checked not to override them).',
    'technique': 'abstract interpretation (anchor + keep-alive blend), constant and path-condition '
                 'analysis of creation sites, storage-kind analysis',
}
