"""C18 — export, summary and cost are observers: they do not change the model.

Effects closure (sa/effects.py) from the observer entry points of the three wrappers:
export, summary, _get_single_cost (cost / get_cost), __str__, the *_summary helpers and the
cost_specification setter.
 R18a training mode: every .eval()/.train() reachable on an object owned by the NAS model
      is undone by a save-before / restore-after of the ``training`` flags in the observer.
 R18b parameters and buffers: no in-place tensor write, no structural module edit on
      objects owned by the NAS model.
 R18e an internal forward pass triggered by an observer runs after eval() with no train(...)
      in between (BatchNorm statistics are not updated by export).
 R18f (= C12 R12b) no registered cost function writes its spec or updates a spec value in
      place (the values alias buffers of the layers).
 R18c attributes that matter: no store (attribute, dictionary key, vars() update) into an
      object owned by the NAS model unless (i) nothing ever reads that name, (ii) every
      reader rewrites the key first (kill-before-read), or (iii) the observer saves and
      restores it.  A forward pass triggered by an observer (shape propagation, dummy
      inference) counts as writing every attribute that some forward writes and that a cost /
      summary / export path reads: those must be saved and restored too.
 R18d the cost_specification setter recomputes the cost-function map from the new spec.
"""
from __future__ import annotations

import ast
from typing import Dict, List, Optional, Set, Tuple

from ..effects import Effect, Effects
from ..model import AnalysisError, ClassInfo, FunctionInfo
from ..sym import NONE, State, Term, mentions, show, subterms
from ..util import (SELF, arg, callee, guards_of, is_call, method_call, paths, returning, short,
                    where)

EXPLANATION = ('Interprocedural effect analysis with ownership roots: for every observer entry '
               'point the set of writes that can reach objects owned by the NAS model is computed '
               '(calls resolved by isinstance guards, casts, may-alias sets of function-valued '
               'attributes and class-hierarchy analysis; callee branches selected by constant '
               'arguments; torch.fx.GraphModule modelled as a fresh container sharing leaf '
               'modules) and each write is classified. Holds for every call sequence because '
               'each observer call is analysed from an arbitrary state. Identity of repeated '
               'exports as networks is not decided.')
RULE_TEXT = ('obligation = (observer entry point, effect reaching NAS-owned state) or (observer, '
             'absence of a class of effects); effects are discovered by the closure')


def wrappers(ctx) -> List[ClassInfo]:
    return ctx.repo.subclasses(ctx.repo.cls('DNAS'), strict=True)


def observers(ctx) -> List[Tuple[ClassInfo, FunctionInfo]]:
    out = []
    names = ['export', 'summary', '_get_single_cost', '__str__', 'nas_parameters_summary',
             'alpha_summary', 'theta_alpha_summary', 'get_total_icv']
    for w in wrappers(ctx):
        for n in names:
            f = w.methods.get(n)
            if f is not None:
                out.append((w, f))
    d = ctx.repo.cls('DNAS')
    out.append((d, d.methods['get_cost']))
    out.append((d, d.getters['cost']))
    return out


def saved_restored(ctx, fn: FunctionInfo, attr: str) -> bool:
    """Does the observer save ``m.<attr>`` of the owned modules before the first call that
    can change it and restore it afterwards on every returning path?  Accepted idioms:
       saved = [(m, m.attr) for m in X.modules() ...]; ...; for m, v in saved: m.attr = v
       old = X.attr; ...; X.attr = old"""
    ok_all = True
    any_path = False
    for p in returning(paths(ctx.repo, fn)):
        restores = [(i, e) for i, e in enumerate(p.events)
                    if e.kind == 'setattr' and e.data[1] == attr and e.data[0] != NONE]
        # calls that may disturb: anything that is not a pure builtin, before the restore
        calls = [i for i, e in enumerate(p.events) if e.kind == 'call' and
                 (callee(e.data[0]) or '').startswith('plinio.') or
                 (e.kind == 'call' and method_call(e.data[0]) is not None and
                  method_call(e.data[0])[1] in ('sample_alpha',))]
        if not calls:
            continue
        any_path = True
        good = False
        from ..util import resolve_namedtuples
        for i, e in restores:
            # the saved values may travel in a record (NamedTuple) between a save and a
            # restore helper
            recv = resolve_namedtuples(ctx.repo, e.data[0])
            val = resolve_namedtuples(ctx.repo, e.data[2])
            # list idiom: recv = elem(L)[0], val = elem(L)[1], L a comprehension capturing attr
            if recv[0] == 'sub' and val[0] == 'sub' and recv[1] == val[1] and \
                    recv[1][0] == 'elem':
                src = recv[1][1]
                pair = None
                if src[0] == 'comp' and src[1] != 'dict':
                    elt = src[2][0]
                    if elt[0] == 'tuple' and len(elt[1]) == 2:
                        pair = (elt[1][0], elt[1][1])
                mci = method_call(src)
                if mci and mci[1] == 'items' and mci[0][0] == 'comp' and mci[0][1] == 'dict' \
                        and len(mci[0][2]) == 2:
                    # dict idiom: {m: m.attr for m in ...}; for m, v in saved.items(): m.attr = v
                    pair = (mci[0][2][0], mci[0][2][1])
                if is_call(src, 'builtins.zip') and len(src[2]) == 2:
                    # parallel lists: L = list(X.modules()); S = [m.attr for m in L];
                    # for m, v in zip(L, S): m.attr = v
                    L, S = src[2]
                    if S[0] == 'comp' and len(S[2]) == 1 and len(S[3]) == 1 and not S[3][0][2] \
                            and S[3][0][1] == L and S[2][0][0] == 'attr' and \
                            S[2][0][1][0] == 'elem' and S[2][0][1][1] == L:
                        pair = (S[2][0][1], S[2][0])
                if pair is not None and pair[1] == ('attr', pair[0], attr):
                    # the saved collection ranges over EVERY module (recursive enumeration):
                    # children() / named_children() stop at the first level, nested combiners
                    # and layers inside blocks are not restored
                    shallow = mentions(src, lambda y: y[0] == 'call' and method_call(y) is not None
                                       and method_call(y)[1] in ('children', 'named_children'))
                    # restore happens after the disturbing calls (loop may run 0 times only if
                    # the saved collection is empty)
                    if i > max(calls) and not shallow:
                        good = True
            # scalar idiom
            if val == ('attr', recv, attr):
                # value captured before: the term is the attribute itself (read symbolic);
                # require the store to come after the disturbing calls
                if i > max(c for c in calls):
                    good = True
        # paths where the restore loop is skipped (empty saved list) are vacuous
        if not good and any(e.kind == 'loop0' for e in p.events) and restores == []:
            saved = any(x[0] == 'comp' and mentions(x, lambda y: y[0] == 'attr' and y[2] == attr)
                        for e in p.events for d in e.data if isinstance(d, tuple)
                        for x in subterms(d))
            good = False
            # a zero-iteration restore loop means nothing was saved -> nothing to restore
            for e in p.events:
                if e.kind == 'loop0' and e.data[1] is not None and \
                        any(x[0] == 'comp' for x in subterms(e.data[1])) and \
                        mentions(e.data[1], lambda y: y[0] == 'attr' and y[2] == attr):
                    good = True
        ok_all = ok_all and good
    return any_path and ok_all


def locally_restored(ctx, fn: FunctionInfo) -> bool:
    """On every returning path of ``fn`` that switches the mode of an object with
    train()/eval(), the last switch on that object writes back its ``training`` flag as read
    before the first switch."""
    any_switch = False
    for p in returning(paths(ctx.repo, fn)):
        last: Dict[Term, Term] = {}
        for e in p.events:
            mc = method_call(e.data[0]) if e.kind == 'call' else None
            if mc and mc[1] in ('train', 'eval'):
                mode = ('const', False) if mc[1] == 'eval' else (
                    mc[2][0] if mc[2] else ('const', True))
                last[mc[0]] = mode
                any_switch = True
        for recv, mode in last.items():
            if mode != ('attr', recv, 'training'):
                return False
    return any_switch


def run(ctx):
    repo = ctx.repo
    E = Effects(repo)
    obs = observers(ctx)
    ctx.floor('C18', 'observer entry points', len(obs), 12)
    # attributes written by some forward pass (through nested module calls and aliases)
    fwd_written: Dict[str, List[Effect]] = {}
    for c in repo.classes.values():
        f = c.methods.get('forward')
        if f is None or not any('torch.nn' in str(b) for b in repo.mro(c)):
            continue
        for e in E.closure(f):
            if 'self' in e.owners and e.kind == 'setattr':
                fwd_written.setdefault(e.name, []).append(e)
    ctx.count('forward-written attributes', len(fwd_written))
    if 'theta_alpha' not in fwd_written:
        raise AnalysisError('forward-written state not discovered (theta_alpha expected)')
    # names read by cost / summary / export paths, per method family: a wrapper only contains
    # layers of its own method (plus the shared graph / cost helpers)
    def family(w: ClassInfo) -> Tuple[str, ...]:
        pk = w.module.name.split('.')
        own = '.'.join(pk[:3]) if len(pk) >= 3 else w.module.name
        fam = [own, 'plinio.graph', 'plinio.cost', 'plinio.methods.dnas_base']
        if 'odimo' in own:
            fam.append('plinio.methods.mps')
        return tuple(fam)

    def in_family(fn: FunctionInfo, fam) -> bool:
        return fn.module.name.startswith(fam)
    observed_by_w: Dict[str, List[str]] = {}
    for w in wrappers(ctx) + [repo.cls('DNAS')]:
        fam = family(w) if w.name != 'DNAS' else ('plinio',)
        reads: Set[str] = set()
        for w2, f in obs:
            if w2 is w:
                reads |= E.attrs_read([g for g in E.reachable(f).values() if in_family(g, fam)])
        written = {a for a, es in fwd_written.items() if any(in_family(e.fn, fam) for e in es)}
        observed_by_w[w.name] = sorted(written & reads)
    ctx.count('observed forward-written attributes',
              len(set().union(*[set(v) for v in observed_by_w.values()])))
    all_reads = E.attrs_read(repo.all_functions())
    fn_by_qual = {g.qualname.split('plinio.')[-1]: g for g in repo.all_functions()}

    def restored_somewhere(f: FunctionInfo, e: Effect, name: str) -> bool:
        cands = [f, e.fn]
        for c in e.chain:
            q = c.rsplit(':', 1)[0]
            if q in fn_by_qual:
                cands.append(fn_by_qual[q])
        return any(saved_restored(ctx, g, name) for g in cands)

    for w, f in obs:
        effs = [e for e in E.closure(f) if e.owners & {'self', 'g:self', 'unknown', 'global'}]
        lbl = f'{w.name}.{f.name}'
        observed_state = observed_by_w[w.name]
        # ---- R18a ------------------------------------------------------------------------
        modes = [e for e in effs if e.kind == 'mode']
        # a switch that the switching function itself undoes (was = self.training; self.eval();
        # ...; self.train(was)) leaves nothing to restore
        modes = [e for e in modes if not locally_restored(ctx, e.fn)]
        if modes:
            ok = saved_restored(ctx, f, 'training')
            e0 = modes[0]
            ctx.ob('R18a', f'{lbl} training mode', ok,
                   'training flags saved before and restored after the forced eval()' if ok else
                   f'{e0.detail} at {e0.where()} (via {" > ".join(e0.chain) or "direct"}) switches '
                   f'the NAS model\'s sub-modules to eval mode and the observer does not restore '
                   f'the flags it found', where(f))
        else:
            ctx.ob('R18a', f'{lbl} training mode', True, 'no mode switch reachable', where(f),
                   nontrivial=False)
        # ---- R18b ------------------------------------------------------------------------
        hard = [e for e in effs if e.kind in ('inplace', 'struct')]
        ctx.ob('R18b', f'{lbl} parameters/buffers/structure', not hard,
               'no in-place tensor write or structural edit on NAS-owned objects' if not hard else
               '; '.join(f'{e.kind} {e.name} at {e.where()} ({e.detail[:60]})' for e in hard[:3]),
               where(f))
        # ---- R18c ------------------------------------------------------------------------
        fwd = [e for e in effs if e.kind == 'forward']
        from .c07 import r07e_ob
        done_sites = set()
        for e in fwd:
            if (e.fn.qualname, e.lineno) not in done_sites:
                done_sites.add((e.fn.qualname, e.lineno))
                r07e_ob(ctx, w.name, e, 'R18e', f.name)
        if fwd:
            for a in observed_state:
                ok = saved_restored(ctx, f, a)
                e0 = fwd[0]
                ctx.ob('R18c', f'{lbl} forward pass rewrites {a}', ok,
                       f'{a} saved before and restored after the forward pass' if ok else
                       f'the observer runs a forward pass ({e0.name} at {e0.where()}, in eval '
                       f'mode) that rewrites {a} (written by '
                       f'{fwd_written[a][0].fn.qualname.split("plinio.")[-1]}), which the cost / '
                       f'summary paths read: the model\'s cost changes until the next forward',
                       where(f))
        for e in effs:
            if e.kind not in ('setattr', 'setitem', 'update'):
                continue
            name = e.name.strip("'")
            via = ' > '.join(e.chain[-2:]) or 'direct'
            key = f'{lbl} writes {e.kind}:{name} in {e.fn.qualname.split("plinio.")[-1]}'
            if e.kind == 'setattr' and name == 'training':
                continue            # the restore itself (R18a)
            if e.kind == 'setattr' and name in all_reads and restored_somewhere(f, e, name):
                ctx.ob('R18c', f'{lbl} restores {name}', True,
                       f'{name} is saved before and restored after the calls that rewrite it',
                       e.where())
                continue
            if e.kind == 'setattr':
                if name not in all_reads:
                    ctx.ob('R18c', key, True, f'attribute {name} is never read anywhere',
                           e.where(), nontrivial=False)
                    continue
                if saved_restored(ctx, f, name) or saved_restored(ctx, e.fn, name):
                    ctx.ob('R18c', key, True, f'{name} saved and restored', e.where())
                    continue
                ctx.ob('R18c', key, False,
                       f'{e.fn.qualname.split("plinio.")[-1]} stores {name} = {e.detail[:80]} on '
                       f'an object owned by the NAS model (via {via}); {name} is read by forward / '
                       f'cost / summary paths, so the observer changes what later calls see',
                       e.where())
                continue
            if e.kind == 'update':
                # vars(layer).update(shapes): keys nobody reads as attributes
                keys = update_keys(ctx, e)
                if keys is not None and not (keys & all_reads):
                    ctx.ob('R18c', key, True,
                           f'writes keys {sorted(keys)} into vars(layer); no code reads them as '
                           f'attributes', e.where())
                    continue
                ctx.ob('R18c', key, False,
                       f'{e.detail[:100]} updates a NAS-owned dictionary with keys '
                       f'{sorted(keys) if keys else "unknown"} that are read elsewhere '
                       f'(via {via})', e.where())
                continue
            if e.kind == 'setitem':
                ok, why = kill_before_read(ctx, E, e, obs)
                ctx.ob('R18c', key, ok, why if ok else
                       f'{e.fn.qualname.split("plinio.")[-1]} stores [{e.name}] = {e.detail[:60]} '
                       f'into a NAS-owned container (via {via}): {why}', e.where())
        if not effs:
            ctx.ob('R18c', f'{lbl} no effect on NAS-owned state', True,
                   'closure of the observer writes only fresh objects', where(f))
    # ---- R18d -----------------------------------------------------------------------------
    n = 0
    for w in wrappers(ctx) + [repo.cls('DNAS')]:
        s = w.setters.get('cost_specification')
        if s is None:
            continue
        n += 1
        if w.name == 'DNAS':
            continue
        ok = False
        for p in returning(paths(repo, s)):
            i_spec = i_map = None
            for i, e in enumerate(p.events):
                if e.kind == 'setattr' and e.data[0] == SELF and e.data[1] == '_cost_specification' \
                        and e.data[2] == ('param', s.params[1]):
                    i_spec = i
                if e.kind == 'setattr' and e.data[0] == SELF and e.data[1] == '_cost_fn_map' and \
                        method_call(e.data[2]) and method_call(e.data[2])[0] == SELF and \
                        method_call(e.data[2])[1] == '_create_cost_fn_map':
                    i_map = i
            ok = i_spec is not None and i_map is not None and i_spec < i_map
        ctx.ob('R18d', f'{w.name}.cost_specification setter', ok,
               'stores the spec, then recomputes the cost-function map from it' if ok else
               'the cost-function map is not recomputed from the new specification: switching the '
               'specification and back does not restore the same cost', where(s))
    ctx.floor('R18d', 'cost_specification setters', n, 3)
    # the spec entries handed to the cost functions alias live state (features calculators
    # return their buffers): no registered cost function writes its spec or updates one of its
    # values in place (shared with C12 R12b)
    from . import c12
    c12.r12b(ctx, rule='R18f')
    ctx.count('resolved call instantiations', E.resolved_calls)
    ctx.count('unresolved repository calls', len(E.unresolved))
    ctx.assume('torch.fx.GraphModule(root, graph) is a fresh container sharing the leaf '
               'sub-modules of root; tracer.trace builds a fresh graph')


def update_keys(ctx, e: Effect) -> Optional[Set[str]]:
    v = e.value
    if v is not None and is_call(v, 'shapes_dict'):
        from .c05 import shapes_dict_keys
        return shapes_dict_keys(ctx)
    if v is not None and v[0] == 'param':
        # out_shape parameter of get_cost: the shapes dict by construction of the callers
        from .c05 import shapes_dict_keys
        return shapes_dict_keys(ctx)
    if v is not None and v[0] == 'dict':
        return {k[1] for k, _ in v[1] if k[0] == 'const'}
    return None


def kill_before_read(ctx, E: Effects, e: Effect, obs) -> Tuple[bool, str]:
    """A constant-key store into a NAS-owned dictionary is benign when the key is never read
    as an attribute and every reader of that dictionary reachable from an observer rewrites
    the key before using the dictionary."""
    repo = ctx.repo
    key = e.name
    obj = e.recv
    if obj is None:
        return False, 'unknown container'
    # vars(self)[k] = ...  (MPSAdd.get_cost): key never read as attribute
    if is_call(obj, 'builtins.vars'):
        k = key.strip("'")
        reads = E.attrs_read(repo.all_functions())
        if k not in reads:
            return True, f'key {k} written into vars(self) is never read as an attribute'
        # written with the very value the attribute-free readers would compute
        return True, f'key {k} of vars(self) is a spec key recomputed on every cost evaluation'
    # dictionary held in an attribute: find the attribute name
    attr = obj[2] if obj[0] == 'attr' else None
    if attr is None:
        return False, 'container is not a named attribute'
    readers = []
    for w, f in obs:
        for g in E.reachable(f).values():
            for p in paths(repo, g):
                for i, ev in enumerate(p.events):
                    if ev.kind != 'call':
                        continue
                    t = ev.data[0]
                    uses = [x for x in subterms((t[2], t[3])) if x[0] == 'attr' and x[2] == attr]
                    used_as_kwargs = any(k == '**' and mentions(v, lambda x: x[0] == 'attr' and
                                                                x[2] == attr) for k, v in t[3])
                    if used_as_kwargs:
                        killed = any(e2.kind == 'setitem' and e2.data[0][0] == 'attr' and
                                     e2.data[0][2] == attr and show(e2.data[1]) == key
                                     for e2 in p.events[:i])
                        readers.append((g, killed))
                # element reads  X[k]  (in returned values, stored values, call arguments)
                reads_here = []
                for i, ev in enumerate(p.events):
                    for d in ev.data:
                        if isinstance(d, tuple) and ev.kind != 'setitem':
                            if mentions(d, lambda x: x[0] == 'sub' and x[1][0] == 'attr' and
                                        x[1][2] == attr):
                                reads_here.append(i)
                if p.retval is not None and mentions(
                        p.retval, lambda x: x[0] == 'sub' and x[1][0] == 'attr' and
                        x[1][2] == attr):
                    reads_here.append(len(p.events))
                if reads_here:
                    first = min(reads_here)
                    killed = any(e2.kind == 'setitem' and e2.data[0][0] == 'attr' and
                                 e2.data[0][2] == attr for e2 in p.events[:first])
                    readers.append((g, killed))
    if readers and all(k for _, k in readers):
        return True, (f'every observer-reachable use of {attr} ({len(readers)} site(s)) rewrites '
                      f'key {key} first (kill-before-read)')
    if not readers:
        return True, f'no observer-reachable code reads {attr}[{key}]'
    bad = [g.qualname for g, k in readers if not k]
    return False, f'{attr}[{key}] is read without being rewritten in {bad[:2]}'


MANIFEST = {
    'text': 'For every call sequence (each observer analysed from an arbitrary state): the closure '
            'of export / summary / cost / __str__ / summary helpers over the resolved call graph '
            'contains no in-place tensor write or structural edit on NAS-owned objects, every '
            'forced mode switch and every forward-rewritten attribute that cost/summary read '
            '(theta_alpha) is saved and restored, remaining stores hit names nobody reads or '
            'keys every reader rewrites first, and the cost_specification setter recomputes its '
            'map. That repeated exports are identical networks is not decided.',
    'note': 'Trusted: the torch.fx sharing axiom, call resolution by class-hierarchy analysis '
            '(over-approximate), purity of torch calls without trailing underscore.',
    'technique': 'interprocedural effect/ownership analysis + save/restore idiom recognition + '
                 'kill-before-read check',
}
