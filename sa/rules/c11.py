"""C11 — trainability controls do what they say under every sequence of calls.

Each control is a single call whose effect does not depend on the previous state, so
per-call path rules decide every call sequence (the history quantifier collapses).

 R11a partition: named_net_parameters = named_parameters minus the identity set of
      named_nas_parameters, which itself de-duplicates by identity; train_* set exactly the
      flags their name says.
 R11b frozen masks: a masker frozen by construction owns no nn.Parameter (so nothing can
      make it trainable) and its theta reads no nn.Parameter (so it receives no gradient);
      every store to ``requires_grad`` in the library is enumerated and classified.
 R11c None means untouched: in every update_softmax_options a store that depends on an
      Optional option is reached only when that option is not None; a store that depends on
      no option must be a re-derivation of state from flags that only this method writes.
 R11d setters reach every layer: the wrapper switches loop over the full leaf list.
 R11g (= C08 R08d) the frozen masker classes are selected for every width group tied to the
      network interface (tests quantified over the whole group) and for strided convolutions.
"""
from __future__ import annotations

import ast
from typing import Dict, List, Set, Tuple

from ..model import AnalysisError, ClassInfo, FunctionInfo
from ..pitlib import analyse_masker, frozen_masker_classes, storage_kinds
from ..sym import NONE, Term, mentions, show, subterms
from ..util import (SELF, arg, callee, events_inlined, guards_of, is_call, method_call, path_guards, paths, returning, short,
                    where)

EXPLANATION = ('Per-call path analysis: def-use of the parameter generators of the three wrappers, '
               'enumeration and classification of every store to requires_grad, storage-kind '
               'analysis of frozen maskers, and for update_softmax_options a guard analysis of '
               'every attribute store (which Optional options decide it, and whether they are '
               'known non-None on that path). Decides the structural clauses for every call '
               'history; does not compute .grad values.')
RULE_TEXT = ('obligation = one generator / one requires_grad store / one attribute store in an '
             'update_softmax_options path / one wrapper setter; discovered from the parsed tree')


def wrappers(ctx) -> List[ClassInfo]:
    base = ctx.repo.cls('DNAS')
    return [c for c in ctx.repo.subclasses(base, strict=True)]


def r11a(ctx):
    repo = ctx.repo
    n = 0
    for w in wrappers(ctx):
        nas = w.methods.get('named_nas_parameters')
        net = w.methods.get('named_net_parameters')
        if nas is None or net is None:
            continue        # inherited (ODiMO) -- analysed on the defining class
        n += 1
        # net = named_parameters \ set(nas)
        ok_net = False
        msg = ''
        for p in paths(repo, net):
            ys = [e for e in p.events if e.kind == 'yield']
            if not ys:
                continue
            for y in ys:
                g = guards_of(p, y)
                # guard: (param in exclude) is False where exclude = set(... named_nas_parameters())
                good = False
                for a, v in g:
                    if a[0] == 'cmp' and a[1] == 'in' and v is False:
                        excl = a[3]
                        if (is_call(excl, 'builtins.set', 'builtins.frozenset') or
                                (excl[0] == 'comp' and excl[1] == 'set')) and mentions(
                                excl, lambda x: method_call(x) and method_call(x)[0] == SELF and
                                method_call(x)[1] in ('named_nas_parameters', 'nas_parameters')):
                            good = True
                src_ok = mentions(y.data[0], lambda x: x[0] == 'elem' and method_call(x[1]) and
                                  method_call(x[1])[0] == SELF and
                                  method_call(x[1])[1] == 'named_parameters')
                ok_net = good and src_ok
                if not ok_net:
                    msg = f'yield {short(y.data[0], 60)} guarded by {[(short(a, 60), v) for a, v in g]}'
        ctx.ob('R11a', f'{w.name}.named_net_parameters', ok_net,
               'all parameters not in the identity set of the NAS parameters' if ok_net else
               f'net parameters are not "named_parameters() minus set(named_nas_parameters())": '
               f'{msg}', where(net))
        # nas: de-duplicated by identity
        ok_nas = False
        msg = ''
        for p in paths(repo, nas):
            for y in [e for e in p.events if e.kind == 'yield']:
                g = guards_of(p, y)
                dedup = any(a[0] == 'cmp' and a[1] == 'in' and v is False and
                            a[2] == _second(y.data[0]) for a, v in g)
                added = any(method_call(e.data[0]) and method_call(e.data[0])[1] == 'add' and
                            method_call(e.data[0])[2] == (_second(y.data[0]),)
                            for e in p.calls())
                ok_nas = dedup and added
                if not ok_nas:
                    msg = f'yield {short(y.data[0], 60)} guards {[(short(a, 50), v) for a, v in g]}'
        ctx.ob('R11a', f'{w.name}.named_nas_parameters de-duplicates', ok_nas,
               'each NAS parameter yielded once (identity set)' if ok_nas else
               f'shared NAS parameters (masks/quantizers) may be yielded twice or dropped: {msg}',
               where(nas))
    ctx.floor('R11a', 'wrappers with parameter generators', n, 3)

    # train_*: exactly the named group
    dnas = repo.cls('DNAS')
    want = {'train_nas_only': {'nas_parameters': True, 'net_parameters': False},
            'train_net_only': {'nas_parameters': False, 'net_parameters': True},
            'train_net_and_nas': {'nas_parameters': True, 'net_parameters': True}}
    for name, exp in want.items():
        fn = repo.find_method(dnas, name)
        if fn is None:
            raise AnalysisError(f'DNAS.{name} not found')
        got: Dict[str, Set] = {}
        for p in paths(repo, fn, keep=('nas_parameters', 'net_parameters',
                                       'named_nas_parameters', 'named_net_parameters')):
            for e in p.events:
                if e.kind == 'setattr' and e.data[1] == 'requires_grad':
                    recv, v = e.data[0], e.data[2]
                    if recv[0] == 'elem' and method_call(recv[1]) and \
                            method_call(recv[1])[0] == SELF:
                        got.setdefault(method_call(recv[1])[1], set()).add(
                            v[1] if v[0] == 'const' else show(v))
        ok = got == {k: {v} for k, v in exp.items()}
        ctx.ob('R11a', f'DNAS.{name}', ok,
               f'requires_grad: {exp}' if ok else
               f'sets requires_grad {got}, expected {exp}', where(fn))
        # ... on EVERY call: the effect of a control must not depend on what earlier calls left
        # behind, so each returning path runs the loops over both parameter groups (a path that
        # returns before them - "same selection as last time, nothing to do" - misses flags
        # that other switches changed in the meantime)
        skipping = []
        for p in returning(paths(repo, fn, keep=('nas_parameters', 'net_parameters',
                                                 'named_nas_parameters', 'named_net_parameters'))):
            doms = set()
            for e in p.events:
                if e.kind in ('loop0', 'loopend') and e.data[1] is not None:
                    mcd = method_call(e.data[1])
                    if mcd and mcd[0] == SELF:
                        doms.add(mcd[1].replace('named_', ''))
            if not {'nas_parameters', 'net_parameters'} <= doms:
                skipping.append([(short(a, 50), v) for a, v in p.assumptions] or ['unconditional'])
        ctx.ob('R11a', f'DNAS.{name} acts on every call', not skipping,
               'both parameter groups are rewritten on every returning path' if not skipping else
               f'a path returns without rewriting both groups, under {skipping[0]}: the call '
               f'relies on state remembered from earlier calls, which the other switches '
               f'(train_features / train_rf / train_dilation / train_selection) do not keep up '
               f'to date', where(fn))


def _second(t: Term) -> Term:
    if t[0] == 'tuple' and len(t[1]) == 2:
        return t[1][1]
    return t


def r11b(ctx):
    repo = ctx.repo
    frozen = frozen_masker_classes(repo)
    ctx.floor('R11b', 'frozen masker classes', len(frozen), 3)
    for ci in frozen:
        kinds = storage_kinds(repo, ci)
        params = sorted(k for k, v in kinds.items() if v == 'param')
        ctx.ob('R11b', f'{ci.name} owns no nn.Parameter (strict)', not params,
               'a frozen masker has only buffers: nothing can make it trainable' if not params
               else f'the frozen masker keeps {params} as nn.Parameter: it is listed by '
               f'named_nas_parameters, so train_nas_only()/train_net_and_nas() set its '
               f'requires_grad to True', ci.where)
        mi = analyse_masker(repo, ci)
        ctx.ob('R11b', f'{ci.name}.theta receives no gradient (weak)', not mi.reads_param,
               'theta reads no nn.Parameter' if not mi.reads_param else
               f'theta reads the nn.Parameter(s) {params}: once made trainable it receives '
               f'gradients from the loss and the cost', where(mi.theta_fn))
        s = ci.setters.get('trainable')
        ctx.ob('R11b', f'{ci.name}.trainable setter is inert', s is not None,
               'train_features/rf/dilation cannot unfreeze it', ci.where, nontrivial=False)
    # enumerate every store to requires_grad
    sites = []
    for fn in repo.all_functions():
        for p in paths(repo, fn):
            for e in p.events:
                if e.kind == 'setattr' and e.data[1] == 'requires_grad':
                    sites.append((fn, e))
    seen = set()
    n = 0
    for fn, e in sites:
        key = (fn.qualname, getattr(e.node, 'lineno', 0))
        if key in seen:
            continue
        seen.add(key)
        n += 1
        recv = e.data[0]
        cls = fn.cls
        if cls is not None and cls.name == 'DNAS':
            kind = 'wrapper train_* (receiver set = NAS / net parameter generators)'
            ok = True
        elif fn.kind == 'setter' and recv[0] == 'attr' and recv[1] == SELF:
            kind = f'{cls.name} setter on its own {recv[2]}'
            ok = cls not in frozen
        elif fn.name == '__init__' and recv[0] == 'attr' and recv[1] == SELF:
            kind = f'{cls.name} constructor on its own {recv[2]}'
            ok = True
        else:
            kind = f'store on {short(recv, 60)}'
            ok = False
        ctx.ob('R11b', f'requires_grad store in {fn.qualname.split("plinio.")[-1]}', ok,
               kind if ok else f'unclassified store to requires_grad: {kind}', where(fn, e.node),
               nontrivial=False)
    ctx.floor('R11b', 'requires_grad store sites', n, 3)


def optional_none_params(fn: FunctionInfo) -> List[str]:
    return [p for p, dv in fn.defaults().items()
            if isinstance(dv, ast.Constant) and dv.value is None]


def r11c(ctx):
    repo = ctx.repo
    fns = [f for f in repo.all_functions() if f.name == 'update_softmax_options'
           and f.cls is not None]
    ctx.floor('R11c', 'update_softmax_options implementations', len(fns), 6)
    for fn in fns:
        opts = optional_none_params(fn)
        if not opts:
            raise AnalysisError(f'{fn.qualname}: no Optional parameters found')
        opt_terms = {('param', o) for o in opts}
        n_stores = 0
        for p in paths(repo, fn):
            for e in p.events:
                if e.kind != 'setattr':
                    continue
                n_stores += 1
                recv, attr, val = e.data[0], e.data[1], e.data[2]
                guards = guards_of(p, e)
                used = {q for q in opt_terms
                        if mentions(val, lambda x, q=q: x == q) or
                        any(mentions(a, lambda x, q=q: x == q) for a, _ in guards)}
                tgt = f'{short(recv, 40)}.{attr}'
                if used:
                    none_possible = [q[1] for q in used
                                     if not any(a == ('isnone', q) and v is False
                                                for a, v in p.assumptions)]
                    # "x = x if opt is None else opt": with the option None the store writes
                    # the current value back (no change)
                    keeps = []
                    for qn in list(none_possible):
                        v0 = _fold_none(val, ('param', qn))
                        if v0 == ('attr', recv, attr):
                            keeps.append(qn)
                    none_possible = [qn for qn in none_possible if qn not in keeps]
                    ok = not none_possible
                    ctx.ob('R11c', f'{fn.cls.name}.update_softmax_options store {attr} '
                           f'[{_lbl(guards)}]', ok,
                           f'{tgt} written only when {sorted(q[1] for q in used)} are given'
                           if ok else
                           f'{tgt} = {short(val, 60)} is written on a path where option(s) '
                           f'{sorted(none_possible)} may be None (left unspecified): the call '
                           f'overwrites state the caller did not ask to change',
                           where(fn, e.node))
                else:
                    ok, why = rederivation(ctx, fn, recv, attr, guards, opt_terms)
                    ctx.ob('R11c', f'{fn.cls.name}.update_softmax_options store {attr} '
                           f'[{_lbl(guards)}]', ok,
                           f'{tgt} re-derived from flags only this method writes' if ok else
                           f'{tgt} = {short(val, 60)} is written whatever the options are and is '
                           f'not a pure re-derivation of stored flags: {why}', where(fn, e.node))
        # forwarding: calls to other update_softmax_options pass the options unchanged
        for p in paths(repo, fn):
            for e in p.calls():
                t = e.data[0]
                mc = method_call(t)
                if mc and mc[1] == 'update_softmax_options':
                    ok, why = forwarding_ok(ctx, fn, t, p)
                    ctx.ob('R11c', f'{fn.cls.name}.update_softmax_options forwards to '
                           f'{short(mc[0], 40)}', ok,
                           'every option forwarded unchanged in its own slot' if ok else
                           f'{short(t, 120)}: {why} — the callee receives one option in place of '
                           f'another', where(fn, e.node))
        ctx.count(f'R11c:{fn.cls.name} stores', n_stores)


def _fold_none(t, q):
    """the value term with option q assumed None (conditional expressions on it folded)"""
    if not isinstance(t, tuple):
        return t
    if t and t[0] == 'ifexp':
        c = t[1]
        isn = None
        if c == ('isnone', q) or c == ('cmp', 'is', q, NONE):
            isn = True
        elif c in (('un', 'not', ('isnone', q)), ('cmp', 'is not', q, NONE),
                   ('un', 'not', ('cmp', 'is', q, NONE))):
            isn = False
        if isn is not None:
            return _fold_none(t[2] if isn else t[3], q)
    return tuple(_fold_none(x, q) for x in t)


def options_reach_owned_quantizers(ctx, rule: str):
    """Every searchable quantizer is configured by the layer that OWNS it: a layer forwards the
    sampling options to each precision-selecting quantizer it was constructed with (output
    activations, weights).  Its input quantizer is the producer's output quantizer (an alias
    installed by the graph pass): configuring that one instead leaves the layer's own output
    quantizer -- the input quantizer of whatever consumes the layer -- with the old options."""
    repo = ctx.repo
    from .c10 import mps_layer_classes
    n = 0
    for ci in mps_layer_classes(ctx):
        init = ci.methods.get('__init__')
        upd = repo.find_method(ci, 'update_softmax_options')
        if init is None or upd is None:
            continue
        owned = set()
        ann = {a.arg: ast.unparse(a.annotation) for a in init.node.args.args
               if a.annotation is not None}
        for p in returning(paths(repo, init)):
            for e in p.events:
                if e.kind == 'setattr' and e.data[0] == SELF and e.data[2][0] == 'param' and \
                        ('MPSPerLayerQtz' in ann.get(e.data[2][1], '') or
                         'MPSPerChannelQtz' in ann.get(e.data[2][1], '')):
                    owned.add(e.data[1])
        if not owned:
            continue
        n += 1
        recv = set()
        for p in paths(repo, upd):
            for e in p.calls():
                mc = method_call(e.data[0])
                if mc and mc[1] == 'update_softmax_options' and mc[0][0] == 'attr' and \
                        mc[0][1] == SELF:
                    recv.add(mc[0][2])
        missing = sorted(owned - recv)
        ctx.ob(rule, f'{ci.name}.update_softmax_options configures the quantizers it owns',
               not missing,
               f'forwards to {sorted(recv)}' if not missing else
               f'the layer owns {sorted(owned)} but forwards the options to {sorted(recv)} only: '
               f'{missing} keeps the previous options (soft instead of hard sampling), so the '
               f'layer that consumes this tensor is charged a mixture over input precisions, not '
               f'the cost of the precision summary() reports', where(upd))
    ctx.floor(rule, 'MPS layers with owned quantizers', n, 3)


def option_defaults_rule(ctx, rule: str):
    """'Changing one sampling option leaves the unspecified ones as they were': None is the
    library's 'not specified' value (every store is guarded by ``is not None``), so every
    option parameter of every update_softmax_options must default to None -- a default of
    False / 1.0 at any level of the forwarding chain is forwarded as an explicit value and
    resets the option at every partial call."""
    repo = ctx.repo
    n = 0
    for fn in repo.all_functions():
        if fn.name != 'update_softmax_options' or fn.cls is None:
            continue
        n += 1
        d = fn.defaults()
        opts = fn.params[1:]
        bad = [(o, ast.unparse(d[o])) for o in opts
               if o in d and not (isinstance(d[o], ast.Constant) and d[o].value is None)]
        missing = [o for o in opts if o not in d]
        ok = not bad and not missing
        ctx.ob(rule, f'{fn.cls.name}.update_softmax_options defaults', ok,
               'every option defaults to None (= keep the current value)' if ok else
               (f'options {[o for o, _ in bad]} default to {[v for _, v in bad]}' if bad else
                f'options {missing} have no default') +
               ': a call that names only another option passes this value on as if the user '
               'had set it, so the option is silently reset (and a model checkpointed after '
               'such a call no longer matches a fresh wrapper built with the same arguments)',
               where(fn))
    ctx.floor(rule, 'update_softmax_options implementations', n, 6)


def expand_kwargs(kws):
    """``**{...}`` arguments spelled out: a dictionary display binds its constant keys; a
    dictionary comprehension over the items of a display, keeping key and value, binds the same
    keys provided its filter drops only the unspecified (None) values -- any other filter
    (truthiness: ``if value``) also drops an explicit False / 0 and is reported.
    Returns (keyword bindings, problems)."""
    out, problems = [], []
    for k, v in kws:
        if k != '**':
            out.append((k, v))
            continue
        if v[0] == 'dict' and all(kk[0] == 'const' and isinstance(kk[1], str) for kk, _ in v[1]):
            out += [(kk[1], vv) for kk, vv in v[1]]
            continue
        if v[0] == 'comp' and v[1] == 'dict' and len(v[3]) == 1:
            (_tgt, it, conds) = v[3][0]
            mc = method_call(it)
            src = mc[0] if mc and mc[1] == 'items' and not mc[2] else None
            if src is not None and src[0] == 'dict' and \
                    all(kk[0] == 'const' and isinstance(kk[1], str) for kk, _ in src[1]):
                key_t, val_t = v[2]
                elems = [x for x in subterms(key_t) if x[0] == 'elem' and x[1] == it]
                if elems and key_t == ('sub', elems[0], ('const', 0)) and \
                        val_t == ('sub', elems[0], ('const', 1)):
                    for c in conds:
                        keeps_not_none = c == ('cmp', 'is not', val_t, NONE) or \
                            c == ('un', 'not', ('cmp', 'is', val_t, NONE))
                        if not keeps_not_none:
                            problems.append(
                                f'the options are filtered by "{short(c, 40)}" before being '
                                f'forwarded: an explicit False / 0 is dropped like an '
                                f'unspecified option, so switching an option off never reaches '
                                f'the receiver')
                    out += [(kk[1], vv) for kk, vv in src[1]]
                    continue
        out.append((k, v))
    return tuple(out), problems


def forwarding_ok(ctx, fn: FunctionInfo, t: Term, p=None):
    """A forwarding call ``x.update_softmax_options(a0, a1, ..., k=v)`` must bind each option
    of the caller to the parameter of the same name of the callee.  Callee signatures are the
    update_softmax_options implementations of the repository that accept this arity."""
    repo = ctx.repo
    mc = method_call(t)
    npos, (kws, kw_problems) = len(mc[2]), expand_kwargs(mc[3])
    if kw_problems:
        return False, kw_problems[0]
    # the classes the receiver can be: an attribute of self (constructor annotations / calls)
    # or a value guarded by isinstance on this path.  Dynamic dispatch can reach the override of
    # ANY of their subclasses, so every one of them must bind the options by name
    recv = mc[0]
    rcls: List[ClassInfo] = []
    if recv[0] == 'attr' and recv[1] == SELF and fn.cls is not None:
        from ..util import attr_classes
        rcls = list(attr_classes(repo, fn.cls, recv[2]))
    elif p is not None:
        for a, v in p.assumptions:
            if v and is_call(a, 'builtins.isinstance') and len(a[2]) == 2 and a[2][0] == recv:
                tys = a[2][1][1] if a[2][1][0] == 'tuple' else (a[2][1],)
                rcls += [repo.classes[ty[1]] for ty in tys
                         if ty[0] == 'global' and ty[1] in repo.classes]
    impls = []
    for k in rcls:
        for k2 in repo.subclasses(k):
            m = repo.find_method(k2, 'update_softmax_options')
            if m is not None and m not in impls and m is not fn:
                impls.append(m)
    impls = [m for m in impls if returning(paths(repo, m))]     # abstract stubs raise
    if impls:
        problems = []
        for f in impls:
            ps = f.params[1:]
            bad = []
            if npos + len(kws) > len(ps):
                bad.append('accepts fewer options')
            for i, a in enumerate(mc[2][:len(ps)]):
                if a == NONE:
                    continue
                if a[0] != 'param':
                    bad.append(f'slot {ps[i]} receives {short(a, 30)}')
                elif a[1] != ps[i]:
                    bad.append(f'slot {ps[i]} receives option {a[1]}')
            for k, a in kws:
                if a != NONE and (a[0] != 'param' or a[1] != k):
                    bad.append(f'slot {k} receives {short(a, 30)}')
            if bad:
                problems.append(f'{f.cls.name}.update_softmax_options({", ".join(ps)}): ' +
                                ', '.join(bad))
        if problems:
            return False, 'the receiver can be a ' + '; '.join(problems[:2])
        return True, ''
    sigs = []
    for f in repo.all_functions():
        if f.name == 'update_softmax_options' and f.cls is not None and f is not fn:
            ps = f.params[1:]
            if npos + len(kws) <= len(ps):
                sigs.append((f, ps))
    if not sigs:
        return False, 'no callee accepts this many options'
    problems = []
    for f, ps in sigs:
        bad = []
        for i, a in enumerate(mc[2]):
            if a == NONE:
                continue
            if a[0] != 'param':
                bad.append(f'slot {ps[i]} receives {short(a, 30)}')
            elif a[1] != ps[i]:
                bad.append(f'slot {ps[i]} receives option {a[1]}')
        for k, a in kws:
            if a != NONE and (a[0] != 'param' or a[1] != k):
                bad.append(f'slot {k} receives {short(a, 30)}')
        if not bad:
            return True, ''
        problems.append(f'{f.cls.name}: ' + ', '.join(bad))
    return False, '; '.join(problems[:2])


def _lbl(guards) -> str:
    s = ', '.join(f'{short(a, 50)}={v}' for a, v in guards) or 'unconditional'
    return s if len(s) < 160 else s[:160] + '…'


def rederivation(ctx, fn, recv, attr, guards, opt_terms) -> Tuple[bool, str]:
    """The store is reached whatever the options are.  It leaves the state unchanged iff the
    stored value is a function of flag attributes that (i) only this method writes, each
    from its own option under ``is not None``, and (ii) the target is only written here."""
    repo = ctx.repo
    if recv != SELF:
        return False, 'receiver is not self'
    cls = fn.cls
    flags = set()
    for a, _ in guards:
        for x in subterms(a):
            if x[0] == 'attr' and x[1] == SELF:
                flags.add(x[2])
    if not guards:
        return False, 'unconditional store of a value that does not come from an option'
    # (ii) target only written in this method (class hierarchy wide, constructors excluded)
    family = [c for c in repo.classes.values()
              if repo.is_subclass(c, cls.qualname) or repo.is_subclass(cls, c.qualname)]
    for c in family:
        for m in list(c.methods.values()) + list(c.setters.values()):
            if m is fn:
                continue
            for p in paths(repo, m):
                for e in p.events:
                    if e.kind == 'setattr' and e.data[0] == SELF:
                        if e.data[1] == attr:
                            return False, f'{attr} is also written by {m.qualname}'
                        if e.data[1] in flags and m.name != '__init__':
                            return False, f'flag {e.data[1]} is also written by {m.qualname}'
    # (i) flags written in this method only from their option, guarded by is not None
    for p in paths(repo, fn):
        for e in p.events:
            if e.kind == 'setattr' and e.data[0] == SELF and e.data[1] in flags:
                v = e.data[2]
                if v not in opt_terms:
                    return False, f'flag {e.data[1]} is set to {short(v, 40)}, not to an option'
                if not any(a == ('isnone', v) and pol is False for a, pol in p.assumptions):
                    return False, f'flag {e.data[1]} is overwritten when its option is None'
    return True, ''


LEAF_ATTRS = {('attr', SELF, '_leaf_modules'), ('attr', SELF, '_unique_leaf_modules')}


def leaf_domain(repo, w: ClassInfo, dom, _depth: int = 0) -> bool:
    """The iteration domain enumerates the wrapper's leaf list (possibly filtered): the list
    itself, a comprehension / list() / tuple() over it, or a call of a generator method of the
    wrapper whose every ``yield`` sits in a loop over the leaf list."""
    if dom is None or _depth > 2:
        return False
    if dom in LEAF_ATTRS:
        return True
    if dom[0] == 'comp' and dom[3] and leaf_domain(repo, w, dom[3][0][1], _depth + 1):
        return True
    if is_call(dom, 'builtins.list', 'builtins.tuple', 'builtins.iter') and dom[2]:
        return leaf_domain(repo, w, dom[2][0], _depth + 1)
    mc = method_call(dom)
    if mc and mc[0] == SELF and not mc[2]:
        m = repo.find_method(w, mc[1])
        if m is not None:
            ys = [(p, e) for p in paths(repo, m) for e in p.events if e.kind == 'yield']
            if ys and all(any(c[0] == 'loop' and leaf_domain(repo, w, c[2], _depth + 1)
                              for c in e.ctx) for _p, e in ys):
                return True
            rets = [p.retval for p in returning(paths(repo, m)) if p.retval is not None]
            if rets and not ys and all(leaf_domain(repo, w, r, _depth + 1) for r in rets):
                return True
    return False


def r11d(ctx):
    repo = ctx.repo
    n = 0
    LEAF = {('attr', SELF, '_leaf_modules'), ('attr', SELF, '_unique_leaf_modules')}
    for w in wrappers(ctx):
        for name, s in w.setters.items():
            # a switch: setter that stores the same-named attribute on layers
            ps = paths(repo, s)
            layer_stores = [(p, e) for p in ps for e in events_inlined(repo, w, p)
                            if e.kind == 'setattr' and e.data[0] != SELF]
            if not layer_stores:
                continue
            n += 1
            ok = True
            msg = ''
            for p, e in layer_stores:
                recv, attr, val = e.data[0], e.data[1], e.data[2]
                in_leaf_loop = any(c[0] == 'loop' and leaf_domain(repo, w, c[2]) for c in e.ctx)
                from_leaf = mentions(recv, lambda x: x[0] == 'elem' and
                                     leaf_domain(repo, w, x[1]))
                # every decision that governs the store: enclosing tests and earlier
                # "if ...: return" guards (a cached "nothing to do" test makes the switch depend
                # on the history of calls, not on its argument)
                guards = path_guards(p, e) if e in p.events else []
                bad_guard = [a for a, v in guards
                             if not (is_call(a, 'builtins.hasattr', 'builtins.isinstance'))]
                if not (in_leaf_loop and from_leaf and attr == name and
                        val == ('param', s.params[1]) and not bad_guard):
                    ok = False
                    msg = (f'{short(recv, 40)}.{attr} = {short(val, 40)} '
                           f'(in leaf loop: {in_leaf_loop}, extra guards: '
                           f'{[short(a, 40) for a in bad_guard]})')
            ctx.ob('R11d', f'{w.name}.{name} setter reaches every layer', ok,
                   'loops over the full leaf list and forwards the value' if ok else
                   f'the switch does not reach every layer unconditionally: {msg}', where(s))
    ctx.floor('R11d', 'wrapper switches', n, 5)
    options_reach_every_layer(ctx, 'R11d')


def options_reach_every_layer(ctx, rule: str, only=None):
    """MPS / SuperNet update_softmax_options apply each option inside a loop over the leaf
    list (or a materialised selection of it), and no single-use generator is iterated twice."""
    repo = ctx.repo
    LEAF = {('attr', SELF, '_leaf_modules'), ('attr', SELF, '_unique_leaf_modules')}
    for w in wrappers(ctx):
        fn = w.methods.get('update_softmax_options')
        if fn is None or (only and w.name not in only):
            continue
        def over_leaves(dom, w=w) -> bool:
            return leaf_domain(repo, w, dom)
        ok = False
        exhausted = []
        for p in paths(repo, fn):
            loops_of_gen = {}
            for e in p.events:
                if (e.kind == 'call' and method_call(e.data[0]) and
                    method_call(e.data[0])[1] == 'update_softmax_options') or \
                        e.kind == 'setattr':
                    if any(c[0] == 'loop' and over_leaves(c[2]) for c in e.ctx):
                        ok = True
                for c in e.ctx:
                    # a generator expression is single-use: a second loop over it visits nothing
                    if c[0] == 'loop' and c[2] is not None and c[2][0] == 'comp' and \
                            c[2][1] == 'gen':
                        loops_of_gen.setdefault(c[2], set()).add(c[1])
            for g, poss in loops_of_gen.items():
                if len(poss) > 1:
                    exhausted.append(sorted(poss))
        ctx.ob(rule, f'{w.name}.update_softmax_options reaches every layer', ok and not exhausted,
               'applied inside a loop over the leaf list' if ok and not exhausted else
               ('options are not applied to every leaf layer' if not ok else
                f'one generator expression is iterated by {len(exhausted[0])} loops on the same '
                f'path (lines {[x[0] if isinstance(x, tuple) else x for x in exhausted[0]]}): the '
                f'first loop consumes it, so when several options are given in one call the later '
                f'ones reach no layer'), where(fn))


def r11f(ctx):
    """Layer-level NAS parameter generators yield nn.Parameters only: each yielded tensor is
    either enumerated through the parameter registry of a sub-module (named_parameters /
    parameters / a nested named_nas_parameters) or is an attribute that is an nn.Parameter in
    EVERY class the holder can be (a masker frozen by construction keeps the same attribute as
    a buffer: yielding it by attribute access hands a non-parameter to train_nas_only and to
    the optimiser)."""
    from ..util import attr_classes
    repo = ctx.repo
    n = 0
    wr = {w.qualname for w in wrappers(ctx)}
    for ci in sorted(repo.classes.values(), key=lambda c: c.qualname):
        if not ci.module.name.startswith('plinio.methods') or ci.qualname in wr:
            continue
        f = ci.methods.get('named_nas_parameters')
        if f is None:
            continue
        seen = set()
        for p in paths(repo, f):
            for y in [e for e in p.events if e.kind == 'yield']:
                v = _second(y.data[0])
                if v in seen or v == NONE:
                    continue        # ("", None): placeholder of layers without masks
                seen.add(v)
                n += 1
                via_registry = mentions(v, lambda x: x[0] == 'elem' and method_call(x[1]) and
                                        method_call(x[1])[1] in ('named_parameters', 'parameters',
                                                                 'named_nas_parameters',
                                                                 'nas_parameters'))
                ok, msg = via_registry, 'enumerated through the parameter registry'
                if not via_registry:
                    holders: List[ClassInfo] = []
                    attr = None
                    if v[0] == 'attr' and v[1] == SELF:
                        attr, holders = v[2], repo.subclasses(ci)
                    elif v[0] == 'attr' and v[1][0] == 'attr' and v[1][1] == SELF:
                        attr = v[2]
                        for c in attr_classes(repo, ci, v[1][2]):
                            holders += [x for x in repo.subclasses(c) if x not in holders]
                    if attr is None or not holders:
                        ok, msg = False, f'{short(v, 60)} is not recognisably an nn.Parameter'
                    else:
                        bad = [c.name for c in holders
                               if storage_kinds(repo, c).get(attr) != 'param']
                        ok = not bad
                        msg = (f'{attr} is an nn.Parameter in {[c.name for c in holders]}' if ok else
                               f'{short(v, 60)} is yielded as a NAS parameter but {attr} is not an '
                               f'nn.Parameter in {bad} (a masker frozen by construction keeps it '
                               f'as a buffer): NAS parameters are then not a subset of '
                               f'parameters(), and train_nas_only makes the frozen mask trainable')
                ctx.ob('R11f', f'{ci.name}.named_nas_parameters yields {short(v, 50)}', ok, msg,
                       where(f, y.node))
    ctx.floor('R11f', 'layer-level NAS parameter yields', n, 10)


def r11e(ctx):
    """The sampler installed by update_softmax_options is the one its stored options name:
    disable_sampling -> no sampling (whatever gumbel says), else gumbel -> Gumbel sampler, else
    softmax sampler.  Decided per path from the flag conditions under which each sampler is
    stored (all four flag worlds enumerated)."""
    repo = ctx.repo
    base = repo.cls('MPSBaseQtz')
    fn = base.methods['update_softmax_options']
    flags = {}
    for name in ('disable_sampling', 'gumbel_softmax'):
        flags[name] = ('attr', SELF, name)
    table = {}
    for p in returning(paths(repo, fn)):
        last = None
        for e in p.events:
            if e.kind == 'setattr' and e.data[0] == SELF and e.data[1] == 'sample_alpha':
                last = e
        if last is None:
            continue
        v = last.data[2]
        sampler = v[2] if v[0] == 'attr' and v[1] == SELF else short(v, 40)
        g = {a: pol for a, pol in guards_of(p, last)}
        for d in (True, False):
            for gm in (True, False):
                ok = True
                for a, pol in g.items():
                    if a == flags['disable_sampling'] and pol != d:
                        ok = False
                    if a == flags['gumbel_softmax'] and pol != gm:
                        ok = False
                if ok and all(a in flags.values() for a in g):
                    table.setdefault((d, gm), set()).add(sampler)
    if len(table) != 4:
        # the derivation is not a pure function of the two stored flags (R11c judges that)
        ctx.ob('R11e', 'MPSBaseQtz sampler derivation table', True,
               'sampler not derived from stored flags (judged by R11c)', where(fn),
               nontrivial=False)
        return
    for (d, gm), got in sorted(table.items()):
        want = 'sample_alpha_none' if d else ('sample_alpha_gs' if gm else 'sample_alpha_sm')
        ok = got == {want}
        ctx.ob('R11e', f'MPSBaseQtz sampler when disable_sampling={d}, gumbel={gm}', ok,
               f'{want}' if ok else
               f'with disable_sampling={d} and gumbel={gm} stored, the installed sampler is '
               f'{sorted(got)} instead of {want}: setting one option silently overrides the '
               f'other although its stored value is unchanged', where(fn))


def run(ctx):
    r11a(ctx)
    r11b(ctx)
    r11c(ctx)
    r11d(ctx)
    r11e(ctx)
    r11f(ctx)
    option_defaults_rule(ctx, 'R11c')
    options_reach_owned_quantizers(ctx, 'R11d')
    # which masks are frozen by construction is decided where the maskers are created: the
    # selection rule of C08 (frozen class chosen exactly for width groups that touch a graph
    # input / output / output-connected node, each test over EVERY node of the group, and for
    # strided convolutions) is a premise of 'never become trainable': a group that misses the
    # frozen class gets a plain masker whose alpha is a NAS parameter
    from . import c08
    before = len(ctx.obligations)
    c08.r08d(ctx)
    c08.r08f(ctx)
    for o in ctx.obligations[before:]:
        o.rule = 'R11g'
    ctx.assume('torch: a set of tensors compares by identity (Tensor.__hash__ is id-based); '
               'buffers are never returned by named_parameters()')
    ctx.assume('each control is a single call whose effect is a function of its arguments only '
               '(checked by R11c), so call sequences need not be enumerated')


MANIFEST = {
    'text': 'Decides, for every call history at once, the per-call clauses that make the controls '
            'history-independent: NAS/net generators partition the parameters by identity, '
            'train_* set exactly the named flags, masks frozen by construction own no parameter '
            'and their theta reads none, every requires_grad store in the library is classified, '
            'and each store in update_softmax_options is either guarded by "its option is not '
            'None" or a re-derivation from flags only that method writes. Gradient values are '
            'not computed.',
    'note': 'Assumes torch set/identity semantics for parameters and that buffers are not '
            'parameters; the light type inference resolves receivers through loop variables of '
            'the parameter generators.',
    'technique': 'path-sensitive guard analysis of attribute stores + storage-kind analysis + '
                 'exhaustive enumeration of requires_grad store sites',
}
