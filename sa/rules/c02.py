"""C02 — MPS export is bit-identical to the eval-mode model (structural clauses).

 R02a one selection source (shared with C10): export's quantizers and the eval-mode sampler
      select the arg-max along dim 0 of the same alpha.
 R02b slot agreement at the export call sites: Quant* constructor arguments are bound to the
      quantizer of the matching role.
 R02c producer/consumer aliasing: a layer's input quantizer *is* (same object, no copy) the
      output quantizer of the searchable producer found by walking input_features_set_by.
 R02d sibling skeleton: MPSX.forward and QuantX.forward are the same computation after the
      renaming *_mps_quantizer -> *_quantizer, effective_scale -> scale; Conv1d/Conv2d/Linear
      siblings agree with each other; in eval mode a per-layer MPS quantizer's output and
      effective scale collapse to those of the selected quantizer (weighted sums over the
      same theta_alpha index).
 R02e scale-after-quantise ordering: the weight quantizer is applied before its scale is
      read for the bias in every MPS* / Quant* forward.
 R02f option slots (shared with C10 R10d): update_softmax_options forwards every option to
      the parameter of the same name of EVERY override the receiver can dispatch to.
"""
from __future__ import annotations

from typing import Dict, List, Optional, Tuple

from ..model import AnalysisError, ClassInfo, FunctionInfo
from ..sellib import argmax_source
from ..sym import NONE, State, Term, mentions, show, subterms
from ..util import (SELF, arg, bind_args, callee, guards_of, is_call, method_call, paths,
                    returning, short, where)
from ..pitlib import storage_kinds
from . import c10

EXPLANATION = ('Selection-source analysis (shared with C10), argument-slot agreement of the '
               'Quant* constructor calls against the parsed constructor signatures, alias '
               'analysis of the single site that wires input quantizers, sibling def-use '
               'skeleton comparison of MPS*/Quant* forwards, and call-order (typestate) check of '
               'quantize-before-scale. Bit-exactness of floating arithmetic is not decided.')
RULE_TEXT = ('obligation = one export constructor argument / one wiring store / one sibling pair / '
             'one forward; discovered from mps_layer_map, mps_func_map and the Quant* classes')


def rename_mps(t):
    if isinstance(t, tuple):
        if t and t[0] == 'attr':
            n = t[2]
            n2 = n.replace('_mps_quantizer', '_quantizer')
            if n == 'effective_scale':
                n2 = 'scale'
            return ('attr', rename_mps(t[1]), n2)
        return tuple(rename_mps(x) for x in t)
    return t


def r02b(ctx):
    repo = ctx.repo
    n = 0
    for ci in c10.mps_layer_classes(ctx):
        ex = ci.methods.get('export')
        if ex is None:
            continue
        sub = None
        for p in paths(repo, ex, keep=()):
            for e in p.calls():
                mc = method_call(e.data[0])
                if mc and mc[1] == 'get_submodule':
                    sub = e.data[0]
        if sub is None:
            raise AnalysisError(f'{ci.name}.export: get_submodule not found')
        for p in returning(paths(repo, ex, keep=())):
            per_channel = any('MPSPerChannelQtz' in show(a) and v for a, v in p.assumptions)
            for e in p.calls():
                t = e.data[0]
                c = callee(t)
                if c not in repo.classes or not repo.classes[c].name.startswith('Quant') or \
                        repo.classes[c].name == 'QuantList':
                    continue
                qc = repo.classes[c]
                init = qc.methods['__init__']
                bound = bind_args(t, init.params[1:])
                n += 1
                for pname, val in bound.items():
                    lab = f'{ci.name}.export {qc.name}({pname}=)' + \
                        ('[per-channel]' if per_channel else '')
                    if pname in ('in_quantizer', 'out_quantizer', 'quantizer'):
                        role = 'out' if pname == 'quantizer' else pname.split('_')[0]
                        want = ('attr', sub, f'selected_{role}_quantizer')
                        ok = val == want
                        ctx.ob('R02b', lab, ok,
                               f'{pname} <- selected_{role}_quantizer' if ok else
                               f'{pname} is bound to {short(val, 80)}, expected '
                               f'submodule.selected_{role}_quantizer', where(ex, e.node))
                    elif pname == 'w_quantizer':
                        want = ('attr', sub, 'selected_w_quantizer')
                        if per_channel:
                            ok = mentions(val, lambda x: x == want)
                        else:
                            ok = val == want
                        ctx.ob('R02b', lab, ok,
                               'w_quantizer <- selected_w_quantizer' if ok else
                               f'w_quantizer is bound to {short(val, 100)}', where(ex, e.node))
                    elif pname == 'b_quantizer':
                        bq = ('attr', sub, 'b_mps_quantizer')
                        none_ok = val == NONE and any(
                            a == ('isnone', ('attr', sub, 'bias')) and v for a, v in p.assumptions)
                        own = mentions(val, lambda x: x[0] == 'attr' and x[1] == bq) or \
                            (val[0] == 'call' and mentions(val[1], lambda x: x == bq))
                        ok = none_ok or own
                        ctx.ob('R02b', lab, ok,
                               'bias quantizer of this layer (None iff no bias)' if ok else
                               f'b_quantizer is bound to {short(val, 100)}', where(ex, e.node),
                               nontrivial=False)
    ctx.floor('R02b', 'Quant* constructor calls in export', n, 8)


def r02c(ctx):
    repo = ctx.repo
    sites = []
    for fn in repo.all_functions():
        for p in paths(repo, fn):
            for e in p.events:
                if e.kind == 'setattr' and e.data[1] == 'in_mps_quantizer':
                    sites.append((fn, p, e))
    seen = set()
    wiring = 0
    for fn, p, e in sites:
        key = (fn.qualname, getattr(e.node, 'lineno', 0))
        if key in seen:
            continue
        seen.add(key)
        v = e.data[2]
        if fn.name == '__init__':
            ok = callee(v) is not None and callee(v).endswith('MPSPerLayerQtz') and \
                mentions(v, lambda x: x[0] == 'global' and x[1].endswith('DummyQuantizer'))
            ctx.ob('R02c', f'{fn.cls.name}.__init__ default input quantizer', ok,
                   'placeholder dummy quantizer (overwritten by the graph pass)' if ok else
                   f'constructor sets in_mps_quantizer = {short(v)}', where(fn, e.node),
                   nontrivial=False)
            continue
        wiring += 1
        ok = v[0] == 'attr' and v[2] == 'out_mps_quantizer' and \
            method_call(v[1]) is not None and method_call(v[1])[1] == 'get_submodule'
        src_ok = False
        if ok:
            # the producer node is reached through input_features_set_by
            tgt = method_call(v[1])[2][0]
            src_ok = mentions(tgt, lambda x: x == ('const', 'input_features_set_by'))
        ctx.ob('R02c', f'{fn.name} wires in_mps_quantizer', ok and src_ok,
               'alias of the producer\'s out_mps_quantizer (same object)' if ok and src_ok else
               f'in_mps_quantizer = {short(v, 160)}: the input bits of a layer must be the very '
               f'output quantizer of the searchable producer reached through '
               f'input_features_set_by (no copy, no other node)', where(fn, e.node))
        # the walk stops at the first searchable (MPSModule) producer
        mps_q = repo.cls('MPSModule').qualname
        stops = any(is_call(a, 'is_inherited_layer') and
                    mentions(a, lambda x: x == ('global', mps_q)) for a, _ in p.assumptions)
        ctx.ob('R02c', f'{fn.name} walks to the searchable producer', stops,
               'walk guarded by is_inherited_layer(.., (MPSModule,))' if stops else
               'the producer walk is not guarded by is_inherited_layer(.., (MPSModule,))',
               where(fn, e.node), nontrivial=False)
    ctx.floor('R02c', 'wiring sites', wiring, 1)


def r02d(ctx):
    repo = ctx.repo
    pairs = [('MPSConv1d', 'QuantConv1d'), ('MPSConv2d', 'QuantConv2d'),
             ('MPSLinear', 'QuantLinear'), ('MPSIdentity', 'QuantIdentity')]
    skel = {}
    for m, q in pairs:
        mc_, qc_ = repo.cls(m), repo.cls(q)
        fm, fq = mc_.methods.get('forward'), qc_.methods.get('forward')
        if fm is None or fq is None:
            raise AnalysisError(f'{m}/{q}: forward not found')
        rm = [p.retval for p in returning(paths(repo, fm))]
        rq = [p.retval for p in returning(paths(repo, fq))]
        ok = len(rm) == 1 and len(rq) == 1 and rename_mps(rm[0]) == rq[0]
        ctx.ob('R02d', f'{m}.forward ~ {q}.forward', ok,
               'same computation after renaming quantizers / scales' if ok else
               f'{m}.forward = {short(rm[0], 200)} but {q}.forward = {short(rq[0], 200)}: the '
               f'exported layer does not compute what the searched layer computes with its '
               f'selected quantizers', where(fm))
        skel[m] = rq[0] if rq else None
    # conv1d / conv2d / linear siblings
    def gen(t):
        if isinstance(t, tuple):
            if t and t[0] == 'call':
                mc = method_call(t)
                if mc and mc[0] == SELF and mc[1] == '_conv_forward':
                    return ('call', ('sym', 'linop'), tuple(gen(x) for x in t[2]), ())
                if is_call(t, 'torch.nn.functional.linear'):
                    return ('call', ('sym', 'linop'), tuple(gen(x) for x in t[2]), ())
            return tuple(gen(x) for x in t)
        return t
    base = gen(skel['MPSConv2d'])
    for m in ('MPSConv1d', 'MPSLinear'):
        ok = gen(skel[m]) == base
        ctx.ob('R02d', f'{m} ~ MPSConv2d sibling skeleton', ok,
               'same quantise-weights / quantise-bias(s_in, s_w) / linear op / quantise-output '
               'order' if ok else f'{m} forward skeleton differs from MPSConv2d',
               repo.cls(m).where)
    # collapse of the weighted sum: output and effective scale iterate the same index
    for qn in ('MPSPerLayerQtz', 'MPSPerChannelQtz'):
        qc = repo.cls(qn)
        fwd = qc.methods['forward']
        for p in returning(paths(repo, fwd)):
            if any(e.kind == 'loop0' for e in p.events):
                continue
            # the summed terms: appended in a loop, or a comprehension handed to torch.stack
            cands = [method_call(e.data[0])[2][0] for e in p.calls()
                     if method_call(e.data[0]) and method_call(e.data[0])[1] == 'append']
            for x in subterms(p.retval):
                if x[0] == 'comp' and len(x[2]) == 1:
                    cands.append(x[2][0])
            ok = False
            for v in cands:
                # theta_alpha[i] (possibly viewed) * quantizer_i(input) with (i, quantizer_i)
                # from enumerate(self.qtz_funcs)
                en = [x for x in subterms(v) if x[0] == 'elem' and
                      is_call(x[1], 'builtins.enumerate') and
                      x[1][2][0] == ('attr', SELF, 'qtz_funcs')]
                if en:
                    el = en[0]
                    idx = ('sub', el, ('const', 0))
                    qz = ('sub', el, ('const', 1))
                    has_theta = mentions(v, lambda x: x == ('sub', ('attr', SELF, 'theta_alpha'),
                                                            idx))
                    has_q = mentions(v, lambda x: x[0] == 'call' and x[1] == qz)
                    ok = has_theta and has_q
            samp = any(method_call(e.data[0]) and method_call(e.data[0])[0] == SELF and
                       method_call(e.data[0])[1] == 'sample_alpha' for e in p.calls())
            ctx.ob('R02d', f'{qn}.forward weighted sum', ok and samp,
                   'sum_i theta_alpha[i] * qtz_funcs[i](x) after sampling' if ok and samp else
                   'forward is not the theta_alpha-weighted sum of the quantizers over one '
                   'shared index (after sample_alpha())', where(fwd))
    es = repo.cls('MPSBaseQtz').getters.get('effective_scale')
    for p in returning(paths(repo, es)):
        if any(e.kind == 'loop0' for e in p.events):
            continue
        t = p.retval
        en = [x for x in subterms(t) if x[0] == 'elem' and is_call(x[1], 'builtins.enumerate')
              and x[1][2][0] == ('attr', SELF, 'qtz_funcs')]
        ok = False
        if en:
            el = en[0]
            ok = mentions(t, lambda x: x[0] == 'bin' and x[1] == '*' and
                          {x[2], x[3]} == {('sub', ('attr', SELF, 'theta_alpha'),
                                            ('sub', el, ('const', 0))),
                                           ('attr', ('sub', el, ('const', 1)), 'scale')})
        ctx.ob('R02d', 'MPSBaseQtz.effective_scale weighted sum', ok,
               'sum_i theta_alpha[i] * qtz_funcs[i].scale' if ok else
               f'effective_scale is {short(t)}', where(es))


def r02e(ctx):
    repo = ctx.repo
    n = 0
    for cname in ('MPSConv1d', 'MPSConv2d', 'MPSLinear', 'QuantConv1d', 'QuantConv2d',
                  'QuantLinear'):
        ci = repo.cls(cname)
        fwd = ci.methods['forward']
        wq = ('attr', SELF, 'w_mps_quantizer' if cname.startswith('MPS') else 'w_quantizer')
        for p in returning(paths(repo, fwd)):
            n += 1
            i_q = None
            i_scale = None
            for i, e in enumerate(p.events):
                if e.kind == 'call' and e.data[0][1] == wq and i_q is None:
                    i_q = i
                if e.kind == 'call' and i_scale is None and \
                        any(mentions(a, lambda x: x[0] == 'attr' and x[1] == wq and
                                     x[2] in ('scale', 'effective_scale'))
                            for a in e.data[0][2]):
                    i_scale = i
            ok = i_q is not None and i_scale is not None and i_q < i_scale
            ctx.ob('R02e', f'{cname}.forward quantise-before-scale', ok,
                   'weights quantised before the weight scale is read for the bias' if ok else
                   f'the weight scale is read (event {i_scale}) before/without the weight '
                   f'quantizer being applied (event {i_q}): the bias is quantised with the '
                   f'previous step\'s scale', where(fwd))
    ctx.floor('R02e', 'forward paths', n, 6)


def r02g(ctx):
    """The eval-mode model is a function of its current coefficients and input: no forward on the
    MPS path returns a value that an EARLIER call computed from that call's arguments and left
    in a plain attribute (a memo filled under ``is None`` and reused): the scales a bias is
    quantised with, for instance, change with the precision selection."""
    repo = ctx.repo
    n = 0
    for ci in sorted(repo.classes.values(), key=lambda c: c.qualname):
        if not ci.module.name.startswith('plinio.methods.mps'):
            continue
        fwd = ci.methods.get('forward')
        if fwd is None:
            continue
        kinds = storage_kinds(repo, ci)
        args = {('param', x) for x in fwd.params[1:]}
        ps = returning(paths(repo, fwd))
        stored = {}
        for p in ps:
            for e in p.events:
                if e.kind == 'setattr' and e.data[0] == SELF and \
                        kinds.get(e.data[1], 'plain') == 'plain' and \
                        mentions(e.data[2], lambda y: y in args):
                    stored.setdefault(e.data[1], e)
        if not stored:
            continue
        n += 1
        bad = None
        for p in ps:
            here = {e.data[1] for e in p.events if e.kind == 'setattr' and e.data[0] == SELF}
            for a, ev in stored.items():
                if a not in here and p.retval is not None and \
                        mentions(p.retval, lambda y, a=a: y == ('attr', SELF, a)):
                    bad = (a, ev)
        ctx.ob('R02g', f'{ci.name}.forward returns nothing left by an earlier call', bad is None,
               'every returned value is computed from this call\'s arguments' if bad is None else
               f'a path returns self.{bad[0]} without recomputing it: the attribute holds what '
               f'an earlier call computed from ITS arguments ({short(bad[1].data[2], 70)}); when '
               f'the coefficients (hence the scales) change between two eval-mode forwards the '
               f'model keeps the old value while the exported network recomputes it', where(fwd))
    ctx.floor('R02g', 'forwards that store a function of their arguments', n, 1)


def r02h(ctx):
    """"The input bit-width of a layer is the output bit-width selected for the tensor it
    consumes", on graphs: register_in_mps_quantizers is interpreted (finite interpreter) on small
    fx-graph worlds in which a layer that only PROPAGATES the number of features -- a depthwise
    convolution, the quantizer of a residual sum -- sits between two MPS layers and owns an
    output quantizer that is not shared with its producer's (the situation next to the network
    input, whose quantizer is added after the sharing map is built).  The consumer must alias
    the output quantizer of the closest MPS layer on its data path, not the one of the layer
    that sets its number of input features."""
    import ast
    from ..mini import Mini, Obj, Raised, Token, Unsupported
    repo = ctx.repo
    fn = repo.fn('mps.graph.register_in_mps_quantizers')

    def build(spec):
        """spec: name -> (kind, [inputs]); kinds: in (placeholder), mps (MPS layer that defines
        its width), mpsprop (MPS layer that propagates it: depthwise / sum quantizer), prop"""
        nodes = {}
        for name, (kind, _ins) in spec.items():
            o = Obj('Node')
            sub = Obj('Module')
            sub.attrs.update({'out_mps_quantizer': Obj('Qtz:' + name), 'in_mps_quantizer': None})
            o.attrs.update({'name': name, 'target': name, 'meta': {},
                            'op': 'placeholder' if kind == 'in' else 'call_module',
                            '_mps': kind in ('mps', 'mpsprop'), '_kind': kind, '_sub': sub})
            nodes[name] = o
        for name, (kind, ins) in spec.items():
            o = nodes[name]
            o.attrs['all_input_nodes'] = [nodes[i] for i in ins]
            o.attrs['args'] = tuple(nodes[i] for i in ins)
            # input_features_set_by, as associate_input_features defines it: the node itself
            # for an input, the producer when it defines its width, otherwise inherited
            if not ins:
                o.attrs['meta']['input_features_set_by'] = o
            else:
                p = nodes[ins[0]]
                o.attrs['meta']['input_features_set_by'] = p if p.attrs['_kind'] in ('mps', 'in') \
                    else p.attrs['meta']['input_features_set_by']
        return nodes

    class _G(Mini):
        def expr(self, e, env):
            if isinstance(e, ast.Attribute):
                o = self.expr(e.value, env)
                if isinstance(o, Obj) and e.attr in o.attrs:
                    return o.attrs[e.attr]
                return ('boundmethod', o, e.attr)
            return super().expr(e, env)

        def builtin(self, name, args, kwargs, node):
            if name == 'str':
                return args[0] if isinstance(args[0], str) else repr(args[0])
            if name == 'isinstance':
                if isinstance(args[1], Token) and args[1].name == 'builtins:list':
                    return isinstance(args[0], list)
                return isinstance(args[0], list) if args[1] is list else False
            return super().builtin(name, args, kwargs, node)

        def method(self, o, name, args, kwargs, node):
            if isinstance(o, Obj) and o.cls_name == 'GraphModule' and name == 'get_submodule':
                return self.globals['__nodes__'][args[0]].attrs['_sub']
            if isinstance(o, dict) and name == 'get':
                return o.get(args[0], args[1] if len(args) > 1 else None)
            return super().method(o, name, args, kwargs, node)
    worlds = {
        'depthwise convolution between the network input and a convolution':
            ({'x': ('in', []), 'inq': ('mps', ['x']), 'dw': ('mpsprop', ['inq']),
              'r': ('prop', ['dw']), 'pw': ('mps', ['r'])}, {'pw': 'dw', 'dw': 'inq'}),
        'residual sum whose first operand is the network input':
            ({'x': ('in', []), 'inq': ('mps', ['x']), 'c1': ('mps', ['inq']),
              'r': ('prop', ['c1']), 'add': ('prop', ['inq', 'r']), 'addq': ('mpsprop', ['add']),
              'c2': ('mps', ['addq'])}, {'c2': 'addq', 'c1': 'inq'}),
        'plain chain': ({'x': ('in', []), 'inq': ('mps', ['x']), 'c1': ('mps', ['inq']),
                         'r': ('prop', ['c1']), 'c2': ('mps', ['r'])}, {'c2': 'c1', 'c1': 'inq'}),
    }
    n = 0
    for label, (spec, want) in worlds.items():
        nodes = build(spec)
        graph = Obj('Graph')
        graph.attrs['nodes'] = list(nodes.values())
        mod = Obj('GraphModule')
        mod.attrs['graph'] = graph
        glob = {
            '__nodes__': nodes,
            'is_inherited_layer': Token('is_inherited_layer',
                                        lambda nd, _m, _t: isinstance(nd, Obj) and
                                        bool(nd.attrs.get('_mps'))),
            'is_layer': Token('is_layer', lambda nd, _m, _t: isinstance(nd, Obj) and
                              bool(nd.attrs.get('_mps'))),
            'cast': Token('cast', lambda _t, v: v),
            'MPSModule': Token('cls:MPSModule'), 'MPSPerLayerQtz': Token('cls:MPSPerLayerQtz'),
            'list': list,
        }
        cp = Obj('pkg')
        cp.attrs['deepcopy'] = cp.attrs['copy'] = lambda v: Obj('copy-of-' + getattr(v, 'cls_name', '?'))
        glob['copy'] = cp
        for st in fn.module.tree.body:
            if isinstance(st, ast.FunctionDef) and st is not fn.node and st.name not in glob:
                glob[st.name] = Token('fn:' + st.name,
                                      lambda *a, _n=st: _G(glob).call_function(_n, list(a)))
        try:
            _G(glob).call_function(fn.node, [mod])
        except (Unsupported, Raised) as ex:
            raise AnalysisError(f'R02h: register_in_mps_quantizers is outside the interpreted '
                                f'subset: {ex}')
        n += 1
        got = {}
        for name, prod in want.items():
            q = nodes[name].attrs['_sub'].attrs.get('in_mps_quantizer')
            owner = next((k for k, v in nodes.items()
                          if v.attrs['_sub'].attrs['out_mps_quantizer'] is q), None)
            got[name] = owner
        bad = sorted(k for k in want if got[k] != want[k])
        ctx.ob('R02h', f'input quantizer = output quantizer of the producer: {label}', not bad,
               f'{want}' if not bad else
               '; '.join(f'{k} consumes the output of {want[k]} but takes the quantizer of '
                         f'{got[k]}' for k in bad) +
               ': summary() and export() give the layer an input precision (and a bias scale) '
               'that is not the precision selected for the tensor it consumes', where(fn))
    ctx.floor('R02h', 'graph worlds of register_in_mps_quantizers', n, 3)


def run(ctx):
    r02h(ctx)
    r02g(ctx)
    c10.r10a(ctx)          # R10a == R02a
    for o in ctx.obligations:
        if o.rule == 'R10a':
            o.rule = 'R02a'
    # the eval-mode collapse of every MPS sampler to the one-hot (shared with C10 R10c)
    before = len(ctx.obligations)
    c10.r10c(ctx)
    keep = []
    for o in ctx.obligations[before:]:
        if 'SuperNet' in o.construct:
            continue
        o.rule = 'R02a'
        keep.append(o)
    ctx.obligations[before:] = keep
    # ... and what the sampler takes the arg-max of is an order-preserving image of the raw
    # alpha (shared with C10 R10b): a clamp / saturation of the temperature-scaled logits ties
    # every coefficient beyond the bound at low temperature, arg-max then returns the first
    # of them, while export keeps arg-max(alpha)
    before = len(ctx.obligations)
    c10.r10b(ctx)
    keep = []
    for o in ctx.obligations[before:]:
        if 'SuperNet' in o.construct:
            continue
        o.rule = 'R02a'
        keep.append(o)
    ctx.obligations[before:] = keep
    # the sampler options reach every MPS quantizer in their own slot (shared with C10 R10d):
    # a layer that receives disable_sampling in place of gumbel never re-samples, so its
    # eval-mode coefficients are not the one-hot export assumes
    before = len(ctx.obligations)
    c10.r10d(ctx)
    keep = []
    for o in ctx.obligations[before:]:
        if 'SuperNet' in o.construct:
            continue
        o.rule = 'R02f'
        keep.append(o)
    ctx.obligations[before:] = keep
    r02b(ctx)
    r02c(ctx)
    r02d(ctx)
    r02e(ctx)
    ctx.note('per-channel export re-orders output channels by precision; C02 is stated for the '
             'per-layer search (recorded as out of scope, not as a finding)')
    ctx.assume('temperature > 0, no ties; a one-hot theta_alpha collapses the weighted sums to the '
               'selected quantizer exactly (0 * x = 0 for finite x)')


MANIFEST = {
    'text': 'For every network, coefficient value and input: export binds each Quant* slot to the '
            'quantizer selected (arg-max of alpha, the source the eval sampler uses) for the '
            'same role, a layer\'s input quantizer is the very object that quantises the tensor '
            'it consumes, MPS*/Quant* forwards are the same computation up to renaming with '
            'weighted sums over one shared index, and weights are quantised before their scale '
            'is read. Bit-exactness of the floating arithmetic is not decided.',
    'note': 'Trusted: constructor signatures parsed from the repository; a one-hot weighted sum '
            'equals the selected term exactly for finite values.',
    'technique': 'selection-source dataflow + constructor slot agreement + alias check of the '
                 'wiring site + sibling skeleton comparison + call-order typestate',
}
