"""C15 — cost-function lookup depends on the layer, not on registration order.

R15: the syntax trees of ``CostSpec.__init__``, ``__setitem__`` and ``__getitem__`` are
interpreted (sa/mini.py) over a finite token domain.  Entries of one layer type are
abstracted to: the unconstrained entry U and three constrained entries C1..C3 whose
constraint either matches the looked-up spec or not.  Every subset of {U,C1,C2,C3}, every
match assignment, every registration order (permutation) and both default behaviours are
enumerated; a second layer type with its own entries is interleaved to check that other
types do not interfere.  Obligations, per (subset, match assignment, default):
  R15a order-independence: all permutations give the same outcome;
  R15b priority: the outcome is  constrained match > unconstrained > default;
  R15c conflict: KeyError is raised iff two different constrained entries match.
R15g: the producers of the lookup (each wrapper's _single_cost_fn_map) describe the layer by
  vars(layer) -- its static attributes -- so 'the layer satisfies the pattern' does not depend
  on masks / coefficients at the time the map is (re)built.
"""
from __future__ import annotations

import ast
import itertools

from ..mini import Mini, Obj, Raised, Token, Unsupported
from ..model import AnalysisError

LEVEL = 'model_checking'
EXPLANATION = ('Abstract interpretation of the AST of CostSpec.__init__/__setitem__/__getitem__ '
               'over a finite token domain (unconstrained / constrained-matching / '
               'constrained-non-matching entries); every registration order of up to 4 '
               'patterns per layer type, every match subset and both default behaviours are '
               'enumerated exhaustively. No repository code is executed.')
RULE_TEXT = ('case = (set of registered entries, which constraints match the spec, default '
             'behaviour); evaluated over all permutations of the registration order, with and '
             'without interleaved entries of another layer type; a case is non-trivial when at '
             'least two entries are registered (order can matter)')


def _class_fn(ci, name):
    f = ci.methods.get(name)
    if f is None:
        raise AnalysisError(f'CostSpec.{name} not found')
    return f.node


_DW_NAMES = {'groups': 'groups', 'in_channels': 'in', 'out_channels': 'out'}


def _dw_operand(e: ast.AST, alias):
    if isinstance(e, ast.Attribute) and e.attr in _DW_NAMES:
        return _DW_NAMES[e.attr]
    if isinstance(e, ast.Subscript) and isinstance(e.slice, ast.Constant) and \
            e.slice.value in _DW_NAMES:
        return _DW_NAMES[e.slice.value]
    if isinstance(e, ast.Name) and e.id in alias:
        return _dw_operand(alias[e.id], {})
    return None


def dw_normal_form(e: ast.AST, alias=None):
    """(partition of {in, out, groups} induced by the == atoms of a conjunction, other atoms)"""
    alias = alias or {}
    atoms = []

    def flat(x):
        if isinstance(x, ast.BoolOp) and isinstance(x.op, ast.And):
            for v in x.values:
                flat(v)
        else:
            atoms.append(x)
    flat(e)
    parent = {k: k for k in ('in', 'out', 'groups')}

    def find(a):
        while parent[a] != a:
            a = parent[a]
        return a
    extras = []
    for a in atoms:
        if isinstance(a, ast.Compare) and all(isinstance(o, ast.Eq) for o in a.ops):
            ops = [_dw_operand(x, alias) for x in [a.left] + list(a.comparators)]
            if all(o is not None for o in ops):
                for x, y in zip(ops, ops[1:]):
                    parent[find(x)] = find(y)
                continue
        extras.append(ast.unparse(a))
    classes = {}
    for k in parent:
        classes.setdefault(find(k), set()).add(k)
    return frozenset(frozenset(v) for v in classes.values()), tuple(sorted(extras))


def r15d(ctx):
    """The depthwise pattern is one concept with one definition: the constraint of
    cost/pattern.py (what 'the layer satisfies the depthwise pattern' means for the lookup)
    agrees with every other depthwise test of the library (graph classification, layer
    constructors, export) — in_channels == out_channels == groups and nothing else — and reads
    only the spec it is given."""
    repo = ctx.repo
    full = (frozenset([frozenset(['in', 'out', 'groups'])]), ())
    sites = []
    for fn in repo.all_functions():
        alias = {}
        for n in ast.walk(fn.node):
            if isinstance(n, ast.Assign) and len(n.targets) == 1 and \
                    isinstance(n.targets[0], ast.Name):
                alias[n.targets[0].id] = n.value
        seen_inner = set()
        for n in ast.walk(fn.node):
            if id(n) in seen_inner:
                continue
            if isinstance(n, (ast.BoolOp, ast.Compare)):
                if isinstance(n, ast.BoolOp) and not isinstance(n.op, ast.And):
                    continue
                names = {_dw_operand(x, alias) for x in ast.walk(n)}
                if 'groups' in names and (names & {'in', 'out'}) and \
                        any(isinstance(x, ast.Compare) and any(isinstance(o, ast.Eq) for o in x.ops)
                            and _dw_operand(x.left, alias) is not None for x in ast.walk(n)):
                    for x in ast.walk(n):
                        seen_inner.add(id(x))
                    sites.append((fn, n, dw_normal_form(n, alias)))
    ctx.floor('R15d', 'depthwise tests in the library', len(sites), 8)
    in_pattern = [s_ for s_ in sites if s_[0].module.name.endswith('cost.pattern')]
    if not in_pattern:
        raise AnalysisError('R15d: depthwise constraint of cost/pattern.py not found')
    for fn, n, nf in sites:
        ok = nf == full
        where_ = f'{fn.module.relpath}:{n.lineno}'
        label = (fn.cls.name + '.' if fn.cls else '') + fn.name
        ctx.ob('R15d', f'depthwise test in {label} +{n.lineno - fn.node.lineno}', ok,
               'in_channels == out_channels == groups' if ok else
               f'"{ast.unparse(n)[:120]}" is not the library-wide depthwise definition '
               f'in_channels == out_channels == groups (equalities: '
               f'{sorted(sorted(c) for c in nf[0])}, other conditions: {list(nf[1])}): layers are '
               f'classified as depthwise by one part of the library and not by another, so the '
               f'lookup returns the depthwise model for layers that do not satisfy the depthwise '
               f'pattern (or raises a conflict with another matching pattern)', where_)
    for fn, n, nf in in_pattern:
        reads = {x.id for st in fn.node.body for x in ast.walk(st)
                 if isinstance(x, ast.Name) and isinstance(x.ctx, ast.Load)}
        params = {a.arg for a in fn.node.args.args}
        local = {x.id for x in ast.walk(fn.node) if isinstance(x, ast.Name) and
                 isinstance(x.ctx, ast.Store)}
        foreign = sorted(reads - params - local - {'all', 'any', 'len', 'int', 'float', 'tuple'})
        ctx.ob('R15d', f'{fn.name} is a function of the spec only', not foreign,
               'reads only its argument' if not foreign else
               f'the constraint also reads {foreign}: the pattern a layer satisfies would depend '
               f'on state outside the layer', f'{fn.module.relpath}:{fn.node.lineno}',
               nontrivial=False)


# intended meaning of the built-in constraints (confirmed by reading cost/pattern.py and the
# README; frozen here): name -> predicate on a concrete spec
CONSTRAINT_MEANING = {
    'conv_dw_constraint': lambda sp: sp['in_channels'] == sp['groups'] and
    sp['out_channels'] == sp['groups'],
    'conv_3_constraint': lambda sp: all(k == 3 for k in sp['kernel_size']),
}


def r15f(ctx):
    """"The constrained pattern the layer satisfies": each built-in constraint of
    cost/pattern.py is interpreted (finite interpreter, no execution of the library) on a grid
    of concrete layer specs and must return exactly the truth value its pattern means -- a
    constraint that is always truthy makes the lookup return the constrained model for layers
    that do not satisfy the pattern, in every registration order."""
    repo = ctx.repo
    mod = repo.modules['plinio.cost.pattern']
    fdefs = {n.name: n for n in mod.tree.body if isinstance(n, ast.FunctionDef)}
    used = set()
    for name, sts in mod.assigns.items():
        for st in sts:
            v = getattr(st, 'value', None)
            if isinstance(v, ast.Tuple) and len(v.elts) == 2 and isinstance(v.elts[1], ast.Name):
                used.add(v.elts[1].id)
    grid = []
    for cin, cout, g in ((4, 4, 4), (4, 8, 4), (8, 4, 4), (4, 4, 1), (4, 4, 2), (1, 1, 1)):
        for k in ((3,), (5,), (1,), (3, 3), (3, 5), (5, 3), (1, 3), (5, 5), (1, 1)):
            grid.append({'in_channels': cin, 'out_channels': cout, 'groups': g,
                         'kernel_size': k, 'stride': (1,) * len(k), 'in_features': cin,
                         'out_features': cout})
    n = 0
    for name in sorted(used):
        fd = fdefs.get(name)
        ref = CONSTRAINT_MEANING.get(name)
        if fd is None or ref is None:
            ctx.note(f'constraint {name} has no recorded meaning: not interpreted')
            continue
        n += 1
        bad = None
        try:
            for sp in grid:
                got = Mini({}).call_function(fd, [dict(sp)])
                if got is not ref(sp):
                    bad = (sp, got)
                    break
        except (Unsupported, Raised) as ex:
            raise AnalysisError(f'R15f: {name} uses a construct outside the interpreted subset: '
                                f'{ex}')
        ctx.ob('R15f', f'{name} decides its pattern', bad is None,
               f'agrees with its meaning on {len(grid)} layer specs' if bad is None else
               f'for in/out/groups = {bad[0]["in_channels"]}/{bad[0]["out_channels"]}/'
               f'{bad[0]["groups"]}, kernel {bad[0]["kernel_size"]} the constraint returns '
               f'{bad[1]!r} but the layer does '
               f'{"" if ref(bad[0]) else "not "}satisfy the pattern: the lookup returns the '
               f'constrained model for a layer outside the pattern (or raises a conflict with '
               f'another pattern that really matches), whatever the registration order',
               f'{mod.relpath}:{fd.lineno}')
    ctx.floor('R15f', 'built-in constraints with a recorded meaning', n, 2)


def r15e(ctx):
    """The exported pattern tuples of cost/pattern.py name distinct patterns: no two public
    names denote the same (layer type, constraint) pair — registering a function under each
    of two aliases of one pattern makes the lookup raise a conflict for every layer that
    matches it, and leaves the layer type the second name promises without its entry — and
    the layer type a tuple is filed under is the one its name announces (Conv1d* / Conv2d* /
    Linear*)."""
    repo = ctx.repo
    mod = repo.modules['plinio.cost.pattern']
    tuples = {}
    for name, sts in mod.assigns.items():
        for st in sts:
            v = getattr(st, 'value', None)
            if isinstance(v, ast.Tuple) and len(v.elts) == 2:
                tuples[name] = (ast.unparse(v.elts[0]), ast.unparse(v.elts[1]), st.lineno)
    ctx.floor('R15e', 'pattern tuples', len(tuples), 7)
    by_val = {}
    for name, (ty, cn, ln) in sorted(tuples.items()):
        by_val.setdefault((ty, cn), []).append(name)
    for (ty, cn), names in sorted(by_val.items()):
        ok = len(names) == 1
        ctx.ob('R15e', f'pattern ({ty}, {cn}) has one name', ok,
               names[0] if ok else
               f'{names} all denote ({ty}, {cn}): a specification that registers a function for '
               f'each of them files two entries of the same constraint under {ty} (every '
               f'matching layer raises "conflicting cost models") and nothing under the layer '
               f'type the other name stands for', f'{mod.relpath}:{tuples[names[0]][2]}')
    for name, (ty, cn, ln) in sorted(tuples.items()):
        announced = [k for k in ('Conv1d', 'Conv2d', 'Conv3d', 'Linear') if name.startswith(k)]
        if not announced:
            continue
        ok = ty.split('.')[-1] == announced[0]
        ctx.ob('R15e', f'{name} is filed under the layer type it names', ok,
               ty if ok else
               f'{name} = ({ty}, {cn}): entries registered with this pattern are looked up for '
               f'{ty} layers, never for nn.{announced[0]} ones', f'{mod.relpath}:{ln}',
               nontrivial=False)


def run(ctx):
    r15d(ctx)
    r15e(ctx)
    r15f(ctx)
    # R15g: the spec handed to the lookup by each wrapper is the layer itself (vars(layer)),
    # not search state -- shared with R04d / R05g / R06h
    from .c04 import lookup_key_rule
    for w in ('PIT', 'MPS', 'SuperNet'):
        lookup_key_rule(ctx, 'R15g', w)
    repo = ctx.repo
    ci = repo.cls('CostSpec')
    init, setitem, getitem = (_class_fn(ci, n) for n in ('__init__', '__setitem__', '__getitem__'))
    mod = ci.module

    # globals visible to the interpreted code: module-level functions are tokens
    glob = {}
    for fname in mod.functions:
        glob[fname] = Token('fn:' + fname)
    # module-level constant tables (NAME = <display of constants / functions>), in source order
    for st in mod.tree.body:
        if isinstance(st, ast.Assign) and len(st.targets) == 1 and \
                isinstance(st.targets[0], ast.Name):
            try:
                glob[st.targets[0].id] = Mini(glob).expr(st.value, {})
            except (Unsupported, Raised):
                pass

    def super_init(self_obj, meth, args):
        # axiom: collections.UserDict.__init__ creates the empty ``data`` dict
        if meth == '__init__' and isinstance(self_obj, Obj):
            self_obj.attrs['data'] = {}

    SPEC = Token('SPEC')
    PAT, PAT2 = Token('Pattern:A'), Token('Pattern:B')
    names = ['U', 'C1', 'C2', 'C3']
    fns = {n: Token('costfn:' + n) for n in names}
    other_fns = {n: Token('costfn:other-' + n) for n in ('U', 'C1')}

    wrong_arg = []

    def mk_constraint(name, matches):
        def call(arg):
            if arg is not SPEC and arg != SPEC:
                wrong_arg.append((name, arg))
            return matches
        return Token('constraint:' + name, call)

    def lookup(order, match, default, interleave):
        it = Mini(glob, super_init)
        obj = Obj('CostSpec')
        it.call_function(init, [obj], {'shared': True, 'default_behavior': default})
        default_tok = obj.attrs.get('default')
        seq = []
        for n in order:
            constr = None if n == 'U' else mk_constraint(n, match[n])
            seq.append(((PAT, constr), fns[n]))
        if interleave:
            extra = [((PAT2, None), other_fns['U']),
                     ((PAT2, mk_constraint('otherC1', True)), other_fns['C1'])]
            # interleave: one before, one in the middle
            seq = [extra[0]] + seq[:len(seq) // 2] + [extra[1]] + seq[len(seq) // 2:]
        for key, fn in seq:
            it.call_function(setitem, [obj, key, fn])
        try:
            res = it.call_function(getitem, [obj, (PAT, SPEC)])
            return ('ret', res), default_tok
        except Raised as r:
            return ('raise', r.exc_type), default_tok

    n_runs = 0
    n_cases = 0
    try:
        for default in ('zero', 'fail'):
            for k in range(0, 5):
                for subset in itertools.combinations(names, k):
                    cs = [n for n in subset if n != 'U']
                    for bits in itertools.product([False, True], repeat=len(cs)):
                        match = dict(zip(cs, bits))
                        n_cases += 1
                        outcomes = {}
                        default_tok = None
                        for interleave in (False, True):
                            for order in itertools.permutations(subset):
                                out, default_tok = lookup(order, match, default, interleave)
                                n_runs += 1
                                outcomes[(order, interleave)] = out
                        matching = [n for n in cs if match[n]]
                        if len(matching) >= 2:
                            expected = ('raise', 'KeyError')
                        elif len(matching) == 1:
                            expected = ('ret', fns[matching[0]])
                        elif 'U' in subset:
                            expected = ('ret', fns['U'])
                        else:
                            expected = ('ret', default_tok)
                        desc = (f'registered={{{",".join(subset)}}} matching='
                                f'{{{",".join(matching)}}} default={default}')
                        distinct = {}
                        for (order, il), out in outcomes.items():
                            distinct.setdefault(out, (order, il))
                        ctx.ob('R15a', f'CostSpec.lookup order-independence {desc}',
                               len(distinct) <= 1,
                               'all registration orders agree' if len(distinct) <= 1 else
                               'outcome depends on registration order: ' + '; '.join(
                                   f'order {list(o)}{" (+other type interleaved)" if il else ""}'
                                   f' -> {out}' for out, (o, il) in distinct.items()),
                               where=f'{ci.module.relpath}:{getitem.lineno}',
                               nontrivial=len(subset) >= 2)
                        wrong = [(o, out) for (o, il), out in outcomes.items() if out != expected]
                        rule = 'R15c' if len(matching) >= 2 or any(
                            out[0] == 'raise' for out in outcomes.values()) else 'R15b'
                        ctx.ob(rule, f'CostSpec.lookup result {desc}', not wrong,
                               f'expected {expected}' if not wrong else
                               f'expected {expected} but order {list(wrong[0][0])} gives '
                               f'{wrong[0][1]}',
                               where=f'{ci.module.relpath}:{getitem.lineno}',
                               nontrivial=len(subset) >= 1)
    except Unsupported as e:
        raise AnalysisError(f'CostSpec lookup uses a construct outside the interpreted '
                            f'subset: {e}')
    ctx.ob('R15d', 'CostSpec.lookup constraint argument', not wrong_arg,
           'constraints are evaluated on the spec component of the key' if not wrong_arg else
           f'constraint called with {wrong_arg[0][1]} instead of the spec',
           where=f'{ci.module.relpath}:{getitem.lineno}')
    ctx.floor('R15', 'lookup cases', n_cases, 100)
    ctx.count('interpreted lookups', n_runs)
    ctx.coverage_extra.update({'exhaustive': True, 'states': n_cases, 'transitions': n_runs})
    ctx.assume('collections.UserDict.__init__ creates an empty dict in self.data')
    ctx.assume('user constraints are pure boolean functions of the spec (opaque atoms)')

MANIFEST = {
    'text': 'Complete decision of the lookup procedure over its abstract input space: the AST of '
            'CostSpec.__init__/__setitem__/__getitem__ is abstractly interpreted for every '
            'registration order of up to 4 patterns (1 unconstrained + 3 constrained), every '
            'subset of matching constraints, both defaults, with another layer type interleaved. '
            'This is the whole quantifier of C15 (user constraints are opaque boolean atoms).',
    'note': 'Trusted: the small AST interpreter (sa/mini.py) models Python semantics of the '
            'statement/expression subset used; UserDict.__init__ creates self.data = {}; '
            'constraints are pure boolean functions of the spec.',
    'technique': 'finite-domain abstract interpretation of the lookup AST, exhaustive over orders',
}
