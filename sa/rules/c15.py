"""C15 — cost-function lookup depends on the layer, not on registration order.

R15: the syntax trees of ``CostSpec.__init__``, ``__setitem__`` and ``__getitem__`` are
interpreted (sa/mini.py) over a finite token domain.  Entries of one layer type are
abstracted to: the unconstrained entry U and three constrained entries C1..C3 whose
constraint either matches the looked-up spec or not.  Every subset of {U,C1,C2,C3}, every
match assignment, every registration order (permutation) and both default behaviours are
enumerated; a second layer type with its own entries is interleaved to check that other
types do not interfere.  Obligations, per (subset, match assignment, default):
  R15a order-independence: all permutations give the same outcome;
  R15b priority: the outcome is  constrained match > unconstrained > default;
  R15c conflict: KeyError is raised iff two different constrained entries match.
"""
from __future__ import annotations

import ast
import itertools

from ..mini import Mini, Obj, Raised, Token, Unsupported
from ..model import AnalysisError

LEVEL = 'model_checking'
EXPLANATION = ('Abstract interpretation of the AST of CostSpec.__init__/__setitem__/__getitem__ '
               'over a finite token domain (unconstrained / constrained-matching / '
               'constrained-non-matching entries); every registration order of up to 4 '
               'patterns per layer type, every match subset and both default behaviours are '
               'enumerated exhaustively. No repository code is executed.')
RULE_TEXT = ('case = (set of registered entries, which constraints match the spec, default '
             'behaviour); evaluated over all permutations of the registration order, with and '
             'without interleaved entries of another layer type; a case is non-trivial when at '
             'least two entries are registered (order can matter)')


def _class_fn(ci, name):
    f = ci.methods.get(name)
    if f is None:
        raise AnalysisError(f'CostSpec.{name} not found')
    return f.node


def run(ctx):
    repo = ctx.repo
    ci = repo.cls('CostSpec')
    init, setitem, getitem = (_class_fn(ci, n) for n in ('__init__', '__setitem__', '__getitem__'))
    mod = ci.module

    # globals visible to the interpreted code: module-level functions are tokens
    glob = {}
    for fname in mod.functions:
        glob[fname] = Token('fn:' + fname)

    def super_init(self_obj, meth, args):
        # axiom: collections.UserDict.__init__ creates the empty ``data`` dict
        if meth == '__init__' and isinstance(self_obj, Obj):
            self_obj.attrs['data'] = {}

    SPEC = Token('SPEC')
    PAT, PAT2 = Token('Pattern:A'), Token('Pattern:B')
    names = ['U', 'C1', 'C2', 'C3']
    fns = {n: Token('costfn:' + n) for n in names}
    other_fns = {n: Token('costfn:other-' + n) for n in ('U', 'C1')}

    wrong_arg = []

    def mk_constraint(name, matches):
        def call(arg):
            if arg is not SPEC and arg != SPEC:
                wrong_arg.append((name, arg))
            return matches
        return Token('constraint:' + name, call)

    def lookup(order, match, default, interleave):
        it = Mini(glob, super_init)
        obj = Obj('CostSpec')
        it.call_function(init, [obj], {'shared': True, 'default_behavior': default})
        default_tok = obj.attrs.get('default')
        seq = []
        for n in order:
            constr = None if n == 'U' else mk_constraint(n, match[n])
            seq.append(((PAT, constr), fns[n]))
        if interleave:
            extra = [((PAT2, None), other_fns['U']),
                     ((PAT2, mk_constraint('otherC1', True)), other_fns['C1'])]
            # interleave: one before, one in the middle
            seq = [extra[0]] + seq[:len(seq) // 2] + [extra[1]] + seq[len(seq) // 2:]
        for key, fn in seq:
            it.call_function(setitem, [obj, key, fn])
        try:
            res = it.call_function(getitem, [obj, (PAT, SPEC)])
            return ('ret', res), default_tok
        except Raised as r:
            return ('raise', r.exc_type), default_tok

    n_runs = 0
    n_cases = 0
    try:
        for default in ('zero', 'fail'):
            for k in range(0, 5):
                for subset in itertools.combinations(names, k):
                    cs = [n for n in subset if n != 'U']
                    for bits in itertools.product([False, True], repeat=len(cs)):
                        match = dict(zip(cs, bits))
                        n_cases += 1
                        outcomes = {}
                        default_tok = None
                        for interleave in (False, True):
                            for order in itertools.permutations(subset):
                                out, default_tok = lookup(order, match, default, interleave)
                                n_runs += 1
                                outcomes[(order, interleave)] = out
                        matching = [n for n in cs if match[n]]
                        if len(matching) >= 2:
                            expected = ('raise', 'KeyError')
                        elif len(matching) == 1:
                            expected = ('ret', fns[matching[0]])
                        elif 'U' in subset:
                            expected = ('ret', fns['U'])
                        else:
                            expected = ('ret', default_tok)
                        desc = (f'registered={{{",".join(subset)}}} matching='
                                f'{{{",".join(matching)}}} default={default}')
                        distinct = {}
                        for (order, il), out in outcomes.items():
                            distinct.setdefault(out, (order, il))
                        ctx.ob('R15a', f'CostSpec.lookup order-independence {desc}',
                               len(distinct) <= 1,
                               'all registration orders agree' if len(distinct) <= 1 else
                               'outcome depends on registration order: ' + '; '.join(
                                   f'order {list(o)}{" (+other type interleaved)" if il else ""}'
                                   f' -> {out}' for out, (o, il) in distinct.items()),
                               where=f'{ci.module.relpath}:{getitem.lineno}',
                               nontrivial=len(subset) >= 2)
                        wrong = [(o, out) for (o, il), out in outcomes.items() if out != expected]
                        rule = 'R15c' if len(matching) >= 2 or any(
                            out[0] == 'raise' for out in outcomes.values()) else 'R15b'
                        ctx.ob(rule, f'CostSpec.lookup result {desc}', not wrong,
                               f'expected {expected}' if not wrong else
                               f'expected {expected} but order {list(wrong[0][0])} gives '
                               f'{wrong[0][1]}',
                               where=f'{ci.module.relpath}:{getitem.lineno}',
                               nontrivial=len(subset) >= 1)
    except Unsupported as e:
        raise AnalysisError(f'CostSpec lookup uses a construct outside the interpreted '
                            f'subset: {e}')
    ctx.ob('R15d', 'CostSpec.lookup constraint argument', not wrong_arg,
           'constraints are evaluated on the spec component of the key' if not wrong_arg else
           f'constraint called with {wrong_arg[0][1]} instead of the spec',
           where=f'{ci.module.relpath}:{getitem.lineno}')
    ctx.floor('R15', 'lookup cases', n_cases, 100)
    ctx.count('interpreted lookups', n_runs)
    ctx.coverage_extra.update({'exhaustive': True, 'states': n_cases, 'transitions': n_runs})
    ctx.assume('collections.UserDict.__init__ creates an empty dict in self.data')
    ctx.assume('user constraints are pure boolean functions of the spec (opaque atoms)')

MANIFEST = {
    'text': 'Complete decision of the lookup procedure over its abstract input space: the AST of '
            'CostSpec.__init__/__setitem__/__getitem__ is abstractly interpreted for every '
            'registration order of up to 4 patterns (1 unconstrained + 3 constrained), every '
            'subset of matching constraints, both defaults, with another layer type interleaved. '
            'This is the whole quantifier of C15 (user constraints are opaque boolean atoms).',
    'note': 'Trusted: the small AST interpreter (sa/mini.py) models Python semantics of the '
            'statement/expression subset used; UserDict.__init__ creates self.data = {}; '
            'constraints are pure boolean functions of the spec.',
    'technique': 'finite-domain abstract interpretation of the lookup AST, exhaustive over orders',
}
