"""C19 — regularizers are non-negative penalties that vanish when constraints hold.

Decided by abstract interpretation of the two ``__call__`` bodies (interval x monotonicity
domain) under: strength >= 0, epoch >= 0, n_epochs >= 1, cost and target real.
 R19a BaseRegularizer returns get_cost(cost_name) * strength.
 R19b DUCCIO: each term = eff * max(0, cost - target) with eff in [0, strength], eff
      non-decreasing in the epoch, eff(epoch=0) == strength/100 and eff(epoch=n/2) ==
      strength (polynomial identity, before the clamp); the sum is >= 0, equals 0 when every
      excess is <= 0, is > 0 for positive strengths and a positive excess, and is
      non-decreasing in each cost.
 R19c lazily derived strengths are clamped >= 0 and computed under no_grad.
"""
from __future__ import annotations

from typing import Dict, Optional

from .. import poly
from ..model import AnalysisError
from ..numdom import AV, INF, NumError, NumEval, add, const
from ..sym import Event, NONE, Term, mentions, show, subterms
from ..util import (SELF, arg, callee, is_call, method_call, paths, returning, short, where)

LEVEL = 'proof'
EXPLANATION = ('Abstract interpretation of BaseRegularizer.__call__ and DUCCIO.__call__ over the '
               'interval x monotonicity domain with symbolic inputs (strength, epoch, n_epochs, '
               'cost, target), plus two polynomial identities for the ramp end points. Every '
               'obligation is discharged for all models and schedule positions at once.')
RULE_TEXT = ('obligation = one clause of R19a-c on one return path of the two __call__ bodies '
             '(sign, bounds, monotonicity, zero-when-satisfied, ramp end points)')


def _num_fail(ctx, what: str, ex, fn):
    """A failure of the numeric evaluation: a division whose divisor can be zero is a finding
    (the penalty is not finite for an admissible epoch count); anything else means the code left
    the modelled subset."""
    if 'division by' in str(ex):
        ctx.ob('R19b', f'{what} finite', False,
               f'{ex}: for an admissible argument (n_epochs = 1 is the default) the penalty is '
               f'inf / NaN or raises', where(fn))
        return
    raise AnalysisError(f'{what} is outside the numeric domain: {ex}')


def duccio_inputs(call: Term, strength: Term, target: Term, epoch: Term, nep: Term, ranges):
    def inp(t):
        if t == strength:
            lo, hi = ranges['s']
            return AV(lo, hi, {'s': 1})
        # excess = cost - target, when constrained by the scenario
        if 'x' in ranges and t[0] == 'bin' and t[1] == '-' and t[3] == target and \
                method_call(t[2]) and method_call(t[2])[1] == 'get_cost':
            lo, hi = ranges['x']
            return AV(lo, hi, {'c': 1, 't': -1})
        if 'x' in ranges:
            # cost and target read in another arrangement: a representative target of 10 and
            # the cost in 10 + (range of the excess)
            lo, hi = ranges['x']
            if t == target:
                return AV(10.0, 10.0, {})
            if t[0] == 'call' and method_call(t) and method_call(t)[1] == 'get_cost':
                return AV(10.0 + lo, 10.0 + hi, {'c': 1})
        if t == target:
            return AV(-INF, INF, {'t': 1})
        if t == epoch:
            return AV(0.0, INF, {'e': 1})
        if t == nep:
            return AV(1.0, INF, {'n': 1})
        if t[0] == 'call' and method_call(t) and method_call(t)[1] == 'get_cost':
            return AV(-INF, INF, {'c': 1})
        return None
    return inp


# helpers of the regularizer classes are inlined; the model's cost stays a call
KEEP19 = ('get_cost',)


def named_cost_plumbing(ctx, rule: str):
    """``model.get_cost(name)`` is the NAMED cost: DNAS.get_cost hands _get_single_cost the
    specification and the function map stored under the same name (or the single ones when no
    name is given), and _create_cost_fn_map builds the map of each name from the specification
    of that name."""
    repo = ctx.repo
    d = repo.cls('DNAS')
    gc, mk = d.methods['get_cost'], d.methods['_create_cost_fn_map']
    spec, fmap = ('attr', SELF, '_cost_specification'), ('attr', SELF, '_cost_fn_map')
    name = ('param', gc.params[1])

    def strip(t):
        while t[0] == 'cast' or is_call(t, 'typing.cast'):
            t = t[-1] if t[0] == 'cast' else t[2][-1]
        return t
    n = 0
    for p in returning(paths(repo, gc)):
        r = p.retval
        if r is None or method_call(r) is None or method_call(r)[1] != '_get_single_cost' or \
                len(r[2]) != 2:
            continue
        n += 1
        a, b = strip(r[2][0]), strip(r[2][1])
        unnamed = any(x == ('isnone', name) and pol for x, pol in p.assumptions)
        want = (spec, fmap) if unnamed else (('sub', spec, name), ('sub', fmap, name))
        ok = (a, b) == want
        ctx.ob(rule, f'DNAS.get_cost({"None" if unnamed else "name"}) evaluates the '
               f'{"single" if unnamed else "named"} metric', ok,
               'specification and function map of the same metric' if ok else
               f'_get_single_cost receives ({short(a, 60)}, {short(b, 60)}): the named cost is '
               f'computed with the specification / cost functions of another metric, so a '
               f'regularizer constrains a different quantity than the one its target names',
               where(gc))
    ctx.floor(rule, 'DNAS.get_cost return paths', n, 2)
    n = 0
    for p in returning(paths(repo, mk)):
        pairs = [(e.data[1], e.data[2], e.node) for e in p.events if e.kind == 'setitem']
        # ... or a dict comprehension {n: f(c) for n, c in spec.items()}
        for x in subterms(p.retval) if p.retval is not None else ():
            if x[0] == 'comp' and x[1] == 'dict' and len(x[2]) == 2:
                pairs.append((x[2][0], x[2][1], None))
        for k, v, node in pairs:
            e = Event('setitem', (), node, ())
            n += 1
            ok = k[0] == 'sub' and k[2] == ('const', 0) and k[1][0] == 'elem' and \
                method_call(k[1][1]) is not None and method_call(k[1][1])[0] == spec and \
                method_call(k[1][1])[1] == 'items' and method_call(v) is not None and \
                method_call(v)[1] == '_single_cost_fn_map' and \
                method_call(v)[2] == (('sub', k[1], ('const', 1)),)
            ctx.ob(rule, 'DNAS._create_cost_fn_map builds each map from its own specification',
                   ok, 'map[name] = _single_cost_fn_map(spec[name])' if ok else
                   f'the map stored under {short(k, 50)} is {short(v, 90)}: not built from the '
                   f'specification of the same name', where(mk, e.node))
    ctx.floor(rule, 'function-map stores', n, 1)


def cost_is_pure(ctx, rule: str):
    """Evaluating the cost does not change it: no in-place tensor write on state owned by the
    model is reachable from _get_single_cost (effect closure, property getters included) --
    otherwise strength x cost grows from one regularizer call to the next."""
    from ..effects import Effects
    E = Effects(ctx.repo)
    for wname in ('PIT', 'MPS', 'SuperNet'):
        f = ctx.repo.cls(wname).methods['_get_single_cost']
        hard = [e for e in E.closure(f) if e.kind == 'inplace' and
                e.owners & {'self', 'g:self', 'unknown', 'global'}]
        ctx.ob(rule, f'{wname}._get_single_cost leaves the model unchanged', not hard,
               'no in-place tensor write on model-owned state' if not hard else
               '; '.join(f'{e.detail[:70]} at {e.where()}' for e in hard[:2]) +
               ': every evaluation of the cost modifies a tensor the next evaluation reads, so '
               'the penalty is not strength x cost from the second call on', where(f))
        # ... and it does not re-assign state that it reads itself (sampled selection
        # coefficients, memoised masks): the regularizer must price the architecture sample the
        # forward pass used, and two evaluations with no step in between must agree
        reads = E.attrs_read(list(E.reachable(f).values()))
        stores = [e for e in E.closure(f) if e.kind == 'setattr' and
                  e.owners & {'self', 'g:self', 'unknown', 'global'} and
                  e.name.strip("'") in reads]
        ctx.ob(rule, f'{wname}._get_single_cost re-assigns nothing it reads', not stores,
               'no attribute read by the cost is stored while it is evaluated' if not stores else
               '; '.join(f'{e.fn.qualname.split("plinio.")[-1]} stores {e.name} = {e.detail[:60]} '
                         f'at {e.where()}' for e in stores[:2]) +
               ': the cost is evaluated on state it has just replaced (a fresh sample of the '
               'selection coefficients when sampling is stochastic), so the penalty is neither '
               'strength x the cost the forward pass saw nor reproducible between two calls',
               where(f))


def _derivation_under_nograd(repo, call) -> bool:
    """Every division by a cost excess that derives a strength from task_loss -- in __call__ or
    in a helper it was moved to -- is lexically inside ``with torch.no_grad()``, or its function
    is only called from inside such a block."""
    import ast as _ast
    from ..util import helper_closure
    fns = helper_closure(repo, call)

    def guarded_nodes(fn):
        inside = set()
        for w in _ast.walk(fn.node):
            if isinstance(w, _ast.With) and any(
                    isinstance(it.context_expr, _ast.Call) and
                    _ast.unparse(it.context_expr.func).endswith('no_grad') for it in w.items):
                for x in _ast.walk(w):
                    inside.add(id(x))
        return inside
    guarded = {f.qualname: guarded_nodes(f) for f in fns}
    # functions all of whose call sites (within the closure) are under no_grad
    called_under = {}
    for f in fns:
        for n in _ast.walk(f.node):
            if isinstance(n, _ast.Call) and isinstance(n.func, _ast.Attribute):
                tgt = next((g for g in fns if g.name == n.func.attr and g is not f), None)
                if tgt is not None:
                    called_under.setdefault(tgt.qualname, []).append(
                        id(n) in guarded[f.qualname] or f.qualname in called_under and
                        all(called_under[f.qualname]))
    divs = 0
    for f in fns:
        for n in _ast.walk(f.node):
            if isinstance(n, _ast.BinOp) and isinstance(n.op, _ast.Div) and \
                    'task_loss' in _ast.unparse(n.left):
                divs += 1
                ok = id(n) in guarded[f.qualname] or (
                    f.qualname in called_under and all(called_under[f.qualname]))
                if not ok:
                    return False
    return divs > 0


def run(ctx):
    cost_is_pure(ctx, 'R19f')
    named_cost_plumbing(ctx, 'R19e')
    # premise: model.get_cost(name) is a function of the NAMED specification only (no value
    # memoised for one metric is returned for another) - the memo rule of C04/C05/C06
    from .c06 import memo_rule
    for wname in ('PIT', 'MPS', 'SuperNet'):
        memo_rule(ctx, 'R19d', f'{wname}._get_single_cost',
                  ctx.repo.cls(wname).methods['_get_single_cost'], 1, 2)
    repo = ctx.repo
    # R19a
    br = repo.cls('BaseRegularizer')
    call = br.methods['__call__']
    model = ('param', call.params[1])
    for p in returning(paths(repo, call, keep=KEEP19)):
        want = ('bin', '*', ('call', ('attr', model, 'get_cost'),
                             (('attr', SELF, 'cost_name'),), ()), ('attr', SELF, 'strength'))
        ok = poly.equal(p.retval, want)
        ctx.ob('R19a', 'BaseRegularizer.__call__', ok,
               'get_cost(cost_name) * strength' if ok else
               f'returns {short(p.retval)}, expected model.get_cost(self.cost_name) * '
               f'self.strength', where(call))
    init = br.methods['__init__']
    ok = any(e.kind == 'setattr' and e.data[1] == 'strength' and e.data[2] == ('param', 'strength')
             for p in returning(paths(repo, init)) for e in p.events) and \
        any(e.kind == 'setattr' and e.data[1] == 'cost_name' and
            e.data[2] == ('param', 'cost_name')
            for p in returning(paths(repo, init)) for e in p.events)
    ctx.ob('R19a', 'BaseRegularizer.__init__ stores its arguments', ok,
           'strength and cost_name stored unchanged', where(init), nontrivial=False)

    # R19b
    du = repo.cls('DUCCIO')
    call = du.methods['__call__']
    epoch, nep = ('param', call.params[2]), ('param', call.params[3])
    def _main(p):
        # the accumulation loop ranges over zip(targets, strengths); the lazy initialisation of
        # the strengths may have a loop of its own
        return p.retval is not None and mentions(
            p.retval, lambda x: x[0] == 'elem' and is_call(x[1], 'builtins.zip'))
    allp = returning(paths(repo, call, keep=KEEP19))
    rets, seen_r = [], set()
    for p in allp:
        if any(e.kind == 'loopend' for e in p.events) and _main(p) and p.retval not in seen_r:
            seen_r.add(p.retval)
            rets.append(p)
    if not rets:
        raise AnalysisError('DUCCIO.__call__: loop path not found')
    zero_rets, seen_z = [], set()
    for p in allp:
        if any(e.kind == 'loop0' for e in p.events) and not _main(p) and p.retval not in seen_z:
            seen_z.add(p.retval)
            zero_rets.append(p)
    for p in zero_rets:
        v = p.retval
        try:
            z = NumEval(repo, lambda t: None).ev(v)
            ok = z.lo == 0 and z.hi == 0
        except NumError:
            ok = False
        ctx.ob('R19b', 'DUCCIO.__call__ empty sum is 0', ok, 'sum starts from 0' if ok else
               f'with no constraint the penalty is {short(v)}', where(call), nontrivial=False)
    # two generic constraints (loop unrolled twice): one satisfied, one violated.  The penalty
    # must be > 0 and must grow with the violated cost: slack on one metric must not offset the
    # excess on another (each term is clamped on its own).
    two = [p for p in returning(paths(repo, call, None, 2, keep=KEEP19))
           if sum(1 for e in p.events if e.kind == 'loopend') >= 1 and
           len({x for x in subterms(p.retval) if x[0] == 'elem' and
                is_call(x[1], 'builtins.zip')}) == 2]
    if not two:
        raise AnalysisError('DUCCIO.__call__: two-iteration path not found')
    for k, p in enumerate(two[:2]):
        t = p.retval
        els = sorted({x for x in subterms(t) if x[0] == 'elem' and is_call(x[1], 'builtins.zip')},
                     key=lambda x: len(x[2]))
        e1, e2 = els

        def inp2(x, e1=e1, e2=e2):
            for tag, el, xr in (('1', e1, (-INF, 0.0)), ('2', e2, (1e-6, INF))):
                st = ('sub', el, ('const', 1))
                tg = ('sub', ('sub', el, ('const', 0)), ('const', 1))
                nm = ('sub', ('sub', el, ('const', 0)), ('const', 0))
                if x == st:
                    return AV(1e-6, INF, {'s' + tag: 1})
                if x[0] == 'bin' and x[1] == '-' and x[3] == tg and method_call(x[2]) and \
                        method_call(x[2])[1] == 'get_cost' and x[2][2] == (nm,):
                    return AV(xr[0], xr[1], {'c' + tag: 1})
                # cost and target read separately (any other arrangement than cost - target):
                # a representative target of 10, the satisfied metric in [0, 10], the violated
                # one above 10
                if x == tg:
                    return AV(10.0, 10.0, {})
                if method_call(x) and method_call(x)[1] == 'get_cost' and x[2] == (nm,):
                    return AV(0.0, 10.0, {'c1': 1}) if tag == '1' else \
                        AV(10.0 + 1e-6, INF, {'c2': 1})
            if x == epoch:
                return AV(0.0, INF, {'e': 1})
            if x == nep:
                return AV(1.0, INF, {'n': 1})
            return None
        try:
            v2 = NumEval(repo, inp2).ev(t)
        except NumError as ex:
            _num_fail(ctx, 'DUCCIO two-constraint scenario', ex, call)
            continue
        ok = v2.lo > 0 and v2.d('c2') == 1
        ctx.ob('R19b', f'DUCCIO.__call__ one satisfied + one violated constraint [{k}]', ok,
               'penalty > 0 and growing with the violated cost, whatever the slack of the other'
               if ok else
               f'with one cost below its target and another above, the penalty lies in '
               f'[{v2.lo}, {v2.hi}] (direction in the violated cost: {v2.d("c2")}): slack on one '
               f'metric offsets the excess on another, so a violated constraint can go '
               f'unpenalised', where(call))
    for k, p in enumerate(rets):
        t = p.retval
        zips = [x for x in subterms(t) if x[0] == 'elem' and is_call(x[1], 'builtins.zip')]
        if not zips:
            raise AnalysisError('DUCCIO.__call__: zip of targets and strengths not found')
        el = zips[0]
        z = el[1]
        ok_zip = len(z[2]) == 2 and method_call(z[2][0]) and \
            method_call(z[2][0])[0] == ('attr', SELF, 'targets') and \
            method_call(z[2][0])[1] == 'items' and z[2][1] == ('attr', SELF, 'final_strengths')
        ctx.ob('R19b', f'DUCCIO.__call__ pairs targets with strengths [{k}]', ok_zip,
               'zip(self.targets.items(), self.final_strengths)' if ok_zip else
               f'iterates {short(z)}', where(call), nontrivial=False)
        strength = ('sub', el, ('const', 1))
        target = ('sub', ('sub', el, ('const', 0)), ('const', 1))
        cname = ('sub', ('sub', el, ('const', 0)), ('const', 0))
        gcs = [x for x in subterms(t) if x[0] == 'call' and method_call(x) and
               method_call(x)[1] == 'get_cost']
        ok_name = bool(gcs) and all(g[2] == (cname,) for g in gcs)
        ctx.ob('R19b', f'DUCCIO.__call__ cost named by the target [{k}]', ok_name,
               'get_cost(name of the target)' if ok_name else
               f'cost read as {[short(g) for g in gcs]}', where(call), nontrivial=False)

        def ev(ranges):
            ne = NumEval(repo, duccio_inputs(None, strength, target, epoch, nep, ranges))
            return ne, ne.ev(t)
        try:
            ne, v = ev({'s': (0.0, INF)})
            ctx.ob('R19b', f'DUCCIO.__call__ non-negative [{k}]', v.lo >= 0,
                   f'value in [{v.lo}, {v.hi}]' if v.lo >= 0 else
                   f'the penalty can be negative (abstract range [{v.lo}, {v.hi}])', where(call))
            ctx.ob('R19b', f'DUCCIO.__call__ grows with each cost [{k}]', v.d('c') == 1,
                   'non-decreasing in every constrained cost' if v.d('c') == 1 else
                   'the penalty is not provably non-decreasing in the constrained cost',
                   where(call))
            ctx.ob('R19b', f'DUCCIO.__call__ grows with the epoch [{k}]', v.d('e') in (0, 1),
                   'non-decreasing in the epoch' if v.d('e') in (0, 1) else
                   'the penalty is not provably non-decreasing in the epoch', where(call))
            _, vz = ev({'s': (0.0, INF), 'x': (-INF, 0.0)})
            ctx.ob('R19b', f'DUCCIO.__call__ zero when satisfied [{k}]', vz.lo == 0 and vz.hi == 0,
                   'exactly 0 when cost <= target' if vz.lo == 0 and vz.hi == 0 else
                   f'with every cost at or below its target the penalty lies in [{vz.lo}, '
                   f'{vz.hi}], not {{0}}', where(call))
            _, vp = ev({'s': (1e-6, INF), 'x': (1e-6, INF)})
            ctx.ob('R19b', f'DUCCIO.__call__ positive when violated [{k}]', vp.lo > 0,
                   'positive for positive strength and excess' if vp.lo > 0 else
                   f'with a positive strength and a cost above target the penalty can be '
                   f'{vp.lo} (not > 0)', where(call))
        except NumError as e:
            _num_fail(ctx, 'DUCCIO.__call__', e, call)
        # effective strength: the factor that multiplies the relu
        effs = [x for x in subterms(t) if is_call(x, 'torch.min', 'torch.minimum')]
        ok_eff = len(effs) == 1 and len(effs[0][2]) == 2 and strength in effs[0][2]
        ctx.ob('R19b', f'DUCCIO.__call__ effective strength clamped by the final strength [{k}]',
               ok_eff, 'eff = min(ramp, strength)' if ok_eff else
               f'no min(ramp, final strength) found: the effective strength can exceed the final '
               f'strength', where(call))
        if ok_eff:
            ramp = effs[0][2][0] if effs[0][2][1] == strength else effs[0][2][1]
            ne = NumEval(repo, duccio_inputs(None, strength, target, epoch, nep,
                                             {'s': (0.0, INF)}))
            try:
                rv = ne.ev(ramp)
                ev_ = ne.ev(effs[0])
                ctx.ob('R19b', f'DUCCIO ramp non-decreasing in the epoch [{k}]', rv.d('e') == 1,
                       'ramp rises with the epoch' if rv.d('e') == 1 else
                       'the ramp is not provably non-decreasing in the epoch', where(call))
                ctx.ob('R19b', f'DUCCIO effective strength within [0, strength] [{k}]',
                       ev_.lo >= 0, f'eff >= {ev_.lo}; eff <= strength by the min' if ev_.lo >= 0
                       else 'effective strength can be negative', where(call))
            except NumError as e:
                _num_fail(ctx, 'DUCCIO ramp', e, call)
            at0 = poly.equal(ramp, ('bin', '/', strength, ('const', 100)),
                             {epoch: ('const', 0)})
            ctx.ob('R19b', f'DUCCIO ramp(epoch=0) == strength/100 [{k}]', at0,
                   '1% of the final strength at epoch 0' if at0 else
                   'ramp(0) is not strength/100', where(call))
            half = poly.equal(ramp, strength, {epoch: ('bin', '/', nep, ('const', 2))})
            ctx.ob('R19b', f'DUCCIO ramp(epoch=n_epochs/2) == strength [{k}]', half,
                   'final strength reached at half the schedule' if half else
                   'ramp(n_epochs/2) is not the final strength', where(call))
    # R19c
    found = False
    for p in returning(paths(repo, call, keep=KEEP19)):
        for e in p.events:
            if e.kind == 'setattr' and e.data[0] == SELF and e.data[1] == 'final_strengths':
                found = True
                v = e.data[2]
                nograd = any(c[0] == 'with' and is_call(c[1], 'torch.no_grad') for c in e.ctx) \
                    or _derivation_under_nograd(repo, call)
                elems = []
                for x in subterms(v):
                    if x[0] == 'comp':
                        elems.append(x[2][0])
                    elif x[0] in ('list', 'tuple') and x[1]:
                        elems += [y for y in x[1]]

                def judge(t, facts):
                    """(non-negative, finite-problem or None) of a derived strength term under
                    the comparison facts that dominate it"""
                    if t[0] == 'const':
                        return (isinstance(t[1], (int, float)) and t[1] >= 0), None
                    if is_call(t, 'torch.tensor', 'torch.as_tensor', 'torch.zeros_like',
                               'torch.zeros'):
                        if callee(t).endswith(('zeros_like', 'zeros')):
                            return True, None
                        return judge(t[2][0], facts) if t[2] else (False, None)
                    if t[0] == 'ifexp':
                        a = judge(t[2], facts + [(t[1], True)])
                        b = judge(t[3], facts + [(t[1], False)])
                        return a[0] and b[0], a[1] or b[1]
                    if is_call(t, 'torch.where') and len(t[2]) == 3:
                        a = judge(t[2][1], facts + [(t[2][0], True)])
                        b = judge(t[2][2], facts + [(t[2][0], False)])
                        return a[0] and b[0], a[1] or b[1]
                    if is_call(t, 'torch.maximum', 'torch.clamp', 'torch.relu', 'torch.clamp_min'):
                        zero = any(a in (('const', 0.0), ('const', 0)) or
                                   (is_call(a, 'torch.tensor') and a[2] and
                                    a[2][0] in (('const', 0.0), ('const', 0)))
                                   for a in list(t[2]) + [y for _, y in t[3]]) or \
                            is_call(t, 'torch.relu')
                        inner = [a for a in t[2] if not (a[0] == 'const' or is_call(a, 'torch.tensor'))]
                        prob = None
                        for a in inner:
                            prob = prob or judge(a, facts)[1]
                        return zero, prob
                    if t[0] == 'call' and method_call(t) is not None and \
                            method_call(t)[0] == SELF and \
                            repo.find_method(du, method_call(t)[1]) is not None:
                        # a helper of the class: every returning path, with its own branch
                        # decisions, parameters replaced by the actual arguments
                        hf = repo.find_method(du, method_call(t)[1])
                        sub = {('param', pn): a for pn, a in zip(hf.params[1:], t[2])}
                        sub.update({('param', kn): a for kn, a in t[3]})
                        ok_all, prob_any = True, None
                        for q in returning(paths(repo, hf)):
                            fq = [(poly.substitute(a, sub), v) for a, v in q.assumptions]
                            a_, b_ = judge(poly.substitute(q.retval, sub), facts + fq)
                            ok_all = ok_all and a_
                            prob_any = prob_any or b_
                        return ok_all, prob_any
                    if t[0] == 'bin' and t[1] == '/':
                        den = t[3]
                        pos = any((a == ('cmp', '>', den, ('const', 0)) and v_) or
                                  (a == ('cmp', '<=', den, ('const', 0)) and not v_) or
                                  (a == ('cmp', '<', ('const', 0), den) and v_)
                                  for a, v_ in facts)
                        if not pos:
                            return False, den
                        return True, None       # task_loss >= 0 over a positive excess
                    return False, None
                prior = [(e2.data[0], e2.data[1]) for e2 in p.events[:p.events.index(e)]
                         if e2.kind == 'assume'] + list(p.assumptions)
                nonneg, prob = True, None
                for el in elems:
                    a, b = judge(el, [])
                    if not a or b is not None:
                        # an element appended under a branch: the branch decisions of the path
                        a, b = judge(el, prior)
                    nonneg = nonneg and a
                    prob = prob or b
                ctx.ob('R19c', 'DUCCIO derived strengths', nograd and nonneg and prob is None,
                       'non-negative, finite (every division by a cost excess is guarded by '
                       'excess > 0) and computed under no_grad' if nograd and nonneg and
                       prob is None else
                       (f'the derived strength divides by {short(prob, 80)}, which is 0 for a cost '
                        f'exactly at its target at the first call: the strength is inf and every '
                        f'later call returns inf * max(0, 0) = nan' if prob is not None else
                        f'derived strengths = {short(v, 160)} (no_grad: {nograd}, non-negative: '
                        f'{nonneg})'), where(call, e.node))
    if not found:
        raise AnalysisError('DUCCIO.__call__: lazy initialisation of final_strengths not found')
    n_ob = len(ctx.obligations)
    ctx.coverage_extra.update({
        'checker_cmd': '/venv/bin/python sa/check.py C19',
        'trusted_base': ['transfer functions of sa/numdom.py (interval arithmetic, product rule '
                         'for monotonicity, min/max)', 'sa/poly.py normal form',
                         'path enumeration of sa/sym.py (loop bodies analysed generically)'],
    })
    ctx.assume('strength >= 0, epoch >= 0, n_epochs >= 1; cost values are real')


MANIFEST = {
    'text': 'Every clause of C19 except finiteness at initialisation is discharged symbolically '
            'for all models, strengths, targets and schedule positions: product form of '
            'BaseRegularizer; for DUCCIO sign, bounds of the effective strength, monotone ramp '
            'with exact end points (polynomial identities), zero when satisfied, positive when '
            'violated, monotone in each cost; derived strengths clamped under no_grad. Derived strengths are finite: every division by a cost excess is dominated by excess > 0.',
    'note': 'Trusted base: abstract transfer functions (sa/numdom.py), polynomial normal form '
            '(sa/poly.py), generic-iteration treatment of the loop body. Assumes strength >= 0, '
            'epoch >= 0, n_epochs >= 1.',
    'technique': 'abstract interpretation (interval x monotonicity) + polynomial identities',
}
