"""C12 — cost is a differentiable, monotone function of the architecture only (structural).

 R12a evaluable: for the default cost of ODiMO_MPS (DIANA) every key the registered functions
      read is written by the MPS layers, and the rank of every MPSModule.get_cost result is
      accepted by the default cost reduction of each MPS-based wrapper.
 R12b architecture only (taint): no registered cost function reads parameter / buffer values
      (``_parameters`` entries are only tested for None) nor writes into the spec it receives.
 R12c gradients survive: every autograd.Function on a cost path passes the incoming gradient
      to its size argument (first backward value depends on grad_output, the others are None);
      no detach / item / int / no_grad lies between a PIT mask parameter and the cost; the MPS
      detach sites are exactly the reasoned consumer->producer cuts.
 R12d PIT monotone: theta is non-decreasing in |p| (blend with a 0/1 keep-alive, 0/1 C
      matrix), effective sizes are sums of theta (binarised by a non-decreasing step), the
      normalisation constants are positive, and |p| = 1 gives theta_alpha = 1 (full width).
      Together with C16 (cost functions non-decreasing in sizes) the PIT cost is
      non-decreasing in every |p|.
"""
from __future__ import annotations

import ast
from typing import Dict, List, Optional, Set, Tuple

from .. import poly
from ..costlib import cost_specs, keys_read, layer_map, registrations_for
from ..model import AnalysisError, ClassInfo, FunctionInfo
from ..numdom import AV, INF, NumError, NumEval
from ..pitlib import analyse_masker, masker_classes, pit_layer_classes, registered_buffers
from ..sym import NONE, Term, mentions, show, subterms
from ..util import (SELF, arg, attr_classes, callee, is_call, method_call, paths, returning, short, where)
from . import c05, c10

EXPLANATION = ('Key and rank agreement between MPS layers and the default cost specification / '
               'reduction of each wrapper, taint analysis of the 48 registered cost functions, '
               'shape check of every straight-through backward, detection of gradient-cutting '
               'operations on the PIT cost path with an exact table of the MPS detach sites, and '
               'a compositional monotonicity argument for the PIT mask functions. Finiteness and '
               'non-zero-ness of gradient values are not decided.')
RULE_TEXT = 'obligation = one (layer, spec/reduction) pair / cost function / STE class / mask ' \
            'function clause'

# MPS detach sites: each cuts only the consumer -> producer path (the producer's own term keeps
# the gradient); confirmed by reading
MPS_DETACH_OK = {
    ('MPSConv1d', 'get_modified_vars'), ('MPSConv2d', 'get_modified_vars'),
    ('MPSLinear', 'get_modified_vars'), ('MPSAdd', 'get_cost'),
}


def rank_of(ctx, t: Term) -> Optional[int]:
    if is_call(t, 'torch.zeros', 'torch.ones', 'torch.empty'):
        size = arg(t, 0, 'size')
        if size is not None and size[0] in ('tuple', 'list'):
            return len(size[1])
        return None
    if is_call(t, 'torch.tensor') and t[2] and t[2][0][0] == 'const':
        return 0
    # torch.vmap(f)(a, b): one batch axis over a scalar-valued function
    if t[0] == 'call' and t[1][0] == 'call' and is_call(t[1], 'torch.vmap'):
        return 1
    if t[0] == 'call' and t[1][0] == 'localfn':
        return None
    return None


def required_rank(ctx, fn_term: Term) -> Optional[Set[int]]:
    """Ranks a cost reduction accepts for its argument: None = any."""
    repo = ctx.repo
    if fn_term == ('global', 'torch.sum'):
        return None
    if fn_term[0] == 'global' and fn_term[1] in repo.functions:
        f = repo.functions[fn_term[1]]
        x = ('param', f.params[0])
        need: Optional[Set[int]] = None
        for p in returning(paths(repo, f)):
            for e in p.calls():
                t = e.data[0]
                if is_call(t, 'torch.dot') and x in t[2]:
                    need = {1}
                if is_call(t, 'torch.matmul', 'torch.mm') and x in t[2]:
                    need = {1, 2}
        return need
    raise AnalysisError(f'cost reduction {short(fn_term)} not resolved')


def r12a(ctx):
    repo = ctx.repo
    specs = cost_specs(repo)
    mmap = layer_map(repo, 'mps_layer_map')
    tf = ctx.torch
    # (i) keys for ODiMO's default cost
    od = repo.cls('ODiMO_MPS')
    init = od.methods['__init__']
    dv = init.defaults().get('cost')
    import ast as _ast
    spec_name = _ast.unparse(dv) if dv is not None else None
    if spec_name not in specs:
        raise AnalysisError(f'ODiMO_MPS default cost {spec_name} is not a known CostSpec')
    n = 0
    for ltype, ci in sorted(mmap.items()):
        tname = ltype.split('.')[-1]
        gmv = repo.find_method(ci, 'get_modified_vars')
        gc = repo.find_method(ci, 'get_cost')
        written = set(tf.instance_attrs(tname)) | c05.own_attrs(ctx, ci) | \
            set(c05.written_by(ctx, gmv, c05.is_vars_copy)) | \
            set(c05.written_by(ctx, gc, c05.is_modified_vars)) | c05.shapes_dict_keys(ctx)
        for reg in registrations_for({spec_name: specs[spec_name]}, ltype):
            n += 1
            problems: List[str] = []
            reads = keys_read(repo, reg.fn, None, problems)
            missing = sorted(set(reads) - written)
            ctx.ob('R12a', f'{ci.name} x {reg.spec}[{reg.pattern}] keys' +
                   (f' unwritten={",".join(missing)}' if missing else ''), not missing,
                   f'{len(reads)} keys read, all written' if not missing else
                   f'{reg.fn.name} reads {missing}, which no MPS {tname} layer writes: '
                   f'ODiMO_MPS(model).cost raises KeyError with its default cost',
                   f'{reg.module.relpath}:{reg.fn.node.lineno}')
    ctx.floor('R12a', 'ODiMO default-cost registrations', n, 2)
    # (ii) ranks
    layer_ranks: Dict[str, Set[int]] = {}
    for ci in c10.mps_layer_classes(ctx):
        gc = ci.methods.get('get_cost')
        if gc is None:
            continue
        rs = set()
        for p in returning(paths(repo, gc)):
            r = rank_of(ctx, p.retval)
            if r is None:
                raise AnalysisError(f'{ci.name}.get_cost: rank of {short(p.retval)} unknown')
            rs.add(r)
        layer_ranks[ci.name] = rs
    ctx.floor('R12a', 'MPS layers with get_cost', len(layer_ranks), 5)
    for wname in ('MPS', 'ODiMO_MPS'):
        w = repo.cls(wname)
        init = w.methods['__init__']
        dv = init.defaults().get('cost_reduction_fn')
        if dv is None:
            raise AnalysisError(f'{wname}.__init__: cost_reduction_fn default not found')
        q = repo.resolve_expr_name(init.module, dv)
        fn_term = ('global', q) if q else ('global', _ast.unparse(dv))
        need = required_rank(ctx, fn_term)
        for lname, rs in sorted(layer_ranks.items()):
            bad = sorted(r for r in rs if need is not None and r not in need)
            ctx.ob('R12a', f'{wname} default reduction x {lname}.get_cost rank' +
                   (f' {bad}' if bad else ''), not bad,
                   f'rank {sorted(rs)} accepted' if not bad else
                   f'{lname}.get_cost returns a rank-{bad[0]} tensor but the default cost '
                   f'reduction of {wname} ({fn_term[1].split(".")[-1]}) needs rank '
                   f'{sorted(need)}: {wname}(model).cost raises', where(init))


def r12b(ctx, rule='R12b'):
    repo = ctx.repo
    specs = cost_specs(repo)
    n = 0
    seen = set()
    for si in specs.values():
        for reg in si.regs:
            fns = [reg.fn] + ([reg.constraint] if reg.constraint else [])
            for fn in fns:
                if fn.qualname in seen:
                    continue
                seen.add(fn.qualname)
                n += 1
                sp = ('param', fn.params[0])
                bad_reads = []
                writes = []
                for p in paths(repo, fn):
                    terms = [x for e in p.events for x in e.data if isinstance(x, tuple)]
                    terms += [a for a, _ in p.assumptions]
                    if p.retval is not None:
                        terms.append(p.retval)
                    for t in terms:
                        for x in subterms(t):
                            if x[0] == 'sub' and x[1] == sp and x[2][0] == 'const' and \
                                    x[2][1] in ('weight', 'bias', '_buffers'):
                                bad_reads.append(x[2][1])
                    # _parameters[...] only inside an is-None test
                    for e in p.events:
                        for t in e.data:
                            if isinstance(t, tuple) and e.kind != 'assume':
                                for x in subterms(t):
                                    if x[0] == 'sub' and x[1] == ('sub', sp, ('const',
                                                                             '_parameters')):
                                        if not mentions(t, lambda y: y[0] in ('isnone',) or
                                                        (y[0] == 'cmp' and y[1] in ('is',
                                                                                    'is not'))):
                                            bad_reads.append('_parameters value')
                    if p.retval is not None:
                        for x in subterms(p.retval):
                            if x[0] == 'sub' and x[1] == ('sub', sp, ('const', '_parameters')):
                                # must sit inside a comparison with None
                                inside = [y for y in subterms(p.retval)
                                          if y[0] in ('cmp',) and y[1] in ('is', 'is not') and
                                          x in (y[2], y[3])]
                                if not inside:
                                    bad_reads.append('_parameters value')
                    for e in p.events:
                        if e.kind == 'setitem' and e.data[0] == sp:
                            writes.append(show(e.data[1]))
                        # in-place arithmetic on a value read from the spec: the entries are
                        # handed out by reference (a features calculator returns its buffer),
                        # so ``cin = spec['in_features']; cin += 1`` modifies the layer
                        tgt = None
                        if e.kind == 'augname':
                            tgt = e.data[1]
                        elif e.kind == 'call':
                            mc = method_call(e.data[0])
                            if mc and mc[1].endswith('_') and not mc[1].startswith('_'):
                                tgt = mc[0]
                        while tgt is not None and method_call(tgt) is not None and \
                                method_call(tgt)[1] in ('detach', 'view', 'squeeze', 'flatten'):
                            tgt = method_call(tgt)[0]
                        t0 = tgt
                        while t0 is not None and t0[0] == 'sub':
                            t0 = t0[1]
                        if tgt is not None and tgt[0] == 'sub' and t0 == sp:
                            writes.append(f'{show(tgt)} (in place: '
                                          f'{ast.unparse(e.node)[:40] if e.node else ""})')
                ctx.ob(rule, f'{fn.module.name.split(".")[-1]}.{fn.name} architecture only',
                       not bad_reads and not writes,
                       'reads hyper-parameters, shapes and precisions only; does not write the '
                       'spec' if not bad_reads and not writes else
                       (f'reads {sorted(set(bad_reads))}: the cost would depend on weight / buffer '
                        f'values' if bad_reads else '') +
                       (f' writes {writes} into the spec it receives (for fixed layers this is '
                        f'vars(layer); the values of searchable layers are handed out by '
                        f'reference, e.g. the buffer of a features calculator, so an in-place '
                        f'update changes the layer and every later cost)' if writes else ''),
                       where(fn))
    ctx.floor(rule, 'cost / constraint functions', n, 40)


def ste_classes(ctx) -> List[ClassInfo]:
    out = []
    for c in ctx.repo.classes.values():
        if any(str(b).endswith('autograd.Function') for b in ctx.repo.mro(c)):
            out.append(c)
    return out


def r12c(ctx):
    repo = ctx.repo
    cost_path = [c for c in ste_classes(ctx)
                 if c.module.name.startswith('plinio.cost') or c.name in ('PITBinarizer',
                                                                          'STEArgmax')]
    ctx.floor('R12c', 'straight-through functions on cost paths', len(cost_path), 9)
    for c in sorted(cost_path, key=lambda c: c.qualname):
        bwd = c.methods.get('backward')
        fwd = c.methods.get('forward')
        if bwd is None or fwd is None:
            raise AnalysisError(f'{c.qualname}: forward/backward missing')
        gparam = bwd.params[1] if len(bwd.params) > 1 else (
            bwd.node.args.vararg.arg if bwd.node.args.vararg else None)
        for p in returning(paths(repo, bwd)):
            r = p.retval
            elts = r[1] if r[0] == 'tuple' else (r,)
            first = elts[0]
            dep = mentions(first, lambda x: x == ('param', gparam)) or \
                any(e.kind == 'call' and mentions(e.data[0], lambda x: x == ('param', gparam))
                    for e in p.events) and first[0] != 'const'
            rest_none = all(x == NONE for x in elts[1:])
            n_in = len(fwd.params) - 1 if not fwd.node.args.vararg else None
            count_ok = n_in is None or len(elts) >= n_in
            # ... with its sign: a straight-through estimator of a non-decreasing step passes
            # a non-negative multiple of the incoming gradient (a negated gradient makes the
            # optimiser grow what the cost should shrink)
            flipped = False
            try:
                from ..numdom import AV, INF, NumError, NumEval
                gv = NumEval(repo, lambda t, g=('param', gparam):
                             AV(-INF, INF, {'g': 1})
                             if t == g or (t[0] == 'sub' and t[1] == g) else None).ev(first)
                flipped = gv.d('g') == -1 or (gv.lo == 0 and gv.hi == 0)
            except Exception:       # noqa: BLE001  (outside the numeric domain: not judged)
                flipped = False
            ok = dep and rest_none and count_ok and first != NONE and not flipped
            ctx.ob('R12c', f'{c.module.name.split(".")[-1]}.{c.name}.backward', ok,
                   'gradient of the size argument is the incoming gradient; others None' if ok
                   else (f'backward returns {short(r)}: the gradient of the size argument is '
                         f'not a positive multiple of the incoming gradient (negated or zeroed)' if flipped else '') or
                   f'backward returns {short(r)}: the first value must depend on '
                   f'grad_output (the straight-through gradient of the size argument), the others '
                   f'must be None, one per forward input', where(bwd))
    # gradient-cutting operations on the PIT cost path
    cut_methods = ('detach', 'item', 'tolist', 'numpy')
    n = 0
    # functions on the PIT cost path: closure, from get_modified_vars of every PIT layer and
    # from the features calculators, over property reads and method calls on self and on the
    # maskers held by self
    pit_fns: List[Tuple[str, FunctionInfo]] = []
    seen_fn = set()

    def visit(ci: ClassInfo, fn: FunctionInfo, label: str):
        if fn.qualname in seen_fn or len(seen_fn) > 400:
            return
        seen_fn.add(fn.qualname)
        pit_fns.append((label, fn))
        for p in returning(paths(repo, fn)):
            terms = [p.retval] + [x for e in p.events for x in e.data if isinstance(x, tuple)]
            for t in terms:
                for x in subterms(t):
                    if x[0] != 'attr':
                        continue
                    if x[1] == SELF:
                        g = repo.find_getter(ci, x[2])
                        m = repo.find_method(ci, x[2])
                        if g is not None:
                            visit(ci, g, f'{ci.name}.{x[2]}')
                        elif m is not None and m.kind == 'method' and \
                                m.module.name.startswith('plinio.'):
                            visit(ci, m, f'{ci.name}.{x[2]}')
                    elif x[1][0] == 'attr' and x[1][1] == SELF:
                        for hc in attr_classes(repo, ci, x[1][2]):
                            for sc in repo.subclasses(hc):
                                g = repo.find_getter(sc, x[2])
                                if g is not None:
                                    visit(sc, g, f'{sc.name}.{x[2]}')
    # only layer kinds for which some built-in metric registers a cost function are on a
    # cost path (no built-in spec prices BatchNorm: its discrete feature count is never
    # differentiated)
    priced = {reg.layer_type.split('.')[-1] for si in cost_specs(repo).values() for reg in si.regs}
    from .c01 import layer_kind
    for ci in pit_layer_classes(repo):
        if 'get_modified_vars' in ci.methods and layer_kind(ctx, ci) in priced:
            visit(ci, ci.methods['get_modified_vars'], f'{ci.name}.get_modified_vars')
    for c in repo.subclasses(repo.cls('FeaturesCalculator'), strict=True):
        if 'features' in c.getters:
            visit(c, c.getters['features'], f'{c.name}.features')
    for label, fn in pit_fns:
        n += 1
        cuts = []
        for p in returning(paths(repo, fn)):
            terms = [p.retval] + [x for e in p.events for x in e.data if isinstance(x, tuple)]
            for t in terms:
                for x in subterms(t):
                    mc = method_call(x)
                    if mc and mc[1] in cut_methods:
                        cuts.append(f'.{mc[1]}()')
                    if is_call(x, 'builtins.int', 'builtins.float') and x[2] and \
                            x[2][0][0] != 'const':
                        cuts.append(callee(x).split('.')[-1] + '()')
            for e in p.events:
                if any(c[0] == 'with' and is_call(c[1], 'torch.no_grad') for c in e.ctx) and \
                        e.kind in ('return', 'call'):
                    cuts.append('torch.no_grad()')
        cuts = sorted(set(cuts))
        ctx.ob('R12c', f'{label} keeps the gradient path', not cuts,
               'no detach / item / int / no_grad between the mask parameters and the cost' if
               not cuts else
               f'{label} applies {cuts}: the cost no longer back-propagates to the mask '
               f'parameters through it', where(fn))
    ctx.floor('R12c', 'functions on the PIT cost path', n, 15)
    # MPS: exact table of detach sites on cost paths
    found = set()
    for ci in c10.mps_layer_classes(ctx) + [repo.cls('MPSBaseQtz'), repo.cls('MPSPerChannelQtz'),
                                            repo.cls('MPSPerLayerQtz')]:
        for name in ('get_cost', 'get_modified_vars'):
            f = ci.methods.get(name)
            if f is None:
                continue
            import ast as _ast
            for x in _ast.walk(f.node):
                if isinstance(x, _ast.Call) and isinstance(x.func, _ast.Attribute) and \
                        x.func.attr in ('detach', 'item'):
                    found.add((ci.name, name))
        for name in ('out_features_eff', 'effective_precision', 'effective_scale'):
            g = ci.getters.get(name)
            if g is None:
                continue
            for p in returning(paths(repo, g)):
                if mentions(p.retval, lambda x: method_call(x) is not None and
                            method_call(x)[1] in cut_methods):
                    found.add((ci.name, name))
    extra = sorted(found - MPS_DETACH_OK)
    ctx.ob('R12c', 'MPS detach sites on cost paths', not extra,
           f'{len(found)} site(s), all consumer->producer cuts listed in the table' if not extra
           else f'unlisted gradient cut(s) on the MPS cost path: {extra}',
           repo.cls('MPSModule').where)


def r12d(ctx):
    repo = ctx.repo
    n = 0
    for m in masker_classes(repo):
        mi = analyse_masker(repo, m)
        if mi.buffer_only is not None:
            continue
        if mi.error:
            raise AnalysisError(f'R12d: theta of {m.name} not modelled: {mi.error}')
        if not mi.blend_ok:
            n += 1
            ctx.ob('R12d', f'{m.name}.theta non-decreasing in |p|', False,
                   f'theta is not [C @] (|p|*(1-ka)+ka): {mi.blend_msg} — monotonicity in |p| is '
                   f'not established', where(mi.theta_fn))
            continue
        n += 1
        # blend = A*(1-K)+K with K in {0,1}: coefficient of A is (1-K) >= 0  => non-decreasing
        ka_ok = mi.ka is not None
        c_ok = True
        if mi.c_name is not None:
            bufs = registered_buffers(repo, m)
            gen = bufs[mi.c_name][0]
            c_ok = zero_one_constant(ctx, m, gen)
        k_ok = zero_one_constant(ctx, m, registered_buffers(repo, m)[mi.ka_name][0])
        ok = ka_ok and c_ok and k_ok
        ctx.ob('R12d', f'{m.name}.theta non-decreasing in |p|', ok,
               'blend with a 0/1 keep-alive and a 0/1 C matrix: every coefficient of |p| is >= 0'
               if ok else
               f'the constants of {m.name} are not provably 0/1 (keep-alive: {k_ok}, C: {c_ok}): '
               f'theta may decrease when |p| grows', where(mi.theta_fn))
        # |p| = 1 gives 1 before the C matrix
        g = mi.theta_fn
        theta = mi.theta_term
        blend = theta[2][1] if is_call(theta, 'torch.matmul') else theta
        A = [x for x in subterms(blend) if is_call(x, 'torch.abs')]
        K = ('attr', SELF, mi.ka_name)
        from ..pitlib import _ops
        one = poly.equal(_ops(blend), ('const', 1), {A[0]: ('const', 1)}) if A else False
        ctx.ob('R12d', f'{m.name}.theta at |p| = 1', one,
               'fully open mask: |p|(1-ka)+ka = 1' if one else
               'with every mask parameter at 1 the blended value is not 1', where(g),
               nontrivial=False)
    ctx.floor('R12d', 'trainable maskers', n, 3)
    # binariser is a non-decreasing step; effective sizes are sums
    b = repo.cls('PITBinarizer').methods['forward']
    for p in returning(paths(repo, b)):
        r = p.retval
        mc = method_call(r)
        ok = mc is not None and mc[1] in ('float', 'to', 'type') and (
            (mc[0][0] == 'cmp' and mc[0][1] in ('>', '>=')) or
            is_call(mc[0], 'torch.gt', 'torch.ge', 'torch.greater', 'torch.greater_equal') or
            (method_call(mc[0]) is not None and method_call(mc[0])[1] in ('gt', 'ge')))
        ctx.ob('R12d', 'PITBinarizer.forward non-decreasing', ok,
               '(x > threshold) is a non-decreasing step of x' if ok else
               f'binariser computes {short(r)}', where(b))
    for ci in pit_layer_classes(repo):
        for name in ('out_features_eff', 'k_eff'):
            g = ci.getters.get(name)
            if g is None:
                continue
            ok = all(is_call(p.retval, 'torch.sum') and len(p.retval[2]) == 1
                     for p in returning(paths(repo, g)))
            ctx.ob('R12d', f'{ci.name}.{name} is a sum of mask values', ok,
                   'sum: non-decreasing in every mask element' if ok else
                   f'{name} is not a plain sum of the mask', where(g), nontrivial=False)
        tm = ci.methods.get('_time_mask')
        if tm is not None:
            gen = ci.methods.get('_generate_norm_constants')
            okn = gen is not None and norm_constants_positive(ctx, ci, gen)
            ctx.ob('R12d', f'{ci.name} normalisation constants positive', okn,
                   'beta/gamma normalisation constants are reciprocals of positive counts' if okn
                   else 'the normalisation constants are not provably positive: the continuous '
                   'time mask could decrease when a mask parameter grows', where(gen or tm))
    ctx.assume('every built-in cost function is non-decreasing in channels and kernel size (C16 '
               'R16a), so the composition cost(theta(|p|)) is non-decreasing in |p|')
    ctx.assume('gamma normalisation: k_i counts, over the gamma_len combs, those that exclude tap '
               'i; the 2**0 comb never excludes a tap, hence gamma_len - k_i >= 1')


def zero_one_constant(ctx, ci: ClassInfo, init_term: Term) -> bool:
    """The buffer initialiser only combines the literals 0.0 / 1.0 with layout operations."""
    repo = ctx.repo
    mc = method_call(init_term)
    terms = [init_term]
    if mc and mc[0] == SELF:
        m = repo.find_method(ci, mc[1])
        if m is None:
            return False
        terms = [p.retval for p in returning(paths(repo, m))]
    allowed = {'torch.tensor', 'torch.flip', 'torch.transpose', 'torch.triu', 'torch.tril',
               'torch.ones', 'torch.zeros', 'torch.flipud', 'torch.fliplr', 'builtins.range',
               'torch.stack'}
    for t in terms:
        for x in subterms(t):
            if x[0] == 'call':
                c = callee(x)
                if c not in allowed and not (c or '').startswith('.'):
                    return False
            if x[0] == 'const' and isinstance(x[1], float) and x[1] not in (0.0, 1.0):
                return False
            if x[0] == 'ifexp':
                if not (x[2] in (('const', 1.0), ('const', 0.0)) and
                        x[3] in (('const', 1.0), ('const', 0.0))):
                    return False
    return True


def _rowsum_positive(ctx, ci: ClassInfo, den: Term) -> bool:
    """den = row sums of a masker's 0/1 matrix C whose keep-alive column is all ones (ones at
    both extreme rows of one extreme column): every row sum is >= 1."""
    from ..anchor import E, S
    repo = ctx.repo
    c, mc = callee(den), method_call(den)
    if c == 'torch.sum' and den[2]:
        M = den[2][0]
    elif mc and mc[1] == 'sum':
        M = mc[0]
    else:
        return False
    if not (M[0] == 'attr' and M[1][0] == 'attr' and M[1][1] == SELF):
        return False
    for k in attr_classes(repo, ci, M[1][2]):
        if repo.find_getter(k, 'theta') is None:
            continue
        mi = analyse_masker(repo, k)
        if mi.error or mi.c is None or mi.c_name != M[2]:
            continue
        return any(mi.c.at[(S, col)] is True and mi.c.at[(E, col)] is True for col in (S, E))
    return False


def norm_constants_positive(ctx, ci: ClassInfo, gen: FunctionInfo) -> bool:
    """Each constant is 1.0 / d with d = n - (something in [0, n-1]):
    beta: n - i with i in range(n);  gamma: gamma_len - k_i (see assumption)."""
    repo = ctx.repo
    ok = False
    for p in returning(paths(repo, gen)):
        if any(e.kind == 'loop0' for e in p.events):
            continue
        r = p.retval
        if r[0] != 'tuple' or len(r[1]) != 2:
            return False
        good = 0
        for comp in r[1]:
            divs = [x for x in subterms(comp) if x[0] == 'bin' and x[1] == '/']
            if not divs:
                return False
            for d in divs:
                num, den = d[2], d[3]
                if num not in (('const', 1.0), ('const', 1)):
                    return False
                if _rowsum_positive(ctx, ci, den):
                    good += 1
                    continue
                if den[0] != 'bin' or den[1] != '-':
                    return False
                # n - i, i drawn from range(n)
                n_t, i_t = den[2], den[3]
                if i_t[0] == 'elem' and is_call(i_t[1], 'builtins.range') and \
                        i_t[1][2] == (n_t,):
                    good += 1
                elif mentions(n_t, lambda x: x[0] == 'attr' and x[2] == '_gamma_len'):
                    good += 1
                else:
                    return False
        ok = good >= 2
    return ok


def r12e(ctx, rule='R12e'):
    """Fully open = original size: where a masker's theta is multiplied by a normalisation
    buffer, the buffer must be the reciprocal of the FULL parameter count at the position
    every mask parameter contributes to (the masker's always-alive anchor; C has ones in both
    extreme columns of that row), and must not claim the full count at the opposite extreme
    unless C is full there too.  Otherwise theta*norm != 1 for an open mask and k_eff != K."""
    from ..anchor import AnchorError, E, S
    from ..pitlib import norm_full_at
    repo = ctx.repo
    n = 0
    done_const = set()
    for ci in pit_layer_classes(repo):
        bufs = registered_buffers(repo, ci)
        init = ci.methods.get('__init__')
        if init is None:
            continue
        # buffer -> (generator, component) through tuple unpacking of self.<gen>()
        gens = {}
        for name, (val, _i) in bufs.items():
            t = val
            k = 0
            if t[0] == 'sub' and t[2][0] == 'const' and isinstance(t[2][1], int):
                k, t = t[2][1], t[1]
            mc = method_call(t)
            if mc and mc[0] == SELF and not mc[2]:
                g = repo.find_method(ci, mc[1])
                if g is not None:
                    gens[name] = (g, k)
        if not gens:
            continue
        for f in ci.methods.values():
            for p in returning(paths(repo, f)):
                for e in p.events:
                    if e.kind != 'call':
                        continue
                    t = e.data[0]
                    if not (is_call(t, 'torch.mul', 'torch.multiply') and len(t[2]) == 2):
                        continue
                    a, b = t[2]
                    for x, y in ((a, b), (b, a)):
                        if not (y[0] == 'attr' and y[1] == SELF and y[2] in gens):
                            continue
                        src = [z for z in subterms(x) if z[0] == 'attr' and z[2] == 'theta' and
                               z[1][0] == 'attr' and z[1][1] == SELF]
                        if len(src) != 1:
                            continue
                        mattr = src[0][1][2]
                        mcls = [c for c in attr_classes(repo, ci, mattr) if repo.find_getter(c, 'theta')]
                        if not mcls:
                            continue
                        key = (ci.name, y[2], mattr)
                        # every class the attribute can hold (frozen variants are subclasses)
                        for sub_m in repo.subclasses(mcls[0], strict=True):
                            mis = analyse_masker(repo, sub_m)
                            if mis.buffer_only is not None and (ci.name, y[2], sub_m.name) \
                                    not in done_const:
                                done_const.add((ci.name, y[2], sub_m.name))
                                n += 1
                                ctx.ob(rule, f'{ci.name}.{y[2]} x {sub_m.name}.theta', False,
                                       f'{sub_m.name}.theta is the constant buffer '
                                       f'{mis.buffer_only} (one per tap) but {ci.name} multiplies '
                                       f'the theta of its {mattr} by {y[2]}, the reciprocal '
                                       f'counts written for the un-normalised theta of '
                                       f'{mcls[0].name}: with every mask open theta*norm < 1 on '
                                       f'most taps and the continuous kernel size is below the '
                                       f'original one', where(mis.theta_fn))
                        mi = analyse_masker(repo, mcls[0])
                        if mi.error or mi.alive is None:
                            raise AnalysisError(f'{rule}: masker {mcls[0].name} not modelled')
                        g, k = gens[y[2]]
                        try:
                            full, A = norm_full_at(repo, g, k)
                        except AnchorError as ex:
                            n += 1
                            ctx.ob(rule, f'{ci.name}.{y[2]} anchored like {mattr}.theta', False,
                                   f'normalisation constant not of the form 1/(count - excluded): '
                                   f'{ex}', where(g))
                            continue
                        n += 1
                        bad = []
                        for pos in (S, E):
                            row_full = mi.c is None or (mi.c.at[(pos, S)] is True and
                                                        mi.c.at[(pos, E)] is True)
                            if mi.alive.get(pos) and row_full and full[pos] is not True:
                                bad.append(f'at {pos} every parameter of {mattr} contributes '
                                           f'(always-alive position) but the constant there is '
                                           f'not provably 1/{short(A, 40)}')
                            if full[pos] is True and mi.c is not None and \
                                    (mi.c.at[(pos, S)] is False or mi.c.at[(pos, E)] is False):
                                bad.append(f'the constant at {pos} is 1/{short(A, 40)} (full '
                                           f'count) although not every parameter of {mattr} '
                                           f'reaches that position')
                        ctx.ob(rule, f'{ci.name}.{y[2]} anchored like {mattr}.theta', not bad,
                               f'full count 1/{short(A, 40)} exactly at the always-alive position '
                               f'of {mcls[0].name}' if not bad else
                               '; '.join(bad) + ': with every mask open theta*norm != 1 and the '
                               'effective kernel size differs from the original one', where(g),
                               full=str(full), alive=str(mi.alive))
    ctx.floor(rule, 'normalised masker products', n, 2)


STATIC_KEYS = {'in_channels', 'out_channels', 'kernel_size', 'groups', 'output_shape',
               'input_shape', 'in_features', 'out_features', 'stride', 'dilation', 'padding',
               'bias', '_parameters'}
TENSOR_ONLY = ('floor', 'ceil', 'round', 'trunc', 'abs', 'sqrt', 'log', 'log2', 'exp', 'clamp',
               'clip', 'maximum', 'minimum', 'max', 'min', 'sum', 'prod', 'mean', 'floor_divide',
               'remainder', 'fmod', 'sign', 'relu', 'where', 'mul', 'add', 'div', 'sub')


class _NotANumberOp(Exception):
    def __init__(self, what, node_fn):
        super().__init__(what)
        self.what, self.fn = what, node_fn


def r12i(ctx):
    """"Can be evaluated" also for the layers that are not searched: with full_cost the wrappers
    hand ``vars(layer)`` of a plain nn.Conv2d / nn.Linear to the same cost functions, so every
    size is a Python int, not a tensor.  Each registered cost function that reads only static
    layer attributes is evaluated in a two-point type domain (N = Python number, T = tensor):
    arithmetic keeps N unless a tensor takes part; ``math.*`` and the builtins accept N;
    ``torch.tensor / as_tensor`` lift N to T; a tensor-only torch function (``torch.floor`` ..)
    or a tensor method applied to N raises TypeError / AttributeError at run time.  Autograd
    helpers (``X.apply``) and repository helpers are followed through their own return terms."""
    from ..costlib import cost_specs as _cs, spec_param
    repo = ctx.repo
    specs = _cs(repo)
    n = 0

    def ev_fn(fn, binds, depth):
        """tag of the value a repository function returns with its parameters tagged"""
        tags = set()
        for p in returning(paths(repo, fn)):
            tags.add(tag(p.retval, fn, binds, depth))
        return 'T' if 'T' in tags else 'N'

    def tag(t, fn, binds, depth):
        if depth > 8 or t is None:
            return 'T'
        k = t[0]
        if k == 'const':
            return 'N'
        if k == 'param':
            return binds.get(t[1], 'T')
        if k in ('sub', 'attr', 'elem', 'starred'):
            return tag(t[1], fn, binds, depth)
        if k in ('tuple', 'list'):
            ts = {tag(x, fn, binds, depth) for x in t[1]}
            return 'T' if 'T' in ts else 'N'
        if k == 'bin':
            return 'T' if 'T' in (tag(t[2], fn, binds, depth), tag(t[3], fn, binds, depth)) else 'N'
        if k == 'un':
            return tag(t[2], fn, binds, depth)
        if k == 'ifexp':
            c, pol = (t[1][2], False) if (t[1][0] == 'un' and t[1][1] == 'not') else (t[1], True)
            if c[0] == 'call' and (callee(c) or '') in ('builtins.isinstance', 'torch.is_tensor') \
                    and c[2]:
                # dispatch on the type of the operand: only the arm of this world is evaluated
                is_t = tag(c[2][0], fn, binds, depth) == 'T'
                return tag(t[2] if is_t == pol else t[3], fn, binds, depth)
            return 'T' if 'T' in (tag(t[2], fn, binds, depth), tag(t[3], fn, binds, depth)) else 'N'
        if k in ('cmp', 'bool', 'isnone'):
            return 'N'
        if k == 'call':
            c = callee(t) or ''
            mc = method_call(t)
            args = [tag(a, fn, binds, depth) for a in t[2]] + \
                [tag(a, fn, binds, depth) for _, a in t[3]]
            if mc is not None and mc[1] == 'apply' and mc[0][0] == 'global' and \
                    mc[0][1] in repo.classes and 'forward' in repo.classes[mc[0][1]].methods:
                fw = repo.classes[mc[0][1]].methods['forward']
                b = {p: a for p, a in zip(fw.params[1:], args)}
                return ev_fn(fw, b, depth + 1)
            if c.endswith('.apply') and c[:-6] in repo.classes and \
                    'forward' in repo.classes[c[:-6]].methods:
                fw = repo.classes[c[:-6]].methods['forward']
                b = {p: a for p, a in zip(fw.params[1:], args)}
                return ev_fn(fw, b, depth + 1)
            if c in repo.functions:
                g = repo.functions[c]
                return ev_fn(g, {p: a for p, a in zip(g.params, args)}, depth + 1)
            if c.startswith('math.') or c in ('builtins.int', 'builtins.float', 'builtins.len',
                                              'builtins.bool', 'builtins.round'):
                return 'N'
            if c in ('builtins.max', 'builtins.min', 'builtins.abs', 'builtins.sum',
                     'builtins.pow', 'builtins.divmod'):
                return 'T' if 'T' in args else 'N'
            if c in ('torch.tensor', 'torch.as_tensor', 'torch.ones', 'torch.zeros',
                     'torch.full', 'torch.scalar_tensor', 'torch.Tensor'):
                return 'T'
            if c.startswith('torch.'):
                name = c.rsplit('.', 1)[1]
                if name in TENSOR_ONLY and args and 'T' not in args[:1]:
                    raise _NotANumberOp(f'{c}({short(t[2][0], 50) if t[2] else ""})', fn)
                return 'T'
            if mc is not None:
                recv = tag(mc[0], fn, binds, depth)
                if recv == 'N' and mc[0][0] != 'global' and mc[1] not in (
                        'bit_length', 'is_integer', 'conjugate', 'real', 'imag', 'get', 'items',
                        'keys', 'values', 'index', 'count'):
                    raise _NotANumberOp(f'{short(mc[0], 40)}.{mc[1]}()', fn)
                return recv if mc[1] in ('get',) else 'T'
            return 'T'
        return 'T'
    for sname, si in sorted(specs.items()):
        for r in si.regs:
            probs: List[str] = []
            keys = set(keys_read(repo, r.fn, problems=probs))
            if not keys or not keys <= STATIC_KEYS:
                continue            # needs search state (precisions, coefficients): no fixed-layer use
            n += 1
            sp = spec_param(r.fn)
            bad = None
            try:
                for p in returning(paths(repo, r.fn)):
                    tag(p.retval, r.fn, {sp[1]: 'N'}, 0)
                    for e in p.calls():
                        tag(e.data[0], r.fn, {sp[1]: 'N'}, 0)
            except _NotANumberOp as ex:
                bad = ex
            ctx.ob('R12i', f'{sname}[{r.pattern}] evaluable on a layer that is not searched',
                   bad is None, 'every operation accepts plain numbers (vars(layer) of a fixed '
                   'layer under full_cost)' if bad is None else
                   f'{bad.fn.qualname.split("plinio.")[-1]} applies {bad.what} to a Python number: '
                   f'with full_cost=True the sizes of a layer kept out of the search (exclude_names '
                   f'/ exclude_types, autoconvert off) are ints, so model.cost raises TypeError '
                   f'instead of returning the cost', where(r.fn))
    ctx.floor('R12i', 'cost functions over static layer attributes', n, 10)


def run(ctx):
    r12i(ctx)
    # "a function of the architecture only": not of which metric of a dictionary specification
    # was evaluated first -- the memo rule of C04/C05/C06 on the three wrappers
    from .c06 import memo_rule
    for wname in ('PIT', 'MPS', 'SuperNet'):
        memo_rule(ctx, 'R12h', f'{wname}._get_single_cost',
                  ctx.repo.cls(wname).methods['_get_single_cost'], 1, 2)
    r12a(ctx)
    r12b(ctx)
    r12c(ctx)
    r12d(ctx)
    r12e(ctx)
    # the MPS cost depends on every coefficient it is differentiated by: the weighting structure
    # of get_cost (theta_in[i] * theta_w[j] * cost_fn, the per-channel coefficients averaged over
    # the channel axis -- a mean over the precision axis is the constant 1/n) is the rule of C05
    from . import c05
    before = len(ctx.obligations)
    c05.r05b(ctx)
    for o in ctx.obligations[before:]:
        o.rule = 'R12g'
    # finiteness of the NE16 cost MPS differentiates (shared with C16 R16a): non-negative,
    # monotone, and exactly 0 -- not 0/0 -- when no channel has the precision
    from . import c16
    from ..costlib import cost_specs as _cs
    c16.r16a(ctx, _cs(ctx.repo), rule='R12f', only=('ne16_latency',))


MANIFEST = {
    'text': 'For every model: the default cost of each MPS-based wrapper is evaluable (key and rank '
            'agreement), no registered cost function reads weight/buffer values or writes its '
            'spec, every straight-through backward passes the incoming gradient to the size '
            'argument, no gradient-cutting operation lies on the PIT cost path (MPS detach sites '
            'are exactly the reasoned table), and the PIT mask functions are non-decreasing in '
            '|p| with positive normalisation and full width at |p| = 1. Finiteness / '
            'non-zero-ness of gradient values are not decided. The cost does not depend on which metric was read first (memo rule), and the cost functions over static layer attributes are evaluable on plain numbers (fixed layers under full_cost; number / tensor type domain).',
    'note': 'Known findings: ODiMO_MPS default cost is not evaluable (a_precision key, torch.dot '
            'on rank-2 costs). Monotonicity of the cost functions themselves is C16.',
    'technique': 'writer/reader key + rank agreement, taint analysis, backward-shape check, '
                 'gradient-cut detection, compositional monotonicity',
}
