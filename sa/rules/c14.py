"""C14 — integer (MATCH / MAUPITI) layers reproduce their fake-quantised counterparts
(structural necessary conditions for "with or without bias", "dilation on either axis",
"within declared ranges"; the numeric closeness is not decided).

 R14a definite assignment / None flow in every back-end layer constructor and forward.
 R14b re-quantisation shape: linear op -> * scale + bias term -> / 2**shift -> floor ->
      clip(clip_inf, clip_sup); clip bounds per back end; MAUPITI's pad value and zero point
      use the same clip_inf.
 R14c the four _integer_approximation clones agree on the facts that bound scale, shift and
      the 32-bit scaled bias.
 R14i graph rewrite: remove_relu replaces every ReLU spelling the graph passes support.
 R14j the scale_bit / shift_pos options requested through integerize_arch reach the constructor
      of every back-end layer that declares them.
 R14d use-after-overwrite / axis consistency in the dilation handling.
 R14f weights are integerised (dequantize switched off first) before the weight scale is
      read; the bias is integerised with (s_x, s_w).
"""
from __future__ import annotations

import ast
from typing import Dict, List, Optional, Tuple

from .. import poly
from ..costlib import layer_map
from ..model import AnalysisError, ClassInfo, FunctionInfo
from ..sym import NONE, State, Term, mentions, show, subterms
from ..util import (SELF, arg, bind_args, callee, guards_of, is_call, method_call, paths, returning, short,
                    where)
from .c13 import _pow_equal

EXPLANATION = ('Path-sensitive definite-assignment and None-flow analysis of the back-end layer '
               'constructors and forwards, shape recognition of the re-quantisation pipeline and '
               'of the clip bounds, fact agreement across the four _integer_approximation '
               'clones, ordering of quantizer calls vs scale reads. Covers bias/no-bias and both '
               'dilation axes for every network; closeness to within one level is not decided.')
RULE_TEXT = ('obligation = (back-end layer class, method, path or clause); classes are discovered '
             'from match_layer_map / maupiti_layer_map')


def backend_classes(ctx) -> List[Tuple[str, ClassInfo]]:
    out = []
    for reg in ('match_layer_map', 'maupiti_layer_map'):
        for _, ci in sorted(layer_map(ctx.repo, reg).items()):
            out.append((reg.split('_')[0].upper(), ci))
    return out


def lbl(p: State, n: int = 160) -> str:
    s = ', '.join(f'{show(a)}={v}' for a, v in p.assumptions
                  if 'DummyQuantizer' not in show(a) or True)
    s = s.replace('methods.mps.quant.quantizers.dummy.', '')
    return s if len(s) <= n else s[:n] + '…'


def r14a(ctx, classes):
    repo = ctx.repo
    n = 0
    for be, ci in classes:
        init = ci.methods.get('__init__')
        fwd = ci.methods.get('forward')
        if init is None or fwd is None:
            raise AnalysisError(f'{ci.name}: __init__/forward missing')
        # definite assignment
        undefined: Dict[str, List[State]] = {}
        for fn in (init, fwd):
            for p in returning(paths(repo, fn)):
                n += 1
                for name, node in p.undefined_uses:
                    undefined.setdefault(f'{fn.name}:{name}', []).append(p)
        for key, ps in sorted(undefined.items()):
            fname, var = key.split(':')
            conds = common_conditions(ps)
            ctx.ob('R14a', f'{ci.name}.{fname} uses {var} unassigned [{conds}]', False,
                   f'local variable {var} is used on a path where it was never assigned '
                   f'({conds}): UnboundLocalError when the layer is built',
                   where(init if fname == '__init__' else fwd))
        if not undefined:
            ctx.ob('R14a', f'{ci.name} definite assignment', True,
                   'every local is assigned before use on every path', ci.where)
        # None flow: attributes the constructor may set to None, used in arithmetic by forward
        maybe_none = {}
        for p in returning(paths(repo, init)):
            last = {}
            for e in p.events:
                if e.kind == 'setattr' and e.data[0] == SELF:
                    last[e.data[1]] = e.data[2]
            for a, v in last.items():
                if v == NONE:
                    maybe_none.setdefault(a, p)
        for p in returning(paths(repo, fwd)):
            for a, pc in sorted(maybe_none.items()):
                at = ('attr', SELF, a)
                used = [x for x in subterms(p.retval) if x[0] == 'bin' and at in (x[2], x[3])]
                guarded = any(atom == ('isnone', at) and v is False for atom, v in p.assumptions)
                if used and not guarded:
                    ctx.ob('R14a', f'{ci.name}.forward uses self.{a} which may be None '
                           f'[{lbl(p, 80)}]', False,
                           f'self.{a} is set to None by the constructor when {lbl(pc, 120)} and '
                           f'forward adds it unconditionally: TypeError for a layer without bias',
                           where(fwd))
        ctx.count(f'R14a:{ci.name} paths', n)
    ctx.floor('R14a', 'constructor/forward paths', n, 20)


def common_conditions(ps: List[State]) -> str:
    common = None
    for p in ps:
        s = {(show(a), v) for a, v in p.assumptions}
        common = s if common is None else common & s
    out = ', '.join(f'{a}={v}' for a, v in sorted(common or [])
                    if 'bias' in a)
    return out or 'some path'


def r14b(ctx, classes):
    repo = ctx.repo
    for be, ci in classes:
        fwd = ci.methods['forward']
        is_conv = 'Conv' in ci.name
        n_req = 0
        for p in returning(paths(repo, fwd)):
            r = p.retval
            if not is_call(r, 'torch.clip', 'torch.clamp'):
                continue
            n_req += 1
            ok = len(r[2]) == 3 and r[2][1] == ('attr', SELF, 'clip_inf') and \
                r[2][2] == ('attr', SELF, 'clip_sup')
            inner = r[2][0]
            ok = ok and is_call(inner, 'torch.floor')
            msg = 'outer clip(.., self.clip_inf, self.clip_sup) over floor' if ok else \
                f'requantised value is {short(r, 200)}'
            if ok:
                q = inner[2][0]
                okq = q[0] == 'bin' and q[1] == '/' and \
                    q[3] == ('bin', '**', ('const', 2), ('attr', SELF, 'shift'))
                if okq:
                    acc = q[2]
                    bias_attr = '_zero_point' if be == 'MAUPITI' else 'add_bias'
                    okq = acc[0] == 'bin' and acc[1] == '+' and \
                        ('attr', SELF, bias_attr) in (acc[2], acc[3])
                    if okq:
                        prod = acc[2] if acc[3] == ('attr', SELF, bias_attr) else acc[3]
                        okq = prod[0] == 'bin' and prod[1] == '*' and \
                            ('attr', SELF, 'scale') in (prod[2], prod[3])
                        if okq:
                            lin = prod[2] if prod[3] == ('attr', SELF, 'scale') else prod[3]
                            okq = is_call(lin, 'torch.nn.functional.conv2d' if is_conv else
                                          'torch.nn.functional.linear') and \
                                lin[2][1] == ('attr', SELF, 'weight') and lin[2][2] == NONE
                ok = okq
                if not ok:
                    msg = (f'accumulator pipeline is {short(q, 220)}; expected '
                           f'(linear_op(x, weight, None) * scale + bias term) / 2**shift')
            ctx.ob('R14b', f'{ci.name}.forward requantisation [{lbl(p, 60)}]', ok,
                   'floor((acc * scale + bias term) / 2**shift) clipped to the activation range'
                   if ok else msg, where(fwd))
        ctx.ob('R14b', f'{ci.name}.forward has a requantising path', n_req >= 1,
               f'{n_req} requantising path(s)', where(fwd), nontrivial=False)
        # clip bounds
        prec_out = ('attr', ('attr', SELF, 'out_quantizer'), 'precision')
        two = ('const', 2)
        if be == 'MATCH':
            want_inf = ('const', 0.0)
            want_sup = ('bin', '-', ('bin', '**', two, prec_out), ('const', 1))
        else:
            want_inf = ('un', 'neg', ('bin', '**', two, ('bin', '-', prec_out, ('const', 1))))
            want_sup = ('bin', '-', ('bin', '**', two, ('bin', '-', prec_out, ('const', 1))),
                        ('const', 1))
        for name, want in (('clip_inf', want_inf), ('clip_sup', want_sup)):
            g = ci.getters.get(name)
            if g is None:
                raise AnalysisError(f'{ci.name}.{name} not found')
            vals = []
            last_vals = []
            from ..util import Inliner
            own_props = {n_ for k in repo.mro(ci) if hasattr(k, 'getters') for n_ in k.getters
                         if n_ not in ('clip_inf', 'clip_sup', 'device')}
            inl = Inliner(repo, {SELF: ci}, depth=3, only=own_props)
            LAST = ('attr', SELF, 'last_layer')

            def world(t, val):
                # resolve conditional expressions on self.last_layer
                if isinstance(t, tuple):
                    if t and t[0] == 'ifexp':
                        c = t[1]
                        neg = c[0] == 'un' and c[1] == 'not'
                        if (c[2] if neg else c) == LAST:
                            return world(t[3] if (val == neg) else t[2], val)
                    return tuple(world(x, val) for x in t)
                return t
            for p in returning(paths(repo, g)):
                decided = [v for a, v in p.assumptions if a == LAST]
                for is_last in ((decided[0],) if decided else (False, True)):
                    if not is_last:
                        continue
                    t2 = p.retval
                    t2 = t2[2][0] if is_call(t2, 'torch.tensor') and t2[2] else t2
                    last_vals.append(strip_cast(world(inl.expand(strip_cast(t2)), True)))
                last = bool(decided) and decided[0]
                if last:
                    continue        # judged below (final-layer world)
                t = world(inl.expand(p.retval), False)
                if t[0] == 'sub' and t[1][0] == 'attr':
                    # memoised bound: judge the value stored under that key (staleness of the
                    # memo itself is judged by R14g)
                    stored = [e.data[2] for q in returning(paths(repo, g)) for e in q.events
                              if e.kind == 'setitem' and e.data[0] == t[1]]
                    if stored:
                        t = stored[0]
                v = t[2][0] if is_call(t, 'torch.tensor') and t[2] else t
                v = strip_cast(v)
                vals.append(v)
            ok = bool(vals) and all(_pow_equal(v, want) for v in vals)
            ctx.ob('R14b', f'{ci.name}.{name}', ok,
                   f'{name} = {short(want, 80)}' if ok else
                   f'{name} is {[short(v, 80) for v in vals]}, expected {short(want, 80)} '
                   f'({"unsigned" if be == "MATCH" else "offset-signed"} activations of the '
                   f'output precision)', where(g))
            has_last = any(e.kind == 'setattr' and e.data[0] == SELF and e.data[1] == 'last_layer'
                           for q in paths(repo, ci.methods['__init__']) for e in q.events)
            if be == 'MAUPITI' and name == 'clip_inf' and last_vals and has_last:
                # the final layer does not clip, but its clip_inf is the offset its INPUT
                # activations carry (applied by the previous layer) and enters _zero_point
                prec_in = ('attr', ('attr', SELF, 'in_quantizer'), 'precision')
                want_l = ('un', 'neg', ('bin', '**', two, ('bin', '-', prec_in, ('const', 1))))
                okl = all(_pow_equal(strip_cast(v), want_l) for v in last_vals)
                ctx.ob('R14b', f'{ci.name}.{name} of the final layer', okl,
                       'offset of the input activations: -2**(in precision - 1)' if okl else
                       f'for the final layer clip_inf is {[short(v, 80) for v in last_vals][:2]}, '
                       f'expected {short(want_l, 80)}: the zero point compensates the offset of '
                       f'the input activations, which the previous layer produced with its '
                       f'output (= this layer\'s input) precision; with another precision the '
                       f'final output is not the real-valued logits', where(g))
        if be == 'MAUPITI':
            init = ci.methods['__init__']
            ci_t = ('attr', SELF, 'clip_inf')
            for p in returning(paths(repo, init)):
                zs = [e for e in p.events if e.kind == 'setattr' and e.data[0] == SELF and
                      e.data[1] == '_zero_point']
                for e in zs:
                    z = e.data[2]
                    requant = any(a in (('attr', SELF, 'skip_requant'),
                                        ('attr', SELF, 'last_layer')) and v is False
                                  for a, v in guards_of(p, e))
                    if not requant:
                        continue
                    sw = [x for x in subterms(z) if is_call(x, 'torch.sum')]
                    okz = bool(sw)
                    if okz:
                        S = ('sym', 'sumw')
                        zz = _replace_calls(z, S)
                        want = ('bin', '-', ('bin', '+', ('attr', SELF, 'add_bias'),
                                             ('bin', '*', ci_t, ('pow2', ('attr', SELF, 'shift')))),
                                ('bin', '*', ('bin', '*', ci_t, ('attr', SELF, 'scale')), S))
                        okz = poly.equal(_pow_atoms(zz), want) and \
                            sw[0][2][0] == ('attr', SELF, 'weight')
                        # one sum per output channel: every axis of the weight but axis 0
                        dim = dict(sw[0][3]).get('dim', sw[0][2][1] if len(sw[0][2]) > 1
                                                 else None)
                        axes = None
                        if dim is not None and dim[0] == 'const':
                            axes = {dim[1]}
                        elif dim is not None and dim[0] in ('tuple', 'list') and \
                                all(x[0] == 'const' for x in dim[1]):
                            axes = {x[1] for x in dim[1]}
                        rank = 4 if 'Conv2d' in ci.name else 3 if 'Conv1d' in ci.name else 2
                        if axes is None or {a % rank for a in axes} != set(range(1, rank)):
                            okz = False
                    ctx.ob('R14b', f'{ci.name}._zero_point [{lbl(p, 60)}]', okz,
                           'add_bias + clip_inf*2**shift - clip_inf*scale*sum(weight)' if okz else
                           f'zero point is {short(z, 220)}: the offset-signed activations are '
                           f'not compensated with the clip_inf the layer clips/pads with (the '
                           f'weights summed per output channel, i.e. over every axis but 0)',
                           where(init, e.node))
                pads = [e for e in p.events if e.kind == 'setattr' and e.data[0] == SELF and
                        e.data[1] == 'pad']
                for e in pads:
                    v = e.data[2]
                    if is_call(v, 'torch.nn.ConstantPad2d'):
                        val = arg(v, 1, 'value')
                        amount = arg(v, 0, 'padding')
                        zero_pad = amount == ('const', 0)
                        okp = val == ci_t or zero_pad
                        ctx.ob('R14b', f'{ci.name}.pad value [{lbl(p, 60)}]', okp,
                               'pads with clip_inf (the integer image of 0)' if okp else
                               f'pad value is {short(val) if val else None}, expected '
                               f'self.clip_inf', where(init, e.node))


def strip_cast(t: Term) -> Term:
    return t


def _pow_atoms(t):
    if isinstance(t, tuple):
        if t and t[0] == 'bin' and t[1] == '**' and t[2] == ('const', 2):
            return ('pow2', _pow_atoms(t[3]))
        return tuple(_pow_atoms(x) for x in t)
    return t


def _replace_calls(t, sym):
    if isinstance(t, tuple):
        if t and t[0] == 'call':
            mc = method_call(t)
            if mc and mc[1] == 'view':
                return _replace_calls(mc[0], sym)
            if is_call(t, 'torch.sum'):
                return sym
        return tuple(_replace_calls(x, sym) for x in t)
    return t


def r14g(ctx, classes):
    """No layer-dependent value is memoised in state shared by all instances (a mutable class
    attribute) under a key that does not identify what the value depends on."""
    repo = ctx.repo
    import ast as _ast
    n = 0
    for be, ci in classes:
        shared = {name for c in repo.mro(ci) if isinstance(c, ClassInfo)
                  for name, v in c.class_assigns.items()
                  if isinstance(v, (_ast.Dict, _ast.List, _ast.Set)) or
                  (isinstance(v, _ast.Call) and _ast.unparse(v.func) in ('dict', 'list', 'set'))}
        for f in list(ci.methods.values()) + list(ci.getters.values()):
            for p in paths(repo, f):
                for e in p.events:
                    if e.kind == 'setitem' and e.data[0][0] == 'attr' and \
                            e.data[0][1] == SELF and e.data[0][2] in shared:
                        n += 1
                        key, val = e.data[1], e.data[2]
                        deps = {x for x in subterms(val) if x[0] == 'attr' and
                                mentions(x, lambda y: y == SELF) and
                                x[2] not in ('device',)}
                        deps = {x for x in deps if not any(x != y and mentions(y, lambda z, x=x: z == x)
                                                           for y in deps)}
                        missing = [x for x in deps if not mentions(key, lambda y, x=x: y == x)]
                        ctx.ob('R14g', f'{ci.name}.{f.name} memoises into class attribute '
                               f'{e.data[0][2]}', not missing,
                               'key covers everything the value depends on' if not missing else
                               f'{e.data[0][2]} is a mutable class attribute shared by every '
                               f'{ci.name}; the value {short(val, 80)} depends on '
                               f'{[short(x, 40) for x in missing]} which the key '
                               f'{short(key, 40)} does not contain: the first layer evaluated '
                               f'fixes the bound for all the others (other output precision -> '
                               f'activations outside the declared range)', where(f, e.node))
    if n == 0:
        ctx.ob('R14g', 'no value memoised in class-level state', True,
               'back-end layers keep no state shared between instances', '', nontrivial=False)


F_CONV_SLOTS = ['input', 'weight', 'bias', 'stride', 'padding', 'dilation', 'groups']


def r14h(ctx, classes):
    """The integer convolution is the layer's own convolution: every call of
    torch.nn.functional.conv{1,2,3}d in a back-end layer's forward passes stride, dilation and
    groups bound to the layer's attributes of the same name (an omitted slot silently takes
    torch's default 1), and its padding is the layer's padding or an explicit pad of the input
    followed by 'valid' / 0.  (Slots of the functional API: input, weight, bias=None, stride=1,
    padding=0, dilation=1, groups=1 — a fact of the torch C++ binding, stated here.)"""
    repo = ctx.repo
    n = 0
    for be, ci in classes:
        fwd = ci.methods.get('forward')
        if fwd is None:
            continue
        for p in returning(paths(repo, fwd)):
            for e in p.calls():
                t = e.data[0]
                c = callee(t) or ''
                if not (c.startswith('torch.nn.functional.conv') and c[-2:] in ('1d', '2d', '3d')):
                    continue
                n += 1
                bound = bind_args(t, F_CONV_SLOTS)
                bad = []
                for slot in ('stride', 'dilation', 'groups'):
                    v = bound.get(slot)
                    if v is None:
                        bad.append(f'{slot} is not passed (torch uses 1) although the layer has '
                                   f'its own self.{slot}')
                    elif v != ('attr', SELF, slot):
                        bad.append(f'{slot} receives {short(v, 40)}')
                pad = bound.get('padding', ('const', 0))
                inp = bound.get('input')
                explicit = inp is not None and mentions(inp, lambda x: x[0] == 'call' and (
                    (method_call(x) is not None and method_call(x)[0] == ('attr', SELF, 'pad')) or
                    x[1] == ('attr', SELF, 'pad') or (callee(x) or '').endswith('functional.pad')))
                if not (pad == ('attr', SELF, 'padding') or
                        (explicit and pad in (('const', 'valid'), ('const', 0)))):
                    bad.append(f'padding is {short(pad, 30)} (explicit pad of the input: '
                               f'{explicit})')
                key = f'{ci.name}.forward convolution +{getattr(e.node, "lineno", 0) - fwd.node.lineno}'
                ctx.ob('R14h', key, not bad,
                       'stride, padding, dilation and groups are the layer\'s own' if not bad else
                       '; '.join(bad) + ': the integer layer computes a different convolution '
                       'than its fake-quantised counterpart (other taps / output size)',
                       where(fwd, e.node))
    ctx.floor('R14h', 'functional convolution calls in back-end forwards', n, 4)
    # ... and the explicit pad that replaces the convolution's own padding pads each spatial
    # axis with that axis' padding: torch's ConstantPad2d takes (left, right, top, bottom), i.e.
    # the LAST axis first; a single int taken from padding[0] pads both axes alike
    npad = 0
    for be, ci in classes:
        init = ci.methods.get('__init__')
        if init is None:
            continue
        seen = set()
        for p in paths(repo, init):
            for e in p.events:
                if not (e.kind == 'setattr' and e.data[0] == SELF and
                        (callee(e.data[2]) or '').endswith(('ConstantPad2d', 'ZeroPad2d'))):
                    continue
                a = e.data[2][2][0] if e.data[2][2] else None
                if a is None or not mentions(a, lambda x: x == ('attr', SELF, 'padding')):
                    continue
                if getattr(e.node, 'lineno', 0) in seen:
                    continue
                seen.add(getattr(e.node, 'lineno', 0))
                npad += 1
                ax = lambda i: ('sub', ('attr', SELF, 'padding'), ('const', i))     # noqa: E731
                ok = a[0] == 'tuple' and tuple(a[1]) == (ax(1), ax(1), ax(0), ax(0))
                ctx.ob('R14h', f'{ci.name}.__init__ explicit pad follows the padding of each axis',
                       ok, '(left, right, top, bottom) = (padding[1], padding[1], padding[0], '
                       'padding[0])' if ok else
                       f'the pad module is built from {short(a, 80)}: for padding=(p0, p1) with '
                       f'p0 != p1 the integer layer pads the last axis with the wrong amount and '
                       f'returns another output size than its fake-quantised counterpart',
                       where(init, e.node))
    ctx.floor('R14h', 'explicit pad modules built from the layer padding', npad, 1)


def r14c(ctx, classes):
    repo = ctx.repo
    facts: Dict[str, Dict[str, str]] = {}
    for be, ci in classes:
        fn = ci.methods.get('_integer_approximation')
        if fn is None:
            raise AnalysisError(f'{ci.name}._integer_approximation not found')
        f: Dict[str, str] = {}
        rets = [p for p in returning(paths(repo, fn))]
        full = [p for p in rets if not any(e.kind == 'loop0' for e in p.events)]
        if not full:
            raise AnalysisError(f'{ci.name}._integer_approximation: no full path')
        p = full[0]
        sw, sx, sy, ib = (('param', x) for x in fn.params[1:5])
        for e in p.calls():
            t = e.data[0]
            if is_call(t, 'binary_search'):
                a = t[2]
                f['binary_search'] = f'({short(_gen(a[0]), 40)}, {short(a[1], 20)}, ' \
                                     f'{short(_gen(a[2]), 60)}, target)'
                ub = a[2]
                sb = [x for x in subterms(ub) if x == ('attr', SELF, 'scale_bit') or
                      (x[0] == 'const' and x[1] in (16, 24, 32))]
                f['upper_bound'] = 'two**(scale_bits - 1)' if (
                    ub[0] == 'bin' and ub[1] == '**' and ub[2] == ('const', 2) and
                    ub[3][0] == 'bin' and ub[3][1] == '-' and ub[3][3] == ('const', 1)) \
                    else short(ub, 60)
            if is_call(t, 'torch.logical_or'):
                f['overflow'] = short(_gen(t), 160)
            if is_call(t, 'builtins.abs', 'torch.abs', 'math.fabs') and t[2] and \
                    mentions(t, lambda x: x[0] == 'bin' and x[1] == '/'):
                # the error a (scale, shift) pair is ranked by: |scale / 2**shift - target|
                d = t[2][0]
                shape = d[0] == 'bin' and d[1] == '-' and d[2][0] == 'bin' and d[2][1] == '/' and \
                    d[2][3][0] == 'bin' and d[2][3][1] == '**' and d[2][3][2] == ('const', 2) and \
                    d[2][3][3][0] == 'elem'
                f['error'] = '|scale / 2**shift - target|' if shape else short(_gen(t), 120)
        f.setdefault('error', 'no absolute error found')
        tgt = [e for e in p.events if False]
        # target = s_w * s_x / s_y
        tt = [x for x in subterms(p.retval)] and None
        found_target = any(
            mentions(e.data[0], lambda x: x[0] == 'bin' and x[1] == '/' and x[3] == sy and
                     poly.equal(x[2], ('bin', '*', sw, sx)))
            for e in p.calls())
        f['target'] = 's_w*s_x/s_y' if found_target else 'other'
        # selection guard
        sel = [e for e in p.events if e.kind == 'assume' and
               mentions(e.data[0], lambda x: x[0] == 'cmp' and x[1] == '<')]
        guards = set()
        for q in full:
            for a, v in q.assumptions:
                s = show(a)
                if '<' in s and 'inf' in s:
                    guards.add('val < min_diff')
                if 'any(' in s and 'logical_or' in s:
                    guards.add(f'overflow={v}')
        f['selection'] = ','.join(sorted(guards))
        f['return'] = ' | '.join(sorted({short(_gen(q.retval), 120) for q in full}))
        facts[ci.name] = f
        # selection consistency: what is returned was recorded under the selection guard; on a
        # path where the candidate of an iteration is rejected, the result must not be built
        # from that candidate (a loop-local left over from the last iteration)
        leaks = []
        n_rej = 0
        for q in full:
            rejected = any(e.kind == 'assume' and e.data[1] is False and
                           mentions(e.data[0], lambda x: x[0] == 'cmp' and x[1] == '<')
                           for e in q.events)
            taken = any(e.kind == 'assume' and e.data[1] is True and
                        mentions(e.data[0], lambda x: x[0] == 'cmp' and x[1] == '<')
                        for e in q.events)
            if rejected and not taken:
                n_rej += 1
                if any(x[0] == 'elem' for x in subterms(q.retval)):
                    leaks.append(q.retval)
        if n_rej == 0:
            raise AnalysisError(f'{ci.name}._integer_approximation: no path rejects a candidate')
        ctx.ob('R14c', f'{ci.name}._integer_approximation returns the selected candidate',
               not leaks, 'nothing of a rejected candidate reaches the result' if not leaks
               else f'on the path where the candidate is rejected the result is still built '
               f'from it ({short(leaks[0], 120)}): scale and shift come from different '
               f'candidates (the scale of the last shift examined with the best shift), so '
               f'the layer re-quantises with a factor that does not approximate '
               f's_w*s_x/s_y and the 32-bit bound checked for the selected pair does not '
               f'hold for the returned one', where(fn))
        # the factor is applied as ``scale / 2 ** shift`` in the dtype of the returned tensors:
        # the admissible shifts go up to shift_pos - 1 (31 for the 32-bit option), and 2 ** 31
        # wraps to -2 ** 31 in int32 (sign of the re-quantised output flips); the default
        # (int64 for Python ints) and floating types hold it
        narrow = set()
        for q in full:
            for x in subterms(q.retval):
                if x[0] == 'call' and (callee(x) or '').startswith('torch.'):
                    d = arg(x, None, 'dtype')
                    if d is not None and d[0] == 'global' and d[1] in (
                            'torch.int32', 'torch.int16', 'torch.int8', 'torch.uint8',
                            'torch.int', 'torch.short', 'torch.float16', 'torch.half',
                            'torch.bfloat16'):
                        narrow.add(d[1])
        ctx.ob('R14c', f'{ci.name}._integer_approximation returns tensors that hold 2**shift',
               not narrow, 'default (64-bit) or floating dtype' if not narrow else
               f'scale / shift are returned as {sorted(narrow)}: forward computes 2 ** shift in '
               f'that type, and the largest admissible shift (shift_pos - 1 = 31 with the 32-bit '
               f'option) wraps around, so the integer layer re-quantises with a factor of the '
               f'wrong sign / magnitude', where(fn))
    ref_name = sorted(facts)[0]
    ref = facts[ref_name]
    expected = {'upper_bound': 'two**(scale_bits - 1)', 'target': 's_w*s_x/s_y',
                'error': '|scale / 2**shift - target|'}
    for name, f in sorted(facts.items()):
        for k, v in expected.items():
            ctx.ob('R14c', f'{name}._integer_approximation {k}', f.get(k) == v,
                   f'{k}: {v}' if f.get(k) == v else f'{k} is {f.get(k)}, expected {v}',
                   ctx.repo.cls(name).methods['_integer_approximation'].where)
        for k in ('binary_search', 'overflow', 'selection', 'return'):
            same = f.get(k) == ref.get(k)
            ctx.ob('R14c', f'{name}._integer_approximation {k} agrees with siblings', same,
                   f'{k}: {f.get(k)}' if same else
                   f'{k} = {f.get(k)} differs from {ref_name}: {ref.get(k)} — the four clones '
                   f'must bound scale, shift and the scaled bias identically',
                   ctx.repo.cls(name).methods['_integer_approximation'].where)
    ov = ref.get('overflow', '')
    ok = '2 ** 31' in ov and '- 1' in ov and 'neg' in ov
    ctx.ob('R14c', '_integer_approximation overflow bounds', ok,
           'scaled bias kept within [-2**31, 2**31 - 1]' if ok else
           f'overflow test is {ov}', ctx.repo.cls(ref_name).methods['_integer_approximation'].where)


def _gen(t):
    """Generalise back-end specific constants so that clones can be compared."""
    if isinstance(t, tuple):
        if t == ('attr', SELF, 'scale_bit') or t == ('const', 16):
            return ('sym', 'SCALE_BIT')
        if t == ('attr', SELF, 'shift_pos') or t == ('const', 32):
            return ('sym', 'SHIFT_POS')
        if t and t[0] == 'elem':
            return ('sym', 'elem')
        if t and t[0] in ('dict', 'comp'):
            return ('sym', 'table')         # the candidate table, however it is filled
        mc = method_call(t) if t and t[0] == 'call' else None
        if mc and mc[1] in ('clone', 'detach', 'cpu'):
            return _gen(mc[0])
        return tuple(_gen(x) for x in t)
    return t


def r14d(ctx, classes):
    repo = ctx.repo
    n = 0
    for be, ci in classes:
        init = ci.methods['__init__']
        for p in returning(paths(repo, init)):
            overwritten: Dict[str, int] = {}
            for i, e in enumerate(p.events):
                if e.kind == 'setattr' and e.data[0] == SELF:
                    name, v = e.data[1], e.data[2]
                    # later arithmetic that reads an attribute just overwritten with a constant
                    for a, j in list(overwritten.items()):
                        at = ('attr', SELF, a)
                        if a != name or True:
                            if mentions(v, lambda x, at=at: x[0] == 'bin' and
                                        mentions((x[2], x[3]), lambda y: y == at)):
                                n += 1
                                ctx.ob('R14d', f'{ci.name}.__init__ reads self.{a} after '
                                       f'overwriting it', False,
                                       f'self.{name} = {short(v, 120)} is computed from self.{a} '
                                       f'after self.{a} was overwritten with a constant in the '
                                       f'same block: the formula sees the neutral value, not the '
                                       f'layer\'s original {a}', where(init, e.node))
                    if v[0] in ('tuple', 'const') and not mentions(v, lambda x: x[0] == 'attr') \
                            and v != NONE and name in ('dilation', 'kernel_size', 'stride',
                                                       'padding', 'groups'):
                        overwritten[name] = i
            # axis consistency: per-axis attributes passed next to an axis selector
            for e in p.calls():
                t = e.data[0]
                mc = method_call(t)
                if mc and mc[0] == SELF and mc[1].startswith('_pad_dilation'):
                    args = mc[2]
                    if len(args) == 3:
                        axis = args[2]
                        for a in args[:2]:
                            if a[0] == 'sub' and a[1][0] == 'attr' and a[1][1] == SELF:
                                n += 1
                                ok = a[2] == axis
                                ctx.ob('R14d', f'{ci.name}.__init__ axis of {a[1][2]} passed to '
                                       f'{mc[1]}', ok,
                                       'indexed by the axis selector' if ok else
                                       f'self.{a[1][2]}[{show(a[2])}] is passed with the axis '
                                       f'selector {short(axis, 80)}: when the dilated axis is 1 '
                                       f'the helper receives the values of axis 0',
                                       where(init, e.node))
    ctx.count('R14d:sites', n)
    if n == 0:
        ctx.ob('R14d', 'dilation handling', True, 'no per-axis attribute is rewritten', '',
               nontrivial=False)


def r14f(ctx, classes):
    repo = ctx.repo
    for be, ci in classes:
        init = ci.methods['__init__']
        src = ('param', init.params[1])
        for p in returning(paths(repo, init)):
            ev = p.events

            def first(pred):
                for i, e in enumerate(ev):
                    if pred(e):
                        return i
                return None
            wq = ('attr', SELF, 'w_quantizer')
            i_deq = first(lambda e: e.kind == 'setattr' and e.data[0] == wq and
                          e.data[1] == 'dequantize' and e.data[2] == ('const', False))
            i_call = first(lambda e: e.kind == 'call' and e.data[0][1] == wq and
                           e.data[0][2] == (('attr', src, 'weight'),))
            i_copy = first(lambda e: e.kind == 'call' and method_call(e.data[0]) and
                           method_call(e.data[0])[1] == 'copy_' and
                           method_call(e.data[0])[0] == ('attr', SELF, 'weight') and
                           method_call(e.data[0])[2][0][0] == 'call' and
                           method_call(e.data[0])[2][0][1] == wq)
            i_scale = first(lambda e: e.kind == 'setattr' and e.data[0] == SELF and
                            mentions(e.data[2], lambda x: x == ('attr', wq, 'scale')))
            ok = None not in (i_deq, i_call, i_copy, i_scale) and \
                i_deq < i_call < i_scale and i_call <= i_copy
            ctx.ob('R14f', f'{ci.name}.__init__ weight integerisation order [{lbl(p, 60)}]',
                   bool(ok),
                   'dequantize off -> quantize weights -> copy -> read weight scale' if ok else
                   f'order of (dequantize=False, w_quantizer(weight), weight.copy_, read of '
                   f'w_quantizer.scale) is {(i_deq, i_call, i_copy, i_scale)}: the weight scale '
                   f'is only valid after the weights were quantised, and the stored weights must '
                   f'be the integer image', where(init))
            # bias integerised with (s_x, s_w) after dequantize off
            bq = ('attr', SELF, 'b_quantizer')
            has_bias = any(a == ('isnone', ('attr', src, 'bias')) and v is False
                           for a, v in p.assumptions)
            if has_bias:
                i_bd = first(lambda e: e.kind == 'setattr' and e.data[0] == bq and
                             e.data[1] == 'dequantize' and e.data[2] == ('const', False))
                i_bc = first(lambda e: e.kind == 'call' and e.data[0][1] == bq)
                okb = i_bd is not None and i_bc is not None and i_bd < i_bc and \
                    ev[i_bc].data[0][2] == (('attr', src, 'bias'), ('attr', SELF, 's_x'),
                                            ('attr', SELF, 's_w'))
                ctx.ob('R14f', f'{ci.name}.__init__ bias integerisation [{lbl(p, 60)}]',
                       bool(okb),
                       'bias quantised to integers with (s_x, s_w)' if okb else
                       'the bias is not integerised as b_quantizer(bias, s_x, s_w) with '
                       'dequantize switched off first', where(init))


def r14i(ctx):
    """Graph rewrite 'ReLUs removed': the integer layers implement the ReLU as their clip, and
    MAUPITI activations are offset-signed (a surviving ReLU clamps every activation below
    half the range to 0).  Every spelling of the plain ReLU that the library supports as a graph
    op -- the function targets and module classes named in graph/inspection.py whose name is
    relu / ReLU -- must be among the ones remove_relu replaces."""
    repo = ctx.repo
    insp = repo.modules['plinio.graph.inspection']
    sup_f, sup_m = set(), set()
    # every mention counts, however the predicates are written (comparison chains, tuples of
    # targets, isinstance tests, module-level tables)
    for n in ast.walk(insp.tree):
        if isinstance(n, (ast.Attribute, ast.Name)) and isinstance(n.ctx, ast.Load):
            q = repo.resolve_expr_name(insp, n)
            q = repo.canonical(q) if q else None
            if q and q.startswith('torch.'):
                if q.rsplit('.', 1)[-1] == 'relu':
                    sup_f.add(q)
                elif q.rsplit('.', 1)[-1] == 'ReLU':
                    sup_m.add(q)
    ctx.floor('R14i', 'ReLU spellings supported by the graph passes', len(sup_f) + len(sup_m), 3)
    rr = repo.fn('backends.base.remove_relu')
    rem_f, rem_m = set(), set()
    for p in paths(repo, rr, keep=('is_function', 'is_layer', 'is_inherited_layer')):
        for a, v in p.assumptions:
            for x in subterms(a):
                if is_call(x, 'is_function') and len(x[2]) >= 2:
                    rem_f |= {repo.canonical(y[1]) for y in subterms(x[2][1]) if y[0] == 'global'}
                if is_call(x, 'is_layer', 'is_inherited_layer', 'builtins.isinstance') and \
                        len(x[2]) >= 2:
                    rem_m |= {repo.canonical(y[1]) for y in subterms(x[2][-1])
                              if y[0] == 'global'}
    missing = sorted((sup_f - rem_f) | (sup_m - rem_m))
    ctx.ob('R14i', 'remove_relu removes every supported ReLU spelling', not missing,
           f'functions {sorted(x.replace("torch.nn.functional", "F") for x in sup_f)} and modules '
           f'{sorted(sup_m)} are all replaced' if not missing else
           f'{missing} is a ReLU the graph passes support but remove_relu leaves in the integer '
           f'graph (it removes {sorted(rem_f | rem_m)}): MAUPITI activations are offset-signed, so '
           f'the surviving ReLU clamps every activation below half the clip value to 0 and the '
           f'next integer layer no longer receives the integer image of its counterpart\'s input',
           where(rr))


def r14j(ctx):
    """Declared ranges: the property's ranges are the ones *requested* -- the scale_bit /
    shift_pos passed to integerize_arch.  Every back-end layer class whose constructor declares
    options (parameters with defaults, beyond the layer and its quantizers) must be constructed
    with the options dictionary the caller passed: integerize_arch hands its options parameter to
    the export of the fake-quantised layer, and that export forwards it to the constructor
    obtained from backend_factory (as ``**options`` or option by option).  A layer built with
    the default bit-widths stores scales / shifts outside the requested range."""
    repo = ctx.repo
    ia = repo.fn('backends.base.integerize_arch')
    ia_params = ia.params
    if len(ia_params) < 3:
        raise AnalysisError(f'{ia.qualname}: no options parameter')
    opt_par = ia_params[2]
    # 1. integerize_arch -> export: which positional slot / keyword receives the options
    slots = set()
    n_calls = 0
    for p in returning(paths(repo, ia)):
        for e in p.events:
            if e.kind != 'call':
                continue
            t = e.data[0]
            mc = method_call(t)
            if mc is None or mc[1] != 'export':
                continue
            n_calls += 1
            got = [('pos', i) for i, a in enumerate(mc[2]) if a == ('param', opt_par)] + \
                  [('kw', k) for k, v in mc[3] if v == ('param', opt_par)]
            ctx.ob('R14j', f'integerize_arch hands {opt_par} to export [{where(ia, e.node)}]',
                   bool(got), f'{show(t)[:120]} receives the options' if got else
                   f'{show(t)[:160]} does not receive {opt_par}: every integer layer is built '
                   f'with the default scale_bit / shift_pos, so the stored scales and shifts are '
                   f'outside the ranges the caller declared', where(ia, e.node))
            slots |= set(got)
    if not n_calls:
        raise AnalysisError(f'{ia.qualname}: no export call found')
    n_decl = 0
    for reg in ('match_layer_map', 'maupiti_layer_map'):
        for kq, ci in sorted(layer_map(repo, reg).items()):
            init = repo.find_method(ci, '__init__')
            opts = sorted(init.defaults()) if init is not None else []
            if not opts:
                continue
            n_decl += 1
            kci = repo.classes.get(repo.canonical(kq)) or repo.classes.get(kq)
            exp = repo.find_method(kci, 'export') if kci is not None else None
            if exp is None:
                raise AnalysisError(f'{kq}: export not found')
            eparams = exp.params
            names = {eparams[i] for k, i in slots if k == 'pos' and i < len(eparams)} | \
                    {i for k, i in slots if k == 'kw' and i in eparams}
            ok, seen, why = True, 0, ''
            for p in returning(paths(repo, exp)):
                for e in p.events:
                    if e.kind != 'call':
                        continue
                    t = e.data[0]
                    if not any(is_call(x, 'backend_factory') for x in subterms(t[1])):
                        continue
                    seen += 1
                    star = any(k == '**' and any(y[0] == 'param' and y[1] in names for y in subterms(v))
                               for k, v in t[3])
                    each = all(any(k == o and any(y[0] == 'param' and y[1] in names
                                                  for y in subterms(v)) for k, v in t[3])
                               for o in opts)
                    if not (star or each):
                        ok = False
                        why = f'{where(exp, e.node)}: {show(t)[:140]}'
            if not seen:
                raise AnalysisError(f'{exp.qualname}: no construction through backend_factory')
            ctx.ob('R14j', f'{kci.name}.export forwards the options {opts} to {ci.name}', ok,
                   f'the constructor obtained from backend_factory receives **{sorted(names)}' if ok
                   else f'{why} builds the {ci.name} without the options {opts} requested through '
                   f'integerize_arch: it keeps the defaults, so its scale can reach '
                   f'2**(default scale_bit - 1) and its shift the default shift_pos -- outside '
                   f'the declared ranges', where(exp))
    ctx.floor('R14j', 'back-end layer classes declaring options', n_decl, 2)


def run(ctx):
    r14i(ctx)
    r14j(ctx)
    classes = backend_classes(ctx)
    ctx.floor('C14', 'back-end layer classes', len(classes), 4)
    r14a(ctx, classes)
    r14b(ctx, classes)
    r14c(ctx, classes)
    r14d(ctx, classes)
    r14f(ctx, classes)
    r14g(ctx, classes)
    r14h(ctx, classes)
    ctx.note('R14e (informational): Backend.DIANA has no layer map; C14 speaks of the two '
             'implemented back ends only')
    ctx.assume('a path is feasible when its branch conditions are consistent (same atom, same '
               'polarity); conv.bias is None iff self.bias is None after super().__init__')


MANIFEST = {
    'text': 'Necessary structural conditions, for every network and both back ends: every local '
            'and attribute used by the constructors/forwards is defined and not None on every '
            'path (bias-free layers included), the requantisation pipeline has the declared '
            'shape with the declared clip bounds (MAUPITI zero point and padding consistent '
            'with clip_inf), the four _integer_approximation clones bound scale/shift/bias '
            'identically, per-axis attributes are not read after being neutralised and are '
            'indexed by the axis selector, weights/bias are integerised before scales are read. '
            'Closeness to within one quantisation level is not decided. Scale / shift keep a dtype that holds 2**shift; the explicit pad module follows the padding of each axis.',
    'note': 'Trusted: path feasibility by atom consistency; torch.nn.Module keeps bias None '
            'when constructed with bias=False.',
    'technique': 'definite-assignment / None-flow path analysis + pipeline shape recognition + '
                 'sibling fact agreement + event-order (typestate) check',
}
