"""C01 — PIT export computes the same function as the masked network (structural clauses).

Decided (necessary conditions; not output equality):
 R01a masked-is-zero: every value returned by ``forward`` of a PIT layer that owns an
      output-feature masker is exactly zero on pruned channels (zmask domain), with the mask
      broadcast on the channel axis of the operand it multiplies.
 R01b time-axis anchoring: the always-alive tap of the receptive-field mask and of the
      dilation comb is the END (most recent) tap, the one export keeps by left-padding.
 R01c mask/axis agreement at the slicing sites of ``export``.
 R01d argument-slot agreement of the constructor calls in ``export``.
 R01e padding: left pad == (k_opt-1)*d_opt, right pad 0, value 0.
 R01j export re-creates the trailing BatchNorm exactly when forward applies it.
 R01f exported hyper-parameters are derived from the masks that forward applies
      (kernel_size_opt <- time mask, dilation_opt <- binarised gamma theta * original
      dilation, out/in features <- feature masks), all with the layer's own threshold.
 R01g the time mask is the product of the binarised beta- and gamma-theta.
"""
from __future__ import annotations

import ast
from typing import Dict, List, Optional, Tuple

from .. import poly
from ..anchor import E, S
from ..model import AnalysisError, ClassInfo, FunctionInfo
from ..pitlib import analyse_masker, pit_layer_classes
from ..sym import NONE, Term, mentions, show, subterms
from ..util import (path_guards, SELF, Inliner, arg, attr_classes, bind_args, callee, is_call, method_call,
                    param_classes, paths, paths_split, returning, short, strip_calls, where)

EXPLANATION = ('Static analysis of the PIT layer classes: zero-on-pruned-channel abstract domain '
               'over forward(), anchor domain (START/END) over the mask constants, def-use '
               'provenance of every mask subscript and constructor argument in export(), '
               'polynomial normal form for the padding amount. Decides structural necessary '
               'conditions of export/forward agreement for all inputs and mask values; does not '
               'decide numerical output equality.')
RULE_TEXT = ('obligation = (rule, class.method, construct) discovered from the parsed tree: each '
             'forward return path, each masker constant, each mask subscript / constructor '
             'argument / padding expression in each export; non-trivial = needed an abstract '
             'evaluation (not a table look-up)')

VIEW_METHODS = {'view', 'reshape', 'unsqueeze', 'expand', 'expand_as', 'float', 'to', 'bool',
                'contiguous', 'type'}


# ---------------------------------------------------------------------------------------
# R01a: zmask
# ---------------------------------------------------------------------------------------
def is_feature_mask_source(t: Term, base: Term = SELF) -> bool:
    """``base._features_mask(discrete=True)`` or ``base.features_mask``."""
    if t[0] == 'attr' and t[1] == base and t[2] == 'features_mask':
        return True
    mc = method_call(t)
    if mc and mc[0] == base and mc[1] == '_features_mask':
        d = arg(t, 0, 'discrete')
        return d == ('const', True)
    return False


def mask_view_axis(t: Term, base: Term = SELF) -> Optional[Tuple[int, int]]:
    """(rank, axis holding the mask) of a view chain over the feature mask, else None."""
    if is_feature_mask_source(t, base):
        return 1, 0
    mc = method_call(t)
    if not mc:
        return None
    inner = mask_view_axis(mc[0], base)
    if inner is None:
        return None
    rank, axis = inner
    m, args = mc[1], mc[2]
    if m == 'unsqueeze' and len(args) == 1 and args[0][0] == 'const':
        k = args[0][1]
        if k < 0:
            k = rank + 1 + k
        return rank + 1, axis + 1 if k <= axis else axis
    if m in ('view', 'reshape'):
        shape = args[0][1] if len(args) == 1 and args[0][0] in ('tuple', 'list') else args
        vals = [a[1] if a[0] == 'const' else None for a in shape]
        if rank == 1 and vals.count(-1) == 1 and all(v in (1, -1) for v in vals):
            return len(vals), vals.index(-1)
        return None
    if m in ('float', 'to', 'bool', 'contiguous', 'type', 'clone'):
        return rank, axis
    return None


class ZMask:
    """Z(t): t is exactly zero on every channel pruned by the output-feature mask."""

    def __init__(self, ctx, fn: FunctionInfo, ranks: Dict[str, int]):
        self.ctx = ctx
        self.fn = fn
        self.ranks = ranks          # weight / act / bias ranks for the layer kind
        self.why: List[str] = []

    def mul_operands(self, t: Term) -> Optional[Tuple[Term, Term]]:
        if is_call(t, 'torch.mul', 'torch.multiply') and len(t[2]) == 2:
            return t[2][0], t[2][1]
        if t[0] == 'bin' and t[1] == '*':
            return t[2], t[3]
        mc = method_call(t)
        if mc and mc[1] in ('mul', 'multiply') and len(mc[2]) == 1:
            return mc[0], mc[2][0]
        return None

    def z(self, t: Term, kind: str) -> bool:
        """kind: 'act' (channel axis 1), 'weight' (axis 0), 'bias' (axis 0 of rank 1)."""
        ops = self.mul_operands(t)
        if ops:
            for a, b in (ops, ops[::-1]):
                mv = mask_view_axis(a)
                if mv is not None:
                    rank, axis = mv
                    orank = self.ranks[kind]
                    want = {'act': 1, 'weight': 0, 'bias': 0}[kind]
                    # right-aligned broadcasting
                    if rank <= orank and axis + (orank - rank) == want:
                        return True
                    self.why.append(f'mask view {show(a)} (rank {rank}, mask axis {axis}) is '
                                    f'not broadcast on the channel axis of the {kind} operand')
                    return False
            if self.z(ops[0], kind) or self.z(ops[1], kind):
                return True
            return False
        if t[0] == 'ifexp':
            if kind == 'bias':
                return all(x == NONE or self.z(x, kind) for x in (t[2], t[3]))
            return self.z(t[2], kind) and self.z(t[3], kind)
        if t[0] == 'phi':
            return all(self.z(x, kind) for x in t[1])
        lin = self.linear_op(t)
        if lin is not None and kind == 'act':
            w, b = lin
            zw = self.z(w, 'weight')
            zb = (b == NONE) or self.z(b, 'bias')
            if not zw:
                self.why.append(f'weight operand {short(w, 80)} is not masked')
            if not zb:
                self.why.append(f'bias operand {short(b, 80)} is not masked')
            return zw and zb
        return False

    @staticmethod
    def linear_op(t: Term) -> Optional[Tuple[Term, Term]]:
        mc = method_call(t)
        if mc and mc[0] == SELF and mc[1] == '_conv_forward' and len(mc[2]) >= 2:
            return mc[2][1], (mc[2][2] if len(mc[2]) > 2 else arg(t, None, 'bias') or NONE)
        c = callee(t)
        if c in ('torch.nn.functional.linear', 'torch.nn.functional.conv1d',
                 'torch.nn.functional.conv2d', 'torch.conv1d', 'torch.conv2d'):
            w = arg(t, 1, 'weight')
            b = arg(t, 2, 'bias')
            return w, (b if b is not None else NONE)
        return None


def layer_kind(ctx, ci: ClassInfo) -> Optional[str]:
    ext = [b.split('.')[-1] for b in ctx.repo.external_bases(ci)]
    for k in ('Conv1d', 'Conv2d', 'Linear', 'BatchNorm1d', 'BatchNorm2d'):
        if k in ext:
            return k
    return None


RANKS = {'Conv1d': {'act': 3, 'weight': 3, 'bias': 1},
         'Conv2d': {'act': 4, 'weight': 4, 'bias': 1},
         'Linear': {'act': 2, 'weight': 2, 'bias': 1}}


def r01a(ctx, classes: List[ClassInfo]):
    n = 0
    for ci in classes:
        fwd = ci.methods.get('forward')
        kind = layer_kind(ctx, ci)
        if fwd is None or kind not in RANKS:
            continue
        if ctx.repo.find_method(ci, '_features_mask') is None:
            continue
        n += 1
        for p in returning(paths(ctx.repo, fwd)):
            zm = ZMask(ctx, fwd, RANKS[kind])
            ok = zm.z(p.retval, 'act')
            conds = ', '.join(f'{show(a)}={v}' for a, v in p.assumptions) or 'always'
            ctx.ob('R01a', f'{ci.name}.forward[{conds}]', ok,
                   'returned value is zero on pruned channels' if ok else
                   'returned value is not exactly zero on pruned output channels: ' +
                   ('; '.join(zm.why) or f'no channel-mask product dominates {short(p.retval)}'),
                   where(fwd, _ret_node(p)))
        # the mask used by forward is the binarised theta of the output-feature masker
        fm = ctx.repo.find_method(ci, '_features_mask')
        for p in returning(paths(ctx.repo, fm, {'discrete': ('const', True)})):
            t = p.retval
            ok = is_call(t, 'PITBinarizer.apply') and len(t[2]) == 2 and \
                t[2][0] == ('attr', ('attr', SELF, 'out_features_masker'), 'theta') and \
                t[2][1] == ('attr', SELF, 'binarization_threshold')
            ctx.ob('R01a', f'{ci.name}._features_mask(discrete=True)', ok,
                   'binarised theta of the output-feature masker at the layer threshold' if ok
                   else f'discrete feature mask is {short(t)}', where(fm))
    ctx.floor('R01a', 'PIT layers with forward', n, 3)


def _ret_node(p):
    for e in reversed(p.events):
        if e.kind == 'return':
            return e.node
    return None


# ---------------------------------------------------------------------------------------
# R01b / R01g: time masks
# ---------------------------------------------------------------------------------------
def time_maskers(ctx) -> Dict[str, List[ClassInfo]]:
    """role ('timestep_masker' / 'dilation_masker') -> masker classes, discovered from the
    constructor annotations of the layer that has a ``_time_mask`` method."""
    out: Dict[str, List[ClassInfo]] = {}
    for ci in pit_layer_classes(ctx.repo):
        tm = ci.methods.get('_time_mask')
        if tm is None:
            continue
        for p in returning(paths(ctx.repo, tm, {'discrete': ('const', True)})):
            for t in subterms(p.retval):
                if t[0] == 'attr' and t[2] == 'theta' and t[1][0] == 'attr' and t[1][1] == SELF:
                    role = t[1][2]
                    for k in attr_classes(ctx.repo, ci, role):
                        for sub in ctx.repo.subclasses(k):
                            out.setdefault(role, [])
                            if sub not in out[role]:
                                out[role].append(sub)
    return out


def r01b(ctx):
    roles = time_maskers(ctx)
    ctx.floor('R01b', 'time-mask roles', len(roles), 2)
    n = 0
    for role, classes in sorted(roles.items()):
        for ci in classes:
            mi = analyse_masker(ctx.repo, ci)
            n += 1
            if mi.error:
                raise AnalysisError(f'R01b: cannot model theta of {ci.name}: {mi.error}')
            if not mi.blend_ok:
                ctx.ob('R01b', f'{ci.name}.theta always-alive tap', False,
                       f'theta is not [C @] (|p|*(1-ka)+ka): {mi.blend_msg} — no tap is certainly '
                       f'alive, so the END anchoring export relies on is lost', where(mi.theta_fn))
                continue
            ok = mi.alive[E] is True
            ctx.ob('R01b', f'{ci.name}.theta always-alive tap', ok,
                   'the END (most recent) tap is alive for every parameter value' if ok else
                   f'the tap that is alive for every parameter value is '
                   f'{"START" if mi.alive[S] else "not determined"}, not the END tap that the '
                   f'other time mask, the normalisation constants and export\'s left padding '
                   f'assume (keep-alive {mi.ka}, C {mi.c})',
                   where(mi.theta_fn), ka=repr(mi.ka), c=repr(mi.c))
    ctx.floor('R01b', 'time maskers', n, 4)


def r01g(ctx):
    n = 0
    for ci in pit_layer_classes(ctx.repo):
        tm = ci.methods.get('_time_mask')
        if tm is None:
            continue
        n += 1
        for p in returning(paths(ctx.repo, tm, {'discrete': ('const', True)})):
            t = p.retval
            zm = ZMask(ctx, tm, RANKS['Conv1d'])
            ops = zm.mul_operands(t)
            thr = ('attr', SELF, 'binarization_threshold')
            want = {('call', ('global', _binarizer(ctx)), (('attr', ('attr', SELF, r), 'theta'), thr), ())
                    for r in ('timestep_masker', 'dilation_masker')}
            ok = ops is not None and set(ops) == want
            ctx.ob('R01g', f'{ci.name}._time_mask(discrete=True)', ok,
                   'product of the binarised beta- and gamma-theta' if ok else
                   f'discrete time mask is {short(t)}', where(tm))
        # forward applies the time mask on the last weight axis (rank-1 mask, right aligned)
        fwd = ci.methods.get('forward')
        for p in returning(paths(ctx.repo, fwd)):
            found = False
            for t in subterms(p.retval):
                zm = ZMask(ctx, fwd, RANKS['Conv1d'])
                ops = zm.mul_operands(t)
                if ops:
                    for a, b in (ops, ops[::-1]):
                        mc = method_call(a)
                        if (mc and mc[0] == SELF and mc[1] == '_time_mask' and
                                arg(a, 0, 'discrete') == ('const', True)) or \
                                a == ('attr', SELF, 'time_mask'):
                            if mentions(b, lambda x: x == ('attr', SELF, 'weight')):
                                found = True
            conds = ', '.join(f'{show(a)}={v}' for a, v in p.assumptions) or 'always'
            ctx.ob('R01g', f'{ci.name}.forward[{conds}] weight*time_mask', found,
                   'the convolution weight is multiplied by the discrete time mask' if found
                   else 'the weight used by forward is not multiplied by the discrete time mask',
                   where(fwd, _ret_node(p)))
    ctx.floor('R01g', 'layers with a time mask', n, 1)


def _binarizer(ctx) -> str:
    return ctx.repo.cls('PITBinarizer').qualname + '.apply'


# ---------------------------------------------------------------------------------------
# export: R01c, R01d, R01e
# ---------------------------------------------------------------------------------------
MASK_KINDS = {
    'cout': lambda sub: ('attr', sub, 'features_mask'),
    'cin': lambda sub: ('attr', ('attr', sub, 'input_features_calculator'), 'features_mask'),
    'time': lambda sub: ('attr', sub, 'time_mask'),
}


def mask_kind(t: Term, sub: Term) -> Optional[str]:
    t = strip_calls(t, {'bool', 'to', 'type', 'clone', 'detach'})
    for k, mk in MASK_KINDS.items():
        if t == mk(sub):
            return k
    return None


def index_of_mask(t: Term, sub: Term) -> Optional[Tuple[str, bool]]:
    """(mask kind, rank-stable) when ``t`` is the tensor of the positions where a layer mask is
    non-zero -- the index form of slicing by that mask: ``nonzero(M)`` made one-dimensional by an
    operation that names the axis it removes (flatten / view(-1) / reshape(-1) / squeeze(1) /
    squeeze(-1) / [:, 0]), ``where(M)[0]``, ``nonzero(M, as_tuple=True)[0]``.  ``squeeze()``
    without an axis is NOT rank-stable: when exactly one element of the mask survives -- the
    keep-alive minimum -- it also removes the axis of length one and the 0-d index drops the
    sliced axis of the weight."""
    t = strip_calls(t, {'long', 'to', 'clone', 'detach', 'contiguous'})

    def nz(x: Term) -> Optional[Tuple[Term, bool]]:
        """(mask term, as_tuple) for nonzero(M) / M.nonzero() / where(M) / argwhere(M)"""
        c = callee(x)
        if x[0] != 'call':
            return None
        kw = dict(x[3])
        if c in ('torch.nonzero', 'torch.argwhere') and x[2]:
            return x[2][0], kw.get('as_tuple') == ('const', True)
        if c == 'torch.where' and len(x[2]) == 1:
            return x[2][0], True
        mc = method_call(x)
        if mc and mc[1] in ('nonzero', 'argwhere') and mc[0][0] != 'global':
            return mc[0], kw.get('as_tuple') == ('const', True)
        return None
    # tuple form: where(M)[0]
    if t[0] == 'sub' and t[2] == ('const', 0):
        r = nz(t[1])
        if r and r[1]:
            k = mask_kind(r[0], sub)
            return (k, True) if k else None
    # matrix form made 1-D
    stable: Optional[bool] = None
    inner = None
    mc = method_call(t)
    c = callee(t) if t[0] == 'call' else None
    if mc and mc[0][0] != 'global':
        recv, name, args, kws = mc
        a0 = args[0] if args else dict(kws).get('dim')
        if name in ('flatten', 'ravel') or (name in ('view', 'reshape') and
                                            args == (('const', -1),)):
            inner, stable = recv, True
        elif name == 'squeeze':
            inner = recv
            stable = a0 in (('const', 1), ('const', -1))
    elif c in ('torch.flatten', 'torch.ravel') and t[2]:
        inner, stable = t[2][0], True
    elif c == 'torch.squeeze' and t[2]:
        a0 = t[2][1] if len(t[2]) > 1 else dict(t[3]).get('dim')
        inner, stable = t[2][0], a0 in (('const', 1), ('const', -1))
    elif t[0] == 'sub' and t[2][0] == 'tuple' and len(t[2][1]) == 2 and \
            t[2][1][0] == ('slice', NONE, NONE, NONE) and t[2][1][1] == ('const', 0):
        inner, stable = t[1], True
    if inner is None:
        return None
    r = nz(inner)
    if r is None or r[1]:
        return None
    k = mask_kind(r[0], sub)
    return (k, bool(stable)) if k else None


def slicing(t: Term, sub: Term) -> Optional[Tuple[Term, Dict[int, str], List[str]]]:
    """Decompose nested boolean-mask subscripts: (base tensor, {axis: mask kind}, problems)."""
    axes: Dict[int, str] = {}
    probs: List[str] = []
    while t[0] == 'sub':
        idx = t[2]
        items = idx[1] if idx[0] == 'tuple' else (idx,)
        for i, it in enumerate(items):
            if it[0] == 'slice':
                if it != ('slice', NONE, NONE, NONE):
                    probs.append(f'partial slice {show(it)} on axis {i}')
                continue
            k = mask_kind(it, sub)
            if k is None:
                im = index_of_mask(it, sub)
                if im is not None:
                    k = im[0]
                    if not im[1]:
                        probs.append(f'axis {i} indexed by {short(it, 60)}: squeeze() without an '
                                     f'axis makes the index 0-dimensional when exactly one '
                                     f'element of the mask survives (the keep-alive minimum), '
                                     f'which drops axis {i} of the sliced tensor')
            if k is None:
                probs.append(f'axis {i} indexed by {short(it, 60)} (not a layer mask)')
            else:
                if i in axes:
                    probs.append(f'axis {i} sliced twice')
                axes[i] = k
        t = t[1]
    return t, axes, probs


def find_export_submodule(ctx, fn: FunctionInfo, ci: ClassInfo) -> Term:
    """The term through which export reads the layer being exported:
    ``mod.get_submodule(str(n.target))``."""
    for p in paths(ctx.repo, fn):
        for e in p.calls():
            t = e.data[0]
            mc = method_call(t)
            if mc and mc[1] == 'get_submodule':
                return t
    raise AnalysisError(f'{fn.qualname}: get_submodule call not found')


def ctor_calls(p, names: Tuple[str, ...]):
    for e in p.calls():
        t = e.data[0]
        c = callee(t)
        if c and c.startswith('torch.nn.') and c.split('.')[-1] in names:
            yield e, t, c.split('.')[-1]


def copy_events(p, target: Term):
    """``<target>.<tensor>.copy_(value)`` calls (cast() already transparent)."""
    for e in p.calls():
        t = e.data[0]
        mc = method_call(t)
        if mc and mc[1] == 'copy_' and len(mc[2]) == 1:
            recv = mc[0]
            if recv[0] == 'attr' and recv[1] == target:
                yield e, recv[2], mc[2][0]


def depthwise_flag(p, sub: Term) -> Optional[bool]:
    """Polarity of the depthwise predicate (groups == in_channels and groups ==
    out_channels on the exported layer) on this path; None if not tested."""
    g = ('attr', sub, 'groups')
    eq_in = ('cmp', '==', g, ('attr', sub, 'in_channels'))
    eq_out = ('cmp', '==', g, ('attr', sub, 'out_channels'))
    eq_in2 = ('cmp', '==', ('attr', sub, 'in_channels'), g)
    eq_out2 = ('cmp', '==', ('attr', sub, 'out_channels'), g)
    vals = {}
    for a, v in p.assumptions:
        if a in (eq_in, eq_in2):
            vals['in'] = v
        if a in (eq_out, eq_out2):
            vals['out'] = v
        if a[0] == 'bool' and a[1] == 'and' and set(a[2]) <= {eq_in, eq_out, eq_in2, eq_out2} \
                and len(a[2]) == 2:
            if v:
                vals['in'] = vals['out'] = True
            else:
                vals['conj_false'] = True
    if vals.get('in') is True and vals.get('out') is True:
        return True
    if vals.get('in') is False or vals.get('out') is False or vals.get('conj_false'):
        return False
    return None


def r01_export(ctx, classes: List[ClassInfo]):
    tf = ctx.torch
    n_exports = 0
    for ci in classes:
        fn = ci.methods.get('export')
        kind = layer_kind(ctx, ci)
        if fn is None or kind is None:
            continue
        n_exports += 1
        sub = find_export_submodule(ctx, fn, ci)
        has = lambda name: ctx.repo.find_getter(ci, name) is not None   # noqa: E731
        is_bn = kind.startswith('BatchNorm')
        ps = [p for p in returning(paths_split(ctx.repo, fn))]     # x = A if c else B ~ if/else
        if not ps:
            raise AnalysisError(f'{fn.qualname}: no returning path')
        checked_ctor = 0
        for p in ps:
            # only paths that pass the type guard (the layer is of the expected class)
            conds = _path_label(p, sub)
            dw = depthwise_flag(p, sub)
            for e, t, cname in ctor_calls(p, ('Conv1d', 'Conv2d', 'Linear', 'BatchNorm1d',
                                               'BatchNorm2d', 'ConstantPad1d')):
                if cname == 'ConstantPad1d':
                    r01e(ctx, ci, fn, p, e, t, sub, conds)
                    continue
                params = tf.init_positional(cname)
                bound = bind_args(t, params)
                fused_bn = cname.startswith('BatchNorm') and not is_bn
                src = ('attr', sub, 'bn') if fused_bn else sub
                for pname, val in bound.items():
                    exp = expected_ctor_arg(ci, cname, pname, sub, src, dw, has, fused_bn)
                    if exp is None:
                        continue
                    ok = val in exp
                    checked_ctor += 1
                    ctx.ob('R01d', f'{ci.name}.export nn.{cname}({pname}=)[{conds}]', ok,
                           f'{pname} <- {short(val, 70)}' if ok else
                           f'argument for {pname} is {short(val, 90)}, expected '
                           f'{" or ".join(short(x, 60) for x in exp)}',
                           where(fn, e.node), nontrivial=pname in (
                               'in_channels', 'out_channels', 'kernel_size', 'dilation', 'groups',
                               'in_features', 'out_features', 'num_features', 'bias'))
                if not cname.startswith('BatchNorm') or is_bn:
                    need = [x for x in params if x not in ('device', 'dtype')]
                    missing = [x for x in need if x not in bound and x not in
                               ('padding_mode', 'eps', 'momentum', 'affine',
                                'track_running_stats', 'bias', 'stride', 'padding', 'dilation',
                                'groups')]
                    ctx.ob('R01d', f'{ci.name}.export nn.{cname} required args[{conds}]',
                           not missing, 'all size arguments passed' if not missing else
                           f'arguments {missing} not passed', where(fn, e.node), nontrivial=False)
            # R01c: what is copied into the new layer
            new_layers = [t for _, t, c in ctor_calls(p, (kind,))]
            if not new_layers:
                continue
            new = new_layers[-1] if is_bn else new_layers[0]
            copies = {}
            for e, tensor_name, val in copy_events(p, new):
                copies[tensor_name] = (e, val)
            expect = expected_slices(kind, dw)
            for tensor_name, want in expect.items():
                if tensor_name not in copies:
                    # bias copy is legitimately absent on the bias-free path
                    absent_ok = tensor_name == 'bias' and not is_bn and \
                        _assumed(p, ('isnone', ('attr', sub, 'bias')), True)
                    absent_ok = absent_ok or (tensor_name in ('running_mean', 'running_var') and
                                              _assumed(p, ('isnone', ('attr', sub, tensor_name)),
                                                       True))
                    ctx.ob('R01c', f'{ci.name}.export copy {tensor_name}[{conds}]', absent_ok,
                           f'{tensor_name} legitimately absent on this path' if absent_ok else
                           f'the new layer\'s {tensor_name} is never initialised from the '
                           f'searched layer on this path', where(fn), nontrivial=not absent_ok)
                    continue
                e, val = copies[tensor_name]
                base, axes, probs = slicing(val, sub)
                ok = base == ('attr', sub, tensor_name) and axes == want and not probs
                ctx.ob('R01c', f'{ci.name}.export copy {tensor_name}[{conds}]', ok,
                       f'{tensor_name} sliced by {axes}' if ok else
                       f'{tensor_name} is initialised from {short(base, 50)} sliced by '
                       f'{axes or "nothing"}{"; " + "; ".join(probs) if probs else ""}, '
                       f'expected {("attr", "submodule", tensor_name)[2]} sliced by {want}',
                       where(fn, e.node))
        ctx.count(f'R01d:{ci.name}.export ctor args checked', checked_ctor)
    ctx.floor('R01c/d', 'export functions', n_exports, 5)


def _assumed(p, atom, val) -> bool:
    return any(a == atom and v == val for a, v in p.assumptions)


def _path_label(p, sub) -> str:
    parts = []
    for a, v in p.assumptions:
        s = show(a)
        if 'get_submodule' in s:
            s = s.replace(show(sub), 'submodule')
        if 'type(' in s:
            continue
        parts.append(f'{s}={v}')
    s = ', '.join(parts) or 'always'
    return s if len(s) < 200 else s[:200] + '…'


def expected_ctor_arg(ci, cname, pname, sub, src, dw, has, fused_bn) -> Optional[List[Term]]:
    a = lambda n, b=sub: ('attr', b, n)    # noqa: E731
    if cname.startswith('BatchNorm'):
        if pname == 'num_features':
            return [a('out_features_opt')]
        if pname in ('eps', 'momentum', 'affine', 'track_running_stats'):
            return [a(pname, src)]
        return None
    if pname in ('in_channels', 'in_features'):
        return [a('in_features_opt')]
    if pname in ('out_channels', 'out_features'):
        return [a('out_features_opt')]
    if pname == 'kernel_size':
        return [a('kernel_size_opt')] if has('kernel_size_opt') else [a('kernel_size')]
    if pname == 'dilation':
        return [a('dilation_opt')] if has('dilation_opt') else [a('dilation')]
    if pname == 'groups':
        if dw is True:
            return [a('in_features_opt'), a('out_features_opt')]
        if dw is False:
            return [a('groups')]
        return [a('groups')]
    if pname == 'bias':
        return [('un', 'not', ('cmp', 'is', a('bias'), NONE)),
                ('cmp', 'is not', a('bias'), NONE)]
    if pname in ('stride', 'padding', 'padding_mode'):
        return [a(pname)]
    return None


def expected_slices(kind: str, dw: Optional[bool]) -> Dict[str, Dict[int, str]]:
    if kind == 'Conv1d':
        w = {0: 'cout', 2: 'time'}
        if dw is not True:
            w[1] = 'cin'
        return {'weight': w, 'bias': {0: 'cout'}}
    if kind == 'Conv2d':
        w = {0: 'cout'}
        if dw is not True:
            w[1] = 'cin'
        return {'weight': w, 'bias': {0: 'cout'}}
    if kind == 'Linear':
        return {'weight': {0: 'cout', 1: 'cin'}, 'bias': {0: 'cout'}}
    # BatchNorm: every per-channel tensor by the input-feature mask
    return {k: {0: 'cin'} for k in ('weight', 'bias', 'running_mean', 'running_var')}


def r01e(ctx, ci, fn, p, e, t, sub, conds):
    pad = arg(t, 0, 'padding')
    val = arg(t, 1, 'value')
    k = ('sub', ('attr', sub, 'kernel_size_opt'), ('const', 0))
    d = ('sub', ('attr', sub, 'dilation_opt'), ('const', 0))
    want = ('bin', '*', ('bin', '-', k, ('const', 1)), d)
    ok = pad is not None and pad[0] in ('tuple', 'list') and len(pad[1]) == 2 and \
        poly.equal(pad[1][0], want) and pad[1][1] == ('const', 0)
    ctx.ob('R01e', f'{ci.name}.export ConstantPad1d padding[{conds}]', ok,
           'left pad == (kernel_size_opt-1)*dilation_opt, right pad 0' if ok else
           f'padding is {short(pad) if pad else "missing"}; expected '
           f'((kernel_size_opt[0]-1)*dilation_opt[0], 0): causal left padding by the exported '
           f'receptive field', where(fn, e.node))
    okv = val is not None and val[0] == 'const' and val[1] == 0
    ctx.ob('R01e', f'{ci.name}.export ConstantPad1d value[{conds}]', okv,
           'pad value 0' if okv else f'pad value is {short(val) if val else "missing"}',
           where(fn, e.node), nontrivial=False)
    # the pad is installed either over an existing ConstantPad1d input or before the layer
    installs = [ev for ev in p.calls() if method_call(ev.data[0]) and
                method_call(ev.data[0])[1] == 'add_submodule' and
                len(method_call(ev.data[0])[2]) == 2 and method_call(ev.data[0])[2][1] == t]
    # the adjustment applies to every spelling of "no padding" the layer can hold: the torch
    # constructor normalises padding=0 to the tuple (0,) (string modes are kept)
    for a, pol in p.assumptions:
        if pol and a[0] == 'cmp' and a[1] == 'in' and a[2] == ('attr', sub, 'padding') and \
                a[3][0] in ('tuple', 'list', 'set'):
            has_tuple0 = ('tuple', (('const', 0),)) in a[3][1] or ('const', (0,)) in a[3][1]
            has_valid = ('const', 'valid') in a[3][1]
            ctx.ob('R01e', f'{ci.name}.export pad adjustment covers unpadded layers[{conds}]',
                   has_tuple0 and has_valid,
                   "padding in (..., (0,), 'valid')" if has_tuple0 and has_valid else
                   f'the causal-padding adjustment is guarded by padding in {short(a[3], 60)}: '
                   f'nn.Conv1d stores padding=0 as (0,) and "valid" as a string, so an unpadded '
                   f'layer whose receptive field was pruned is exported without the left pad '
                   f'that keeps its output aligned', where(fn, e.node))
    ctx.ob('R01e', f'{ci.name}.export ConstantPad1d installed[{conds}]', bool(installs),
           'the new padding module is installed in the exported graph' if installs else
           'the new padding module is created but never installed (add_submodule) on this path',
           where(fn, e.node))


# ---------------------------------------------------------------------------------------
# R01f: exported hyper-parameters derive from the masks forward applies
# ---------------------------------------------------------------------------------------
def r01f(ctx, classes: List[ClassInfo]):
    n = 0
    for ci in classes:
        inl = Inliner(ctx.repo, {SELF: ci}, depth=4,
                      only={'features_mask', 'time_mask', '_features_mask', '_time_mask'})
        specs = {
            'out_features_opt': lambda t: mentions(t, lambda x: is_feature_mask_source(x)),
            'in_features_opt': lambda t: mentions(
                t, lambda x: x == ('attr', ('attr', SELF, 'input_features_calculator'),
                                   'features_mask')),
            'kernel_size_opt': lambda t: mentions(
                t, lambda x: x == ('attr', SELF, 'time_mask') or
                (method_call(x) and method_call(x)[0] == SELF and method_call(x)[1] == '_time_mask'
                 and arg(x, 0, 'discrete') == ('const', True))),
        }
        for name, pred in specs.items():
            g = ctx.repo.find_getter(ci, name)      # own or inherited (shared base getter)
            if g is None or not returning(paths(ctx.repo, g)):
                continue
            n += 1
            for p in returning(paths(ctx.repo, g)):
                t = p.retval
                # a sum (count of alive elements) of the mask
                is_sum = mentions(t, lambda x: is_call(x, 'torch.sum') or
                                  (method_call(x) and method_call(x)[1] == 'sum'))
                ok = pred(t) and is_sum
                if name == 'out_features_opt' and t == ('attr', SELF, 'in_features_opt'):
                    ok = True       # BatchNorm: width preserved
                ctx.ob('R01f', f'{ci.name}.{name}', ok,
                       'count of alive elements of the corresponding discrete mask' if ok else
                       f'{name} is {short(t)}: not the element count of the discrete mask that '
                       f'forward/export use', where(g))
        g = ctx.repo.find_getter(ci, 'dilation_opt')
        if g is not None and returning(paths(ctx.repo, g)):
            n += 1
            for p in returning(paths(ctx.repo, g)):
                t = p.retval
                thr = ('attr', SELF, 'binarization_threshold')
                src = ('call', ('global', _binarizer(ctx)),
                       (('attr', ('attr', SELF, 'dilation_masker'), 'theta'), thr), ())
                uses_bin = mentions(t, lambda x: x == src)
                uses_orig = mentions(t, lambda x: x == ('attr', SELF, 'dilation'))
                groups0 = mentions(t, lambda x: x[0] == 'cmp' and x[1] == '==' and
                                   ('const', 0) in (x[2], x[3]))
                plus1 = mentions(t, lambda x: x[0] == 'bin' and x[1] == '+' and
                                 ('const', 1) in (x[2], x[3]))
                ok = uses_bin and uses_orig and groups0 and plus1
                ctx.ob('R01f', f'{ci.name}.dilation_opt', ok,
                       '(longest run of pruned taps in the binarised gamma theta + 1) x original '
                       'dilation' if ok else
                       f'dilation_opt = {short(t, 200)} lacks: ' + ', '.join(
                           m for m, f in (('binarised dilation_masker.theta at the layer '
                                           'threshold', uses_bin),
                                          ('factor self.dilation (original dilation)', uses_orig),
                                          ('zero-run test (== 0)', groups0), ('+ 1', plus1))
                           if not f), where(g))
    ctx.floor('R01f', 'exported hyper-parameter getters', n, 10)


def export_call_sites_rule(ctx, rule: str):
    """A searchable layer invoked at several call sites (weight sharing, multi-input forward):
    each layer's export() is interpreted (finite interpreter, tensors and torch modules opaque)
    on an fx graph in which the layer's module is called at two sites; the BatchNorm it
    re-creates must be inserted after EVERY call site, otherwise the exported network
    normalises one branch and not the other."""
    from ..mini import Mini, Obj, Raised, Token, Unsupported
    repo = ctx.repo

    class Opq:
        """opaque tensor / torch object"""
        def __getitem__(self, k):
            return Opq()

        def __iter__(self):
            return iter(())

        def __bool__(self):
            return True
    n_cls = 0
    for ci in pit_layer_classes(repo):
        exp = ci.methods.get('export')
        fwd = ci.methods.get('forward')
        if exp is None or fwd is None or not any(
                e.kind == 'call' and e.data[0][1] == ('attr', SELF, 'bn')
                for p in paths(repo, fwd) for e in p.events):
            continue
        sub = Obj('Layer')
        sub.attrs.update({'bn': Opq(), 'fold_bn': False, 'padding': 'same', 'bias': Opq()})
        created = []

        def mk_node(name, op, target, args):
            o = Obj('Node')
            o.attrs.update({'name': name, 'op': op, 'target': target, 'args': args,
                            'all_input_nodes': [a for a in args if isinstance(a, Obj)],
                            'meta': {}})
            return o
        a, b = mk_node('a', 'placeholder', 'a', ()), mk_node('b', 'placeholder', 'b', ())
        s1 = mk_node('enc', 'call_module', 'enc', (a,))
        s2 = mk_node('enc_1', 'call_module', 'enc', (b,))
        out = mk_node('output', 'output', 'output', ((s1, s2),))
        graph = Obj('Graph')
        graph.attrs['nodes'] = [a, b, s1, s2, out]
        mod = Obj('GraphModule')
        mod.attrs['graph'] = graph

        class _X(Mini):
            def expr(self, e, env):
                if isinstance(e, ast.Subscript):
                    o = self.expr(e.value, env)
                    if isinstance(o, Opq):
                        return Opq()
                    if isinstance(e.slice, ast.Slice) or not isinstance(o, (tuple, list, dict,
                                                                            str)):
                        return super().expr(e, env)
                    k = self.expr(e.slice, env)
                    if isinstance(k, Opq):
                        return Opq()
                    return o[k]
                if isinstance(e, ast.BinOp):
                    l, r = self.expr(e.left, env), self.expr(e.right, env)
                    if isinstance(l, Opq) or isinstance(r, Opq):
                        return Opq()
                    return self.binop(e.op, l, r)
                if isinstance(e, ast.Attribute):
                    o = self.expr(e.value, env)
                    if isinstance(o, Obj):
                        if e.attr in o.attrs:
                            return o.attrs[e.attr]
                        if o.cls_name in ('Layer', 'pkg'):
                            return Opq()
                        return ('boundmethod', o, e.attr)
                    if isinstance(o, Opq):
                        return Opq()
                    return ('boundmethod', o, e.attr)
                return super().expr(e, env)

            def truth(self, v):
                if isinstance(v, tuple) and len(v) == 3 and v[0] == 'boundmethod' and \
                        isinstance(v[1], Opq):
                    return True
                return super().truth(v)

            def compare(self, op, x, y):
                if isinstance(x, (Opq, tuple)) and isinstance(op, (ast.Eq, ast.NotEq)) and \
                        (isinstance(x, Opq) or (len(x) == 3 and x[0] == 'boundmethod')):
                    return isinstance(op, ast.NotEq)
                return super().compare(op, x, y)

            def builtin(self, name, args, kwargs, node_):
                if name == 'type':
                    return args[0].attrs.get('_cls') if isinstance(args[0], Obj) else Opq()
                if name == 'str':
                    return args[0] if isinstance(args[0], str) else repr(args[0])
                if name == 'isinstance':
                    return False
                if name in ('int', 'sum', 'len', 'tuple', 'list') and any(
                        isinstance(x, (Opq, tuple)) and not isinstance(x, (list, str))
                        for x in args[:1]):
                    return Opq() if name not in ('tuple', 'list') else ()
                return super().builtin(name, args, kwargs, node_)

            def apply(self, f, args, kwargs, node_):
                if isinstance(f, Opq):
                    return Opq()
                return super().apply(f, args, kwargs, node_)

            def method(self, o, name, args, kwargs, node_):
                if isinstance(o, Opq):
                    return Opq()
                if isinstance(o, Obj) and o.cls_name == 'GraphModule':
                    if name == 'get_submodule':
                        return sub if args[0] == 'enc' else Opq()
                    if name in ('add_submodule', 'delete_all_unused_submodules'):
                        return None
                if isinstance(o, Obj) and o.cls_name == 'Graph':
                    if name in ('inserting_after', 'inserting_before'):
                        return Opq()
                    if name == 'call_module':
                        tgt = args[0] if args else kwargs.get('module_name')
                        ar = kwargs.get('args', args[1] if len(args) > 1 else ())
                        nn_ = mk_node(str(tgt), 'call_module', tgt, tuple(ar))
                        created.append(nn_)
                        return nn_
                    if name in ('erase_node', 'lint'):
                        return None
                if isinstance(o, Obj) and o.cls_name == 'Node' and name in (
                        'replace_all_uses_with', 'replace_input_with'):
                    return None
                if isinstance(o, str):
                    return getattr(o, name)(*args)
                return super().method(o, name, args, kwargs, node_)
        pk = Obj('pkg')
        glob = {'torch': pk, 'nn': pk, 'fx': pk, 'cast': Token('cast', lambda _t, v: v)}
        # the class object: helper (static) methods are callable on it; module-level helpers of
        # the layer's module and of the modules it imports from its package are callable too
        CLS = Obj('ClassObj')
        for mname, mfn in ci.methods.items():
            if mname != 'export':
                CLS.attrs[mname] = Token('m:' + mname, lambda *a_, _n=mfn.node:
                                         _X(glob).call_function(_n, list(a_)))
        sub.attrs['_cls'] = CLS
        glob[ci.name] = CLS
        pkg_prefix = ci.module.name.rsplit('.', 1)[0]
        for q, f_ in repo.functions.items():
            if f_.cls is None and f_.module.name.startswith(pkg_prefix) and f_.name not in glob:
                glob[f_.name] = Token('fn:' + f_.name, lambda *a_, _n=f_.node, **k_:
                                      _X(glob).call_function(_n, list(a_), k_))
        try:
            _X(glob).call_function(exp.node, [s1, mod])
        except (Unsupported, Raised) as ex:
            raise AnalysisError(f'{rule}: {ci.name}.export is outside the interpreted subset: {ex}')
        n_cls += 1
        bn_sites = [c.attrs['args'][0] for c in created
                    if str(c.attrs['target']).endswith('_bn') and c.attrs['args']]
        covered = {id(x) for x in bn_sites if isinstance(x, Obj)}
        ok = covered == {id(s1), id(s2)}
        ctx.ob(rule, f'{ci.name}.export re-creates the BatchNorm at every call site', ok,
               'one BatchNorm node after each of the two call sites' if ok else
               f'the layer\'s module is called at two sites but the re-created BatchNorm is '
               f'inserted after {len(covered)} of them (the node export() was called for): the '
               f'other call site of a weight-shared layer loses its normalisation, so the '
               f'exported network does not compute what the searched one does', where(exp))
    ctx.floor(rule, 'layer classes with a trailing BatchNorm', n_cls, 3)


def pad_guard_rule(ctx, rule: str):
    """The causal-padding adjustment of an exported Conv1d is decided by the layer's padding MODE
    only: it must also run when the searched receptive field leaves one tap (pad amount 0),
    because the explicit ConstantPad1d in front of the layer then has to shrink to 0 -- a guard
    on the searched kernel size / dilation / pad amount skips exactly the minimal-mask case and
    the exported network returns longer sequences than the model it was searched from."""
    repo = ctx.repo
    n = 0
    for ci in pit_layer_classes(repo):
        exp = ci.methods.get('export')
        if exp is None or layer_kind(ctx, ci) != 'Conv1d':
            continue
        sub = find_export_submodule(ctx, exp, ci)
        bad = None
        for p in returning(paths(repo, exp)):
            for e in p.calls():
                if not (callee(e.data[0]) or '').endswith('ConstantPad1d'):
                    continue
                n += 1
                for a, v in path_guards(p, e):
                    if mentions(a, lambda x: x[0] == 'attr' and x[1] == sub and
                                x[2] in ('kernel_size_opt', 'dilation_opt', 'time_mask')):
                        bad = (a, v, e.node)
        ctx.ob(rule, f'{ci.name}.export adjusts the padding for every searched kernel size',
               bad is None,
               'the adjustment depends on the padding mode only' if bad is None else
               f'the new padding is only created when {short(bad[0], 90)} is {bad[1]}: with the '
               f'receptive field pruned to one tap the pad amount is 0, the adjustment is skipped '
               f'and an explicit ConstantPad1d in front of the layer keeps its old width next to '
               f'a one-tap convolution', where(exp, bad[2]) if bad else where(exp))
    ctx.floor(rule, 'ConstantPad1d creation paths', n, 1)


def r01j(ctx, classes: List[ClassInfo]):
    """The BatchNorm after a searchable layer: export re-creates it in exactly the
    configurations (fold_bn x bn present) in which forward applies ``self.bn``."""
    repo = ctx.repo
    n = 0
    for ci in classes:
        fwd, exp = ci.methods.get('forward'), ci.methods.get('export')
        if fwd is None or exp is None:
            continue
        sub = find_export_submodule(ctx, exp, ci)

        def worlds(fn, obj, applies):
            out = set()
            seen_any = False
            for p in returning(paths(repo, fn)):
                hit = any(applies(e) for e in p.events if e.kind == 'call')
                seen_any = seen_any or hit
                fold = bn_none = None
                for a, pol in p.assumptions:
                    if a == ('attr', obj, 'fold_bn'):
                        fold = pol
                    if a == ('isnone', ('attr', obj, 'bn')):
                        bn_none = pol
                if hit:
                    for f in ((fold,) if fold is not None else (True, False)):
                        for b in ((bn_none,) if bn_none is not None else (True, False)):
                            out.add((f, b))
            return out, seen_any
        wf, any_f = worlds(fwd, SELF, lambda e: e.data[0][1] == ('attr', SELF, 'bn'))
        if not any_f:
            continue        # the layer kind has no trailing BatchNorm
        we, _ = worlds(exp, sub, lambda e: (callee(e.data[0]) or '').startswith(
            'torch.nn.BatchNorm') or (callee(e.data[0]) or '').startswith(
            'torch.nn.modules.batchnorm.BatchNorm'))
        n += 1
        # bn is None admits no BatchNorm on either side: compare the worlds with a bn present
        wf2 = {w for w in wf if w[1] is not True}
        we2 = {w for w in we if w[1] is not True}
        ok = wf2 == we2

        def fmt(ws):
            return sorted(f'fold_bn={f}' for f, _b in ws) or ['never']
        ctx.ob('R01j', f'{ci.name}.export re-creates the BatchNorm when forward applies it', ok,
               f'both with a BatchNorm present and {fmt(wf2)}' if ok else
               f'forward applies self.bn for {fmt(wf2)} but export creates a BatchNorm for '
               f'{fmt(we2)}: the exported network lacks (or duplicates) the normalisation the '
               f'searched network computes', where(exp))
    ctx.floor('R01j', 'layer classes with a trailing BatchNorm', n, 3)


def run(ctx):
    from .c09 import r09f
    r09f(ctx, 'R01i')       # depthwise: graph classification agrees with export
    classes = pit_layer_classes(ctx.repo)
    ctx.floor('C01', 'PITModule subclasses', len(classes), 5)
    r01a(ctx, classes)
    r01b(ctx)
    r01g(ctx)
    r01_export(ctx, classes)
    r01f(ctx, classes)
    r01j(ctx, classes)
    pad_guard_rule(ctx, 'R01e')
    export_call_sites_rule(ctx, 'R01l')
    # R01h: masks line up across flatten / concat boundaries (shared with C09 R09c)
    from . import c09
    before = len(ctx.obligations)
    c09.r09c(ctx)
    for o in ctx.obligations[before:]:
        o.rule = 'R01h'
    # R01k: width sharing agrees with width derivation (shared with C09 R09e): a width-following
    # op cut out of its group leaves the layer that feeds the network output with a trainable
    # mask, and export removes output channels
    before = len(ctx.obligations)
    c09.r09e(ctx)
    from . import c08
    c08.r08f(ctx)       # output-tied widths are frozen, on graph worlds
    for o in ctx.obligations[before:]:
        o.rule = 'R01k'
    ctx.assume('torch semantics: boolean-mask indexing on one axis keeps the other axes; '
               'broadcasting is right-aligned; weight axes are (out, in/groups, *kernel) for '
               'convolutions and (out, in) for Linear')
    ctx.assume('axis lengths > 1 when distinguishing START from END (for length 1 they coincide)')


MANIFEST = {
    'text': 'Structural necessary conditions of "export computes what the masked network '
            'computes", decided for every input, weight and mask value at once: pruned channels '
            'are exactly zero in forward (zmask domain, incl. bias and broadcast axis), the '
            'always-alive tap of both time masks is the END tap (anchor domain, symbolic kernel '
            'size), every mask subscript in export sits on the axis whose role it prunes, every '
            'constructor argument is the searched counterpart of its torch parameter, the '
            'causal pad equals (k_opt-1)*d_opt. Output equality itself is not decided.',
    'note': 'Assumes torch broadcasting/indexing semantics and the torch constructor signatures '
            'parsed from torch source; lengths > 1 for START/END; BatchNorm statistics '
            'transplant and floating-point round-off are outside the analysis.',
    'technique': 'abstract interpretation (zero-on-pruned and START/END anchor domains) + def-use '
                 'provenance of subscripts/constructor slots + polynomial normal form',
}
