"""C06 — SuperNet cost is the coefficient-weighted mix of branch costs (structural clauses).

 R06a index agreement: in SuperNetCombiner.get_cost the cost accumulated for branch i
      iterates ``_unique_leaf_modules[i]`` and is weighted by ``theta_alpha[i]`` with the same
      i over ``range(n_branches)``; forward weights ``layers_outputs[i]`` by the same
      attribute with the same index ("what is charged is what is evaluated").
 R06b who fills the branch lists: set_sn_branch(i, uniquified leaf list of branch i) for every
      i < n_branches, branch i being the path component after 'sn_branches'; the combiner is
      the ``sn_combiner`` sibling of that ``sn_branches`` list.
 R06c no double counting: at top level, layers inside a branch are charged only through
      their combiner; fixed layers only under full_cost.
 Convexity ("between cheapest and most expensive") follows from R06a and C10's R10b
 (theta_alpha is a probability vector) and is stated as a derived obligation.
"""
from __future__ import annotations

from ..model import AnalysisError
from ..sym import NONE, Term, mentions, show, subterms
from ..util import (SELF, arg, callee, guards_of, is_call, method_call, paths, prior_assumes, returning, short,
                    where)
from . import c10

EXPLANATION = ('Def-use/index agreement analysis of SuperNetCombiner.get_cost and forward, of the '
               'pass that links combiners to their branches, and of the top-level cost loop; the '
               'probability-vector clause is imported from the C10 analysis. Equality with the '
               'cost of the exported network is not computed.')
RULE_TEXT = 'obligation = one clause about get_cost / forward / link_combiners_to_branches / ' \
            '_get_single_cost, per path'


def memo_rule(ctx, rule: str, label: str, fn, i_spec: int, i_map: int):
    """A cost routine that receives (cost_spec, cost_fn_map) may keep state on self between
    calls only if the state is keyed by what it was computed from: every attribute / entry it
    writes AND reads back (in its result or in a branch condition) must be stored under a key
    that mentions the specification or the function map; otherwise the value computed for the
    first metric is returned for the second one."""
    repo = ctx.repo
    spec_params = {('param', fn.params[i_spec]), ('param', fn.params[i_map])}
    caches = {}
    for p in returning(paths(repo, fn)):
        for e in p.events:
            if e.kind == 'setitem' and e.data[0][0] == 'attr' and e.data[0][1] == SELF:
                caches.setdefault(e.data[0][2], []).append((e.data[1], e))
            if e.kind == 'setattr' and e.data[0] == SELF:
                caches.setdefault(e.data[1], []).append((None, e))
    read_back = {}
    for p in returning(paths(repo, fn)):
        terms = [p.retval] + [a for a, _ in p.assumptions] + \
            [e.data[0] for e in p.events if e.kind == 'assume']
        for name in caches:
            if any(mentions(t, lambda x, name=name: x == ('attr', SELF, name)) for t in terms):
                read_back[name] = True
    for name, items in sorted(caches.items()):
        if name not in read_back:
            continue
        def opaque(t):
            # a loop variable does not carry the identity of the collection it ranges over
            if isinstance(t, tuple):
                if t and t[0] == 'elem':
                    return ('elem',)
                return tuple(opaque(x) for x in t)
            return t
        keyed = all(k is not None and mentions(opaque(k), lambda x: x in spec_params or
                                               (is_call(x, 'builtins.id') and x[2] and
                                                x[2][0] in spec_params)) for k, _ in items)
        ctx.ob(rule, f'{label} memoised state {name}', keyed,
               f'{name} is keyed by the cost specification' if keyed else
               f'{label} stores values computed from its cost functions in self.{name} keyed by '
               f'{[short(k, 40) if k else "nothing" for k, _ in items][:2]} and reads them back: '
               f'the key does not identify the cost specification / function map, so the second '
               f'metric evaluated on the same model is charged with values computed for the '
               f'first one', where(fn, items[0][1].node))
    if not any(n in read_back for n in caches):
        ctx.ob(rule, f'{label} keeps no state between metrics', True,
               'the cost is recomputed from the function map it is given', where(fn),
               nontrivial=False)


def run(ctx):
    repo = ctx.repo
    comb = repo.cls('SuperNetCombiner')
    gc = comb.methods['get_cost']
    fwd = comb.methods['forward']
    # R06a
    KEEP = ('shapes_dict', 'uniquify_leaf_modules', 'sample_alpha')
    # both loops executed: two statement loops, or the outer loop around an inner sum over a
    # comprehension / generator
    full = [p for p in returning(paths(repo, gc, keep=KEEP))
            if sum(1 for e in p.events if e.kind == 'loopend') >= 2 or
            (any(e.kind == 'loopend' for e in p.events) and p.retval is not None and
             mentions(p.retval, lambda y: y[0] == 'comp'))]
    if not full:
        raise AnalysisError('SuperNetCombiner.get_cost: nested loop path not found')
    for p in full:
        t = p.retval
        rng = [x for x in subterms(t) if x[0] == 'elem' and is_call(x[1], 'builtins.range')]
        ok_rng = bool(rng) and rng[0][1][2] == (('attr', SELF, 'n_branches'),)
        i = rng[0] if rng else None
        theta = ('sub', ('attr', SELF, 'theta_alpha'), i)
        leafs = ('sub', ('attr', SELF, '_unique_leaf_modules'), i)
        # weight * (sum of cost_fn over the leaf list of the same i)
        prods = [x for x in subterms(t) if x[0] == 'bin' and x[1] == '*' and theta in (x[2], x[3])]
        ok = ok_rng and bool(prods)
        if ok:
            other = prods[0][2] if prods[0][3] == theta else prods[0][3]
            # a memoised branch cost: judge the value that was stored under the same index
            if other[0] == 'sub' and other[1][0] == 'attr' and other[1][1] == SELF and \
                    other[2] == i:
                stored = [e.data[2] for q in returning(paths(repo, gc, keep=KEEP)) for e in q.events
                          if e.kind == 'setitem' and e.data[0] == other[1] and e.data[1] == i]
                if stored:
                    other = max(stored, key=lambda v: len(show(v)))
            calls = [x for x in subterms(other) if x[0] == 'call' and x[1][0] == 'sub' and
                     x[1][1] == ('param', gc.params[2])]
            ok = bool(calls) and all(
                mentions(c, lambda y: y[0] == 'elem' and y[1] == leafs) for c in calls)
        ctx.ob('R06a', 'SuperNetCombiner.get_cost index agreement', ok,
               'sum over _unique_leaf_modules[i] weighted by theta_alpha[i], i in '
               'range(n_branches)' if ok else
               f'cost is {short(t, 260)}: the cost of branch i must be the sum over '
               f'_unique_leaf_modules[i] times theta_alpha[i] with the same i over '
               f'range(self.n_branches)', where(gc))
        # accumulated additively from zero
        zero_start = mentions(t, lambda y: is_call(y, 'torch.tensor') and y[2] and
                              y[2][0] == ('const', 0))
        ctx.ob('R06a', 'SuperNetCombiner.get_cost accumulates from zero', zero_start,
               'starts from 0', where(gc), nontrivial=False)
    # R06e: no value computed for one metric may be re-used for another
    memo_rule(ctx, 'R06e', 'SuperNetCombiner.get_cost', gc, 1, 2)
    sgc = repo.cls('SuperNet').methods['_get_single_cost']
    memo_rule(ctx, 'R06e', 'SuperNet._get_single_cost', sgc, 1, 2)
    # "under hard selection the cost equals the metric of the exported network": the exported
    # network is the selected one (the export rules of C03, as a premise)
    from . import c03
    before = len(ctx.obligations)
    c03.run(ctx)
    for o in ctx.obligations[before:]:
        o.rule = 'R06i'
    # ... and "hard selection" is what the user asked for: the hard / gumbel options given to a
    # choice block reach its combiner unchanged (and those set later through
    # update_softmax_options reach it slot by slot) -- the forwarding rules of C10
    from .c10 import ctor_option_passthrough, r10d
    ctor_option_passthrough(ctx, 'R06j')
    before = len(ctx.obligations)
    r10d(ctx)
    for o in ctx.obligations[before:]:
        o.rule = 'R06j'
    from .c04 import accumulation_rule, leaf_lists_rule, lookup_key_rule, uniquify_rule
    uniquify_rule(ctx, 'R06g')
    lookup_key_rule(ctx, 'R06h', 'SuperNet')
    # the lookup answers with the function of the pattern the layer satisfies (C15's rules on
    # the built-in constraints, shared)
    from . import c15
    before = len(ctx.obligations)
    c15.r15d(ctx)
    c15.r15f(ctx)
    for o in ctx.obligations[before:]:
        o.rule = 'R06k'
    leaf_lists_rule(ctx, 'R06g', 'SuperNet')
    accumulation_rule(ctx, 'R06f', 'SuperNet._get_single_cost', sgc)
    from .c04 import call_site_rule
    call_site_rule(ctx, 'R06f', 'SuperNet._get_single_cost', sgc)
    accumulation_rule(ctx, 'R06f', 'SuperNetCombiner.get_cost', gc, keep=KEEP)
    for p in returning(paths(repo, fwd)):
        if any(e.kind == 'loop0' for e in p.events):
            continue
        t = p.retval
        en = [x for x in subterms(t) if x[0] == 'elem' and is_call(x[1], 'builtins.enumerate')
              and x[1][2] == (('param', fwd.params[1]),)]
        ok = False
        if en:
            el = en[0]
            want = {('sub', ('attr', SELF, 'theta_alpha'), ('sub', el, ('const', 0))),
                    ('sub', el, ('const', 1))}
            ok = mentions(t, lambda y: y[0] == 'bin' and y[1] == '*' and {y[2], y[3]} == want) \
                and method_call(t) is not None and method_call(t)[1] == 'sum'
        samp = any(method_call(e.data[0]) and method_call(e.data[0])[0] == SELF and
                   method_call(e.data[0])[1] == 'sample_alpha' for e in p.calls())
        ctx.ob('R06a', 'SuperNetCombiner.forward weights outputs by theta_alpha[i]', ok and samp,
               'sum_i theta_alpha[i] * output_i after sampling' if ok and samp else
               f'forward is {short(t)} (sampling first: {samp}): what is evaluated is not the '
               f'mix that is charged', where(fwd))
    # R06b
    lk = repo.fn('link_combiners_to_branches')
    setb = comb.methods['set_sn_branch']
    ok_set = any(e.kind == 'setitem' and e.data[0] == ('attr', SELF, '_unique_leaf_modules') and
                 e.data[1] == ('param', setb.params[1]) and e.data[2] == ('param', setb.params[2])
                 for p in returning(paths(repo, setb)) for e in p.events)
    ctx.ob('R06b', 'SuperNetCombiner.set_sn_branch stores list i at index i', ok_set,
           '_unique_leaf_modules[i] = ulf' if ok_set else
           'set_sn_branch does not store its list at the given index', where(setb))
    found = False
    for p in returning(paths(repo, lk)):
        for e in p.calls():
            mc = method_call(e.data[0])
            if not (mc and mc[1] == 'set_sn_branch'):
                continue
            found = True
            i, ulf = mc[2]
            cm = mc[0]
            ok_i = i[0] == 'elem' and is_call(i[1], 'builtins.range') and \
                i[1][2] == (('attr', cm, 'n_branches'),)
            ok_u = is_call(ulf, 'uniquify_leaf_modules') and ulf[2][0][0] == 'sub' and \
                ulf[2][0][2] == i
            ok_c = method_call(cm) is not None and method_call(cm)[1] == 'get_submodule' and \
                mentions(cm, lambda y: y == ('const', '.sn_combiner'))
            # the per-branch lists are those collected under the name the combiner is looked up
            # with:  D[name][i] with name in the combiner path, or  for name, lists in D.items()
            key = None
            if ok_u and ulf[2][0][1][0] == 'sub':
                holder = ulf[2][0][1]
                if holder[2] == ('const', 1) and holder[1][0] == 'elem' and \
                        method_call(holder[1][1]) is not None and \
                        method_call(holder[1][1])[1] == 'items':
                    key = ('sub', holder[1], ('const', 0))
                else:
                    key = holder[2]
            same_parent = ok_u and ok_c and key is not None and \
                mentions(cm, lambda y: y == key)
            ctx.ob('R06b', 'link_combiners_to_branches fills every branch list',
                   ok_i and ok_u and ok_c and same_parent,
                   'set_sn_branch(i, uniquify(modules of branch i)) for i in range(n_branches) on '
                   'the sn_combiner of the same parent' if ok_i and ok_u and ok_c and same_parent
                   else f'set_sn_branch({short(i, 60)}, {short(ulf, 100)}) on {short(cm, 80)}: '
                   f'every branch i < n_branches must receive the uniquified leaf modules whose '
                   f'path has i after "sn_branches", on the combiner of the same block',
                   where(lk, e.node))
        # branch id parsing
        for e in p.events:
            if e.kind == 'call' and is_call(e.data[0], 'builtins.int'):
                a = e.data[0][2][0]
                okb = a[0] == 'sub' and a[2][0] == 'bin' and a[2][1] == '+' and \
                    a[2][3] == ('const', 1) and method_call(a[2][2]) is not None and \
                    method_call(a[2][2])[1] == 'index' and \
                    method_call(a[2][2])[2] == (('const', 'sn_branches'),)
                ctx.ob('R06b', 'link_combiners_to_branches branch id', okb,
                       'branch id = path component after "sn_branches"' if okb else
                       f'branch id parsed as {short(a, 120)}', where(lk, e.node))
    if not found:
        raise AnalysisError('link_combiners_to_branches: set_sn_branch call not found')
    # R06c
    sn = repo.cls('SuperNet')
    sc = sn.methods['_get_single_cost']
    seen_comb = seen_fixed = False
    for p in returning(paths(repo, sc, keep=('shapes_dict', 'get_cost'))):
        for e in p.calls():
            t = e.data[0]
            mc = method_call(t)
            g = prior_assumes(p, e)
            if mc and mc[1] == 'get_cost' and mc[0][0] == 'sub':
                seen_comb = True
                okc = any(is_call(a, 'builtins.isinstance') and v and
                          mentions(a, lambda y: y == ('global', comb.qualname)) for a, v in g)
                inc = mentions(p.retval, lambda y, t=t: y == t)
                ctx.ob('R06c', 'SuperNet._get_single_cost charges combiners', okc and inc,
                       'each combiner contributes its weighted branch costs' if okc and inc else
                       'combiner cost is not added under the isinstance(.., SuperNetCombiner) '
                       'case', where(sc, e.node))
            if t[1][0] == 'sub' and t[1][1] == ('param', sc.params[2]):
                seen_fixed = True
                full = any(a == ('attr', SELF, 'full_cost') and v for a, v in g) or \
                    any(a[0] == 'bool' and a[1] == 'and' and v and
                        ('attr', SELF, 'full_cost') in a[2] for a, v in g)
                notbranch = any(mentions(a, lambda y: y == ('const', 'sn_branches'))
                                for a, v in g) or \
                    any(a[0] == 'cmp' and a[1] == 'in' and a[2] == ('const', 'sn_branches') and
                        v is False for a, v in p.assumptions)
                notcomb = any(is_call(a, 'builtins.isinstance') and v is False for a, v in g)
                ctx.ob('R06c', 'SuperNet._get_single_cost fixed layers', full and notbranch and
                       notcomb,
                       'fixed layers outside branches, only under full_cost' if
                       full and notbranch and notcomb else
                       f'a plain layer is charged at top level under '
                       f'{[(short(a, 50), v) for a, v in g]}: layers inside a branch must only be '
                       f'charged through their combiner, fixed layers only with full_cost',
                       where(sc, e.node))
    ctx.ob('R06c', 'SuperNet._get_single_cost cases present', seen_comb and seen_fixed,
           'combiner and fixed-layer cases found', where(sc), nontrivial=False)
    # derived: theta_alpha is a probability vector (C10 R10b restricted to the combiner)
    n = 0
    for fn, p, i, e, val in c10.theta_stores(ctx, comb):
        if fn.name == '__init__' or e.data[2] == ('attr', SELF, 'theta_alpha'):
            continue            # initialisation / save-restore of the coefficients
        n += 1
        from ..sellib import is_prob, onehot_source
        ok = is_prob(val) is not None or onehot_source(repo, val) is not None
        ctx.ob('R06d', f'SuperNetCombiner.{fn.name} theta_alpha is a probability vector '
               f'[{getattr(e.node, "lineno", 0) - fn.node.lineno}]', ok,
               'softmax / gumbel_softmax / one-hot: cost lies between the cheapest and the most '
               'expensive branch' if ok else
               f'theta_alpha = {short(val)} is not a probability vector by construction',
               where(fn, e.node))
    ctx.floor('R06d', 'combiner theta_alpha stores', n, 3)
    ctx.assume('a convex combination of branch costs lies between their minimum and maximum')


MANIFEST = {
    'text': 'For every SuperNet, metric and coefficient value: the combiner charges branch i with '
            'the sum over exactly the leaf list of branch i times theta_alpha[i], the index '
            'forward uses for the outputs; branch lists are filled for every i from the path '
            'component after sn_branches on the block\'s own combiner; top-level layers inside '
            'branches are never charged twice and fixed layers only with full_cost; theta_alpha '
            'is a probability vector, hence convexity. Equality with the exported network\'s '
            'cost is not computed.',
    'note': 'Nested choice blocks are outside C06\'s quantifier (path.index finds the outermost '
            'sn_branches component).',
    'technique': 'index/def-use agreement analysis of the cost and forward loops + guard analysis '
                 'of the top-level cost cases',
}
