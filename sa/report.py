"""Obligations, findings, known-findings protocol, evidence and replay files."""
from __future__ import annotations

import json
import os
import time
from dataclasses import dataclass, field
from pathlib import Path
from typing import Any, Dict, List, Optional

from .model import AnalysisError, Repo, torch_facts

VERIF = Path(__file__).resolve().parent.parent
EVIDENCE_DIR = Path(os.environ.get('VERIF_EVIDENCE_DIR') or (VERIF / 'evidence'))
KNOWN_FILE = VERIF / 'known_findings.json'


@dataclass
class Obligation:
    rule: str
    construct: str          # stable key: where in the program (no line numbers)
    ok: bool
    message: str
    where: str = ''         # file:line for humans
    nontrivial: bool = True
    details: Dict[str, Any] = field(default_factory=dict)
    known: Optional[dict] = None

    @property
    def key(self) -> str:
        return f'{self.rule}|{self.construct}'


class Ctx:
    """Per-run context handed to the rule modules."""

    def __init__(self, prop: str, tier: str, seed: int):
        self.prop = prop
        self.tier = tier
        self.seed = seed
        self.repo = Repo()
        self._torch = None
        self.obligations: List[Obligation] = []
        self.notes: List[str] = []
        self.analysed: Dict[str, Any] = {}
        self.assumptions: List[str] = []
        self.coverage_extra: Dict[str, Any] = {}
        self._seen = set()
        self.t0 = time.time()

    @property
    def torch(self):
        if self._torch is None:
            self._torch = torch_facts()
        return self._torch

    def ob(self, rule: str, construct: str, ok: bool, message: str, where: str = '',
           nontrivial: bool = True, **details) -> bool:
        key = (rule, construct, bool(ok), message)
        if key not in self._seen:
            self._seen.add(key)
            self.obligations.append(Obligation(rule, construct, bool(ok), message, where,
                                               nontrivial, details))
        return bool(ok)

    def note(self, msg: str):
        self.notes.append(msg)

    def assume(self, msg: str):
        if msg not in self.assumptions:
            self.assumptions.append(msg)

    def floor(self, rule: str, what: str, found: int, minimum: int):
        """Instance floor: a rule that matches fewer sites than confirmed by hand cannot
        give a verdict (it would pass vacuously)."""
        self.analysed[f'{rule}:{what}'] = found
        if found < minimum:
            raise AnalysisError(f'{rule}: only {found} {what} found, expected at least '
                                f'{minimum} (anchor vanished or idiom not recognised)')

    def count(self, what: str, n: int):
        self.analysed[what] = n


def load_known() -> List[dict]:
    if not KNOWN_FILE.exists():
        return []
    data = json.loads(KNOWN_FILE.read_text())
    return data.get('findings', [])


def finish(ctx: Ctx, level: str, explanation: str, rule_text: str) -> int:
    """Apply known-findings, print the report, write evidence + replay; return exit code."""
    known = [k for k in load_known() if k.get('property') == ctx.prop]
    known_active = {(k['rule'], k['construct']): k for k in known if k.get('status') == 'known'}
    violations: List[Obligation] = []
    known_hits: List[Obligation] = []
    for o in ctx.obligations:
        if o.ok:
            continue
        k = known_active.get((o.rule, o.construct))
        if k is not None:
            o.known = k
            known_hits.append(o)
        else:
            violations.append(o)

    by_rule: Dict[str, List[Obligation]] = {}
    for o in ctx.obligations:
        by_rule.setdefault(o.rule, []).append(o)
    for r in sorted(by_rule):
        obs = by_rule[r]
        bad = [o for o in obs if not o.ok]
        print(f'[{ctx.prop}] {r}: {len(obs)} obligations, {len(obs) - len(bad)} hold, '
              f'{len(bad)} refuted')
    for n in ctx.notes:
        print(f'[{ctx.prop}] note: {n}')
    seen = set()
    for o in known_hits:
        if o.key in seen:
            continue
        seen.add(o.key)
        print(f'KNOWN-FINDING: property={ctx.prop} {o.rule} {o.construct} — '
              f'{o.known.get("what", o.message)}')
    EVIDENCE_DIR.mkdir(parents=True, exist_ok=True)
    replay_dir = EVIDENCE_DIR / 'replay'
    for i, o in enumerate(violations):
        replay_dir.mkdir(exist_ok=True)
        p = replay_dir / f'{ctx.prop}-{i}.json'
        p.write_text(json.dumps({
            'property': ctx.prop, 'rule': o.rule, 'construct': o.construct, 'where': o.where,
            'message': o.message, 'details': _jsonable(o.details),
            'repo': str(ctx.repo.root)}, indent=1))
        print(f'  refuted {o.rule} at {o.where}: {o.construct}: {o.message}')
        print(f'VIOLATION property={ctx.prop} replay={p}')

    distinct = {o.key for o in ctx.obligations if o.nontrivial}
    samples = []
    for r in sorted(by_rule):
        for o in by_rule[r][:3]:
            samples.append({'rule': o.rule, 'construct': o.construct, 'where': o.where,
                            'verdict': 'holds' if o.ok else ('known-finding' if o.known
                                                             else 'refuted'),
                            'message': o.message[:300]})
    ev = {
        'property_id': ctx.prop,
        'tier': ctx.tier,
        'seed': ctx.seed,
        'level': level,
        'coverage': {
            'explanation': explanation,
            'evaluations': len(ctx.obligations),
            'distinct_nontrivial': len(distinct),
            'rule': rule_text,
            'samples': samples[:40],
            'obligations': len(ctx.obligations),
            'discharged': sum(1 for o in ctx.obligations if o.ok),
            'known_findings': sorted({o.key for o in known_hits}),
            'analysed': dict(ctx.analysed,
                             modules=len(ctx.repo.modules), classes=len(ctx.repo.classes),
                             functions=len(list(ctx.repo.all_functions())),
                             repo_digest=ctx.repo.digest.hexdigest()[:16]),
            'per_rule': {r: {'obligations': len(v), 'refuted': sum(1 for o in v if not o.ok)}
                         for r, v in sorted(by_rule.items())},
            'notes': ctx.notes[:50],
            'exhaustive': False,
        },
        'assumptions': ctx.assumptions,
        'wall_s': round(time.time() - ctx.t0, 3),
        'violations': len(violations),
    }
    ev['coverage'].update(ctx.coverage_extra)
    (EVIDENCE_DIR / f'{ctx.prop}.json').write_text(json.dumps(ev, indent=1))
    print(f'[{ctx.prop}] {len(ctx.obligations)} obligations, '
          f'{sum(1 for o in ctx.obligations if o.ok)} hold, {len(known_hits)} known findings, '
          f'{len(violations)} violations, {ev["wall_s"]}s')
    return 1 if violations else 0


def _jsonable(x):
    try:
        json.dumps(x)
        return x
    except TypeError:
        if isinstance(x, dict):
            return {str(k): _jsonable(v) for k, v in x.items()}
        if isinstance(x, (list, tuple, set)):
            return [_jsonable(v) for v in x]
        return repr(x)
