"""Node classification tables by interpretation.

The predicates of ``plinio/graph/inspection.py`` (is_features_defining_op, ...) are pure
functions of a node's op kind, target and — for call_module nodes — of the sub-module's class
and of three integer attributes (groups / in_channels / out_channels).  Instead of matching the
shape of their source, each predicate is INTERPRETED (sa/mini.py, finite token domain) on
one abstract node per op token that occurs in the module:

  nn.X  [std] / [dw] / [g=in] / [g=out]   call_module node whose sub-module has class token
                           nn.X and (groups, in, out) = (1,3,5) / (4,4,4) / (4,4,8) / (4,8,4)
  torch.f / F.f / operator.f / getattr   call_function node with that target; torch.cat and
                           friends additionally with dim = 1 and dim = 2 ([dim=1] / [dim=2])
  'name'                   call_method node with that target string

so helper functions, early returns, chained comparisons and any refactoring that keeps the
meaning give the same table.  ``isinstance(sub, C)`` is token equality (the classes tested are
leaf torch classes); a predicate that leaves the interpreted subset yields None (unknown).
"""
from __future__ import annotations

import ast
from typing import Any, Dict, List, Optional, Tuple

from .mini import Mini, Obj, Raised, Token, Unsupported
from .model import AnalysisError, Repo


class _M(Mini):
    def __init__(self, globals_, world):
        super().__init__(globals_)
        self.world = world

    def builtin(self, name, args, kwargs, node):
        if name == 'isinstance':
            o, c = args
            cs = c if isinstance(c, tuple) and not (len(c) == 3 and c[0] == 'boundmethod') else (c,)
            if isinstance(o, Obj) and '_cls' in o.attrs:
                return any(o.attrs['_cls'] == x for x in cs)
            if not isinstance(o, Obj):
                # a concrete value (an axis argument) against builtin types
                try:
                    return super().builtin(name, args, kwargs, node)
                except Unsupported:
                    return False
            return False
        if name == 'str':
            return args[0] if isinstance(args[0], str) else repr(args[0])
        if name == 'type':
            if isinstance(args[0], Obj) and '_cls' in args[0].attrs:
                return args[0].attrs['_cls']
            raise Unsupported('type()')
        if name == 'hasattr':
            return isinstance(args[0], Obj) and args[1] in args[0].attrs
        return super().builtin(name, args, kwargs, node)

    def method(self, o, name, args, kwargs, node):
        if isinstance(o, Obj) and o.cls_name == 'GraphModule' and name == 'get_submodule':
            if self.world.get('submodule') is None:
                raise Raised('AttributeError', node)
            return self.world['submodule']
        return super().method(o, name, args, kwargs, node)


def _tokens(tree: ast.Module, m: Mini):
    mods, funcs, meths = [], [], []

    def val(e):
        return m.expr(e, {})
    for n in ast.walk(tree):
        if isinstance(n, ast.Call) and isinstance(n.func, ast.Name) and n.func.id == 'isinstance' \
                and len(n.args) == 2:
            cs = n.args[1].elts if isinstance(n.args[1], ast.Tuple) else [n.args[1]]
            for c in cs:
                if isinstance(c, ast.Attribute):
                    mods.append((ast.unparse(c), val(c)))
        if isinstance(n, ast.Compare) and len(n.ops) == 1 and isinstance(n.ops[0], ast.Eq) and \
                ast.unparse(n.left) == 'n.target':
            c = n.comparators[0]
            if isinstance(c, ast.Constant) and isinstance(c.value, str):
                meths.append((repr(c.value), c.value))
            elif isinstance(c, (ast.Attribute, ast.Name)):
                funcs.append((ast.unparse(c), val(c)))

    # module-level tables of targets / classes (``_PROPAGATING = (F.relu, torch.add, ...)``)
    for st in tree.body:
        v = getattr(st, 'value', None) if isinstance(st, (ast.Assign, ast.AnnAssign)) else None
        if isinstance(v, (ast.Tuple, ast.List, ast.Set)):
            for c in v.elts:
                if isinstance(c, ast.Constant) and isinstance(c.value, str):
                    meths.append((repr(c.value), c.value))
                elif isinstance(c, (ast.Attribute, ast.Name)):
                    txt = ast.unparse(c)
                    last = txt.rsplit('.', 1)[-1]
                    (mods if last[:1].isupper() else funcs).append((txt, val(c)))

    def uniq(xs):
        out, seen = [], set()
        for k, v in xs:
            if k not in seen:
                seen.add(k)
                out.append((k, v))
        return out
    return uniq(mods), uniq(funcs), uniq(meths)


def node_worlds(repo: Repo, module: str = 'plinio.graph.inspection') -> List[Tuple[str, Dict]]:
    mod = repo.modules[module]
    m0 = Mini({})
    mods, funcs, meths = _tokens(mod.tree, m0)
    worlds: List[Tuple[str, Dict]] = []
    for k, v in mods:
        for tag, (g, i, o) in (('std', (1, 3, 5)), ('dw', (4, 4, 4)), ('g=in', (4, 4, 8)),
                               ('g=out', (4, 8, 4))):
            sub = Obj(k)
            sub.attrs.update({'_cls': v, 'groups': g, 'in_channels': i, 'out_channels': o})
            worlds.append((f'{k} [{tag}]', {'op': 'call_module', 'target': 'layer',
                                           'submodule': sub, 'dim': 1, 'token': k, 'tag': tag}))
    for k, v in funcs:
        for dim in (1, 2):
            # the axis passed positionally ([dim=d]) and by keyword ([dim=d kw])
            for form, tag in (('pos', f'dim={dim}'), ('kw', f'dim={dim} kw')):
                worlds.append((f'{k} [{tag}]', {'op': 'call_function', 'target': v,
                                               'submodule': None, 'dim': dim, 'token': k,
                                               'tag': tag, 'form': form}))
        # the same two axes of a rank-4 tensor counted from the end ([dim=-3] is the features
        # axis, [dim=-2] a spatial one); the node carries the propagated shape
        for dim in (-3, -2):
            worlds.append((f'{k} [dim={dim}]', {'op': 'call_function', 'target': v,
                                                'submodule': None, 'dim': dim, 'token': k,
                                                'tag': f'dim={dim}', 'form': 'pos',
                                                'shape': (2, 3, 5, 7)}))
    for k, v in meths:
        worlds.append((k, {'op': 'call_method', 'target': v, 'submodule': None, 'dim': 1,
                           'token': k, 'tag': ''}))
    return worlds


def classify(repo: Repo, preds: List[str], module: str = 'plinio.graph.inspection'
             ) -> Dict[str, Dict[str, Optional[bool]]]:
    """world label -> predicate name -> True / False / None"""
    mod = repo.modules[module]
    fdefs = {n.name: n for n in mod.tree.body if isinstance(n, ast.FunctionDef)}
    out: Dict[str, Dict[str, Optional[bool]]] = {}
    for label, w in node_worlds(repo, module):
        glob: Dict[str, Any] = {}

        def make(name):
            def call(*args, **kwargs):
                sub = _M(glob, w)
                return sub.call_function(fdefs[name], list(args), kwargs)
            return call
        for name in fdefs:
            glob[name] = make(name)
        # module-level constant tables, in source order
        for st in mod.tree.body:
            tgt = None
            if isinstance(st, ast.Assign) and len(st.targets) == 1 and \
                    isinstance(st.targets[0], ast.Name):
                tgt = st.targets[0].id
            elif isinstance(st, ast.AnnAssign) and isinstance(st.target, ast.Name) and \
                    st.value is not None:
                tgt = st.target.id
            if tgt is not None:
                try:
                    glob[tgt] = _M(glob, w).expr(st.value, {})
                except (Unsupported, Raised):
                    pass
        # the argument accessor of graph/utils.py is interpreted on the node's real args /
        # kwargs (so that "positional only" / "keyword only" look-ups are told apart); the
        # stub is the fallback when it is not interpretable
        tga = None
        um = repo.modules.get('plinio.graph.utils')
        if um is not None:
            tga = next((n for n in um.tree.body if isinstance(n, ast.FunctionDef) and
                        n.name == 'try_get_args'), None)

        def try_get_args(n, parent, pos, kw, default, _w=w, _tga=tga):
            if _tga is not None and _w['op'] != 'call_module':
                try:
                    return _M(glob, _w).call_function(_tga, [n, parent, pos, kw, default])
                except (Unsupported, Raised):
                    pass
            return _w['dim']
        glob['try_get_args'] = try_get_args
        node = Obj('Node')
        inp = [Obj('Node'), Obj('Node')]
        if w['op'] == 'call_module':
            args, kwargs = (), {}
        elif w.get('form') == 'kw':
            args, kwargs = (inp,), {'dim': w['dim'], 'start_dim': w['dim']}
        else:
            args, kwargs = (inp, w['dim']), {}
        meta = {}
        if w.get('shape') is not None:
            tm = Obj('TensorMetadata')
            tm.attrs['shape'] = w['shape']
            meta['tensor_meta'] = tm
        node.attrs.update({'op': w['op'], 'target': w['target'],
                           'all_input_nodes': inp,     # a 2-input node
                           'args': args, 'kwargs': kwargs, 'meta': meta, 'name': 'node'})
        parent = Obj('GraphModule')

        def get_submodule(name, _w=w):
            if _w.get('submodule') is None:
                raise Unsupported('no sub-module for this node')
            return _w['submodule']
        parent.attrs['get_submodule'] = get_submodule
        res = {}
        for pname in preds:
            fd = fdefs.get(pname)
            if fd is None:
                raise AnalysisError(f'predicate {pname} not found in {module}')
            nparams = len(fd.args.args)
            try:
                r = _M(glob, w).call_function(fd, [node, parent][:nparams])
                res[pname] = bool(r) if isinstance(r, (bool, int)) else None
            except (Unsupported, Raised):
                res[pname] = None
        out[label] = res
    return out
