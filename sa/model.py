"""Program model of /repo built from source on every run (stdlib ``ast`` only).

Nothing under /repo (nor torch) is imported or executed.  The model gives
* every ``plinio/**/*.py`` module parsed, with resolved imports (relative ones and
  re-exports through ``__init__`` included);
* classes with resolved bases, a C3-style linearisation over repository classes and the
  names of external (torch) bases;
* functions / methods / property getters and setters;
* top-level assignments (registries, CostSpec instances, pattern tuples);
* facts about the torch base classes read by *parsing* the torch source files that sit
  next to /venv's ``torch`` package (constructor parameter order, attributes assigned in
  ``__init__``).
"""
from __future__ import annotations

import ast
import hashlib
import os
import sys
from dataclasses import dataclass, field
from pathlib import Path
from typing import Dict, Iterator, List, Optional, Tuple


class AnalysisError(Exception):
    """The analysis cannot give a verdict (vanished anchor, unsupported idiom...)."""


def repo_root() -> Path:
    return Path(os.environ.get('VERIF_REPO', '/repo'))


# ----------------------------------------------------------------------------------
@dataclass
class FunctionInfo:
    name: str
    qualname: str                 # module.Class.name or module.name
    node: ast.FunctionDef
    module: 'Module'
    cls: Optional['ClassInfo'] = None
    kind: str = 'function'        # function | method | static | classmethod | getter | setter
    parent: Optional['FunctionInfo'] = None   # for nested defs

    @property
    def params(self) -> List[str]:
        a = self.node.args
        return [x.arg for x in a.posonlyargs + a.args]

    @property
    def all_params(self) -> List[str]:
        a = self.node.args
        r = [x.arg for x in a.posonlyargs + a.args]
        if a.vararg:
            r.append(a.vararg.arg)
        r += [x.arg for x in a.kwonlyargs]
        if a.kwarg:
            r.append(a.kwarg.arg)
        return r

    def defaults(self) -> Dict[str, ast.expr]:
        a = self.node.args
        pos = a.posonlyargs + a.args
        d = {}
        for p, dv in zip(pos[len(pos) - len(a.defaults):], a.defaults):
            d[p.arg] = dv
        for p, dv in zip(a.kwonlyargs, a.kw_defaults):
            if dv is not None:
                d[p.arg] = dv
        return d

    @property
    def where(self) -> str:
        return f'{self.module.relpath}:{self.node.lineno}'

    def __repr__(self):
        return f'<fn {self.qualname}>'


@dataclass
class ClassInfo:
    name: str
    qualname: str
    node: ast.ClassDef
    module: 'Module'
    base_exprs: List[ast.expr] = field(default_factory=list)
    bases: List[str] = field(default_factory=list)         # resolved qualified names
    methods: Dict[str, FunctionInfo] = field(default_factory=dict)   # plain / static
    getters: Dict[str, FunctionInfo] = field(default_factory=dict)
    setters: Dict[str, FunctionInfo] = field(default_factory=dict)
    class_assigns: Dict[str, ast.expr] = field(default_factory=dict)

    @property
    def where(self) -> str:
        return f'{self.module.relpath}:{self.node.lineno}'

    def __repr__(self):
        return f'<class {self.qualname}>'

    def __hash__(self):
        return hash(self.qualname)

    def __eq__(self, other):
        return isinstance(other, ClassInfo) and other.qualname == self.qualname


@dataclass
class Module:
    name: str                      # plinio.cost.params
    path: Path
    relpath: str
    src: str
    tree: ast.Module
    is_pkg: bool
    imports: Dict[str, str] = field(default_factory=dict)      # local name -> qualified
    functions: Dict[str, FunctionInfo] = field(default_factory=dict)
    classes: Dict[str, ClassInfo] = field(default_factory=dict)
    assigns: Dict[str, List[ast.stmt]] = field(default_factory=dict)

    def line(self, lineno: int) -> str:
        ls = self.src.splitlines()
        return ls[lineno - 1].strip() if 0 < lineno <= len(ls) else ''


# ----------------------------------------------------------------------------------
class Repo:
    def __init__(self, root: Optional[Path] = None, package: str = 'plinio'):
        self.root = Path(root) if root else repo_root()
        self.package = package
        self.modules: Dict[str, Module] = {}
        self.classes: Dict[str, ClassInfo] = {}
        self.functions: Dict[str, FunctionInfo] = {}
        self.digest = hashlib.sha256()
        self._load()
        self._mro_cache: Dict[str, List] = {}
        self._subclasses: Optional[Dict[str, List[ClassInfo]]] = None

    # -- loading -------------------------------------------------------------------
    def _load(self):
        pkg_dir = self.root / self.package
        if not pkg_dir.is_dir():
            raise AnalysisError(f'package directory {pkg_dir} not found')
        files = sorted(pkg_dir.rglob('*.py'))
        for f in files:
            rel = f.relative_to(self.root)
            parts = list(rel.with_suffix('').parts)
            is_pkg = parts[-1] == '__init__'
            if is_pkg:
                parts = parts[:-1]
            name = '.'.join(parts)
            src = f.read_text()
            self.digest.update(str(rel).encode() + b'\0' + src.encode())
            try:
                tree = ast.parse(src, filename=str(f))
            except SyntaxError as e:
                raise AnalysisError(f'{rel}: does not parse: {e}')
            self.modules[name] = Module(name, f, str(rel), src, tree, is_pkg)
        for m in self.modules.values():
            self._index_module(m)
        for c in self.classes.values():
            c.bases = [self.resolve_expr_name(c.module, b) or ast.unparse(b) for b in c.base_exprs]

    def _index_module(self, m: Module):
        for st in m.tree.body:
            self._index_stmt(m, st)

    def _index_stmt(self, m: Module, st: ast.stmt):
        if isinstance(st, ast.Import):
            for a in st.names:
                if a.asname:
                    m.imports[a.asname] = a.name
                else:
                    m.imports[a.name.split('.')[0]] = a.name.split('.')[0]
        elif isinstance(st, ast.ImportFrom):
            base = self._abs_module(m, st.module, st.level)
            for a in st.names:
                m.imports[a.asname or a.name] = f'{base}.{a.name}' if base else a.name
        elif isinstance(st, (ast.FunctionDef, ast.AsyncFunctionDef)):
            fi = FunctionInfo(st.name, f'{m.name}.{st.name}', st, m)
            m.functions[st.name] = fi
            self.functions[fi.qualname] = fi
        elif isinstance(st, ast.ClassDef):
            self._index_class(m, st)
        elif isinstance(st, (ast.Assign, ast.AnnAssign, ast.AugAssign)):
            targets = st.targets if isinstance(st, ast.Assign) else [st.target]
            for t in targets:
                for nm in _target_names(t):
                    m.assigns.setdefault(nm, []).append(st)
        elif isinstance(st, (ast.If, ast.Try)):
            for sub in ast.iter_child_nodes(st):
                if isinstance(sub, ast.stmt):
                    self._index_stmt(m, sub)

    def _index_class(self, m: Module, st: ast.ClassDef):
        ci = ClassInfo(st.name, f'{m.name}.{st.name}', st, m, base_exprs=list(st.bases))
        m.classes[st.name] = ci
        self.classes[ci.qualname] = ci
        for b in st.body:
            if isinstance(b, (ast.FunctionDef, ast.AsyncFunctionDef)):
                kind = 'method'
                setter_of = None
                for d in b.decorator_list:
                    ds = ast.unparse(d)
                    if ds == 'staticmethod':
                        kind = 'static'
                    elif ds == 'classmethod':
                        kind = 'classmethod'
                    elif ds == 'property':
                        kind = 'getter'
                    elif ds.endswith('.setter'):
                        kind = 'setter'
                        setter_of = ds.rsplit('.', 1)[0]
                fi = FunctionInfo(b.name, f'{ci.qualname}.{b.name}', b, m, ci, kind)
                if kind == 'getter':
                    ci.getters[b.name] = fi
                    self.functions[fi.qualname] = fi
                elif kind == 'setter':
                    ci.setters[setter_of or b.name] = fi
                    self.functions[fi.qualname + '.setter'] = fi
                else:
                    ci.methods[b.name] = fi
                    self.functions[fi.qualname] = fi
            elif isinstance(b, ast.Assign):
                for t in b.targets:
                    for nm in _target_names(t):
                        ci.class_assigns[nm] = b.value
            elif isinstance(b, ast.AnnAssign) and b.value is not None:
                for nm in _target_names(b.target):
                    ci.class_assigns[nm] = b.value

    def _abs_module(self, m: Module, mod: Optional[str], level: int) -> str:
        if level == 0:
            return mod or ''
        parts = m.name.split('.')
        if not m.is_pkg:
            parts = parts[:-1]
        if level > 1:
            parts = parts[:len(parts) - (level - 1)]
        if mod:
            parts = parts + mod.split('.')
        return '.'.join(parts)

    # -- name resolution --------------------------------------------------------------
    def canonical(self, qual: str, _depth: int = 0) -> str:
        """Follow re-exports: 'plinio.cost.CostSpec' -> 'plinio.cost.cost_spec.CostSpec'."""
        if _depth > 12:
            return qual
        if qual in self.classes or qual in self.functions:
            return qual
        if '.' not in qual:
            return qual
        head, tail = qual.rsplit('.', 1)
        head_c = head if head in self.modules else self.canonical(head, _depth + 1)
        if head_c in self.modules:
            mod = self.modules[head_c]
            if tail in mod.classes:
                return mod.classes[tail].qualname
            if tail in mod.functions:
                return mod.functions[tail].qualname
            if tail in mod.imports and mod.imports[tail] != qual:
                # an attribute bound by the package's own import shadows a sub-module
                return self.canonical(mod.imports[tail], _depth + 1)
            if tail in mod.assigns:
                return f'{head_c}.{tail}'
            if f'{head_c}.{tail}' in self.modules:
                return f'{head_c}.{tail}'
            return f'{head_c}.{tail}'
        if head_c in self.classes:
            return f'{head_c}.{tail}'
        return f'{head_c}.{tail}' if head_c != head else qual

    def resolve_name(self, m: Module, name: str) -> Optional[str]:
        """Qualified (canonical) name for a bare identifier used in module ``m``."""
        if name in m.classes:
            return m.classes[name].qualname
        if name in m.functions:
            return m.functions[name].qualname
        if name in m.imports:
            return self.canonical(m.imports[name])
        if name in m.assigns:
            return f'{m.name}.{name}'
        return None

    def resolve_expr_name(self, m: Module, e: ast.expr) -> Optional[str]:
        """Resolve a dotted expression (``nn.Conv2d``, ``match_nn.MATCHConv2d``)."""
        if isinstance(e, ast.Name):
            return self.resolve_name(m, e.id)
        if isinstance(e, ast.Attribute):
            base = self.resolve_expr_name(m, e.value)
            if base is None:
                return None
            return self.canonical(f'{base}.{e.attr}')
        return None

    def get_class(self, qual: str) -> Optional[ClassInfo]:
        return self.classes.get(self.canonical(qual))

    def get_function(self, qual: str) -> Optional[FunctionInfo]:
        return self.functions.get(self.canonical(qual))

    def module_assign_value(self, qual: str) -> Optional[ast.expr]:
        """Value expression of the (last) top-level assignment ``module.name``."""
        if '.' not in qual:
            return None
        mod, nm = qual.rsplit('.', 1)
        m = self.modules.get(mod) or self.modules.get(self.canonical(mod))
        if m is None or nm not in m.assigns:
            return None
        for st in reversed(m.assigns[nm]):
            if isinstance(st, ast.Assign):
                return st.value
            if isinstance(st, ast.AnnAssign) and st.value is not None:
                return st.value
        return None

    # -- class hierarchy --------------------------------------------------------------
    def mro(self, ci: ClassInfo) -> List:
        """Linearisation: repository classes as ClassInfo, external bases as str."""
        if ci.qualname in self._mro_cache:
            return self._mro_cache[ci.qualname]
        seqs = []
        for b in ci.bases:
            bc = self.classes.get(b)
            seqs.append(self.mro(bc) if bc is not None else [b])
        seqs.append([self.classes.get(b) or b for b in ci.bases])
        res = [ci] + _c3_merge([list(s) for s in seqs])
        self._mro_cache[ci.qualname] = res
        return res

    def external_bases(self, ci: ClassInfo) -> List[str]:
        return [c for c in self.mro(ci) if isinstance(c, str)]

    def is_subclass(self, ci: ClassInfo, qual: str) -> bool:
        q = self.canonical(qual)
        for c in self.mro(ci):
            if (isinstance(c, ClassInfo) and c.qualname == q) or c == q or c == qual:
                return True
        return False

    def subclasses(self, ci: ClassInfo, strict: bool = False) -> List[ClassInfo]:
        out = []
        for c in self.classes.values():
            if c is ci and strict:
                continue
            if self.is_subclass(c, ci.qualname):
                out.append(c)
        return out

    def find_method(self, ci: ClassInfo, name: str) -> Optional[FunctionInfo]:
        for c in self.mro(ci):
            if isinstance(c, ClassInfo) and name in c.methods:
                return c.methods[name]
        return None

    def find_getter(self, ci: ClassInfo, name: str) -> Optional[FunctionInfo]:
        for c in self.mro(ci):
            if isinstance(c, ClassInfo):
                if name in c.getters:
                    return c.getters[name]
                if name in c.methods:
                    return None
        return None

    def find_setter(self, ci: ClassInfo, name: str) -> Optional[FunctionInfo]:
        for c in self.mro(ci):
            if isinstance(c, ClassInfo):
                if name in c.setters:
                    return c.setters[name]
                if name in c.getters:
                    return None     # read-only property at this level
        return None

    def find_class_attr(self, ci: ClassInfo, name: str) -> Optional[Tuple[ClassInfo, ast.expr]]:
        for c in self.mro(ci):
            if isinstance(c, ClassInfo) and name in c.class_assigns:
                return c, c.class_assigns[name]
        return None

    def classes_named(self, name: str) -> List[ClassInfo]:
        return [c for c in self.classes.values() if c.name == name]

    def cls(self, name: str) -> ClassInfo:
        """The unique repository class with this simple name (anchor lookup)."""
        cs = self.classes_named(name)
        if len(cs) != 1:
            raise AnalysisError(f'anchor class {name}: found {len(cs)} definitions')
        return cs[0]

    def fn(self, qual_suffix: str) -> FunctionInfo:
        """Unique function whose qualified name ends with the given dotted suffix."""
        hits = [f for q, f in self.functions.items()
                if q == qual_suffix or q.endswith('.' + qual_suffix)]
        hits = list({id(h): h for h in hits}.values())
        if len(hits) != 1:
            raise AnalysisError(f'anchor function {qual_suffix}: found {len(hits)} definitions')
        return hits[0]

    def all_functions(self) -> Iterator[FunctionInfo]:
        seen = set()
        for f in self.functions.values():
            if id(f) not in seen:
                seen.add(id(f))
                yield f


def _target_names(t: ast.expr) -> List[str]:
    if isinstance(t, ast.Name):
        return [t.id]
    if isinstance(t, (ast.Tuple, ast.List)):
        r = []
        for e in t.elts:
            r += _target_names(e)
        return r
    return []


def _c3_merge(seqs: List[List]) -> List:
    res = []
    seqs = [s for s in seqs if s]
    while seqs:
        for s in seqs:
            cand = s[0]
            if not any(cand in t[1:] for t in seqs):
                break
        else:
            # inconsistent hierarchy: fall back to first head (never happens for valid code)
            cand = seqs[0][0]
        res.append(cand)
        seqs = [[x for x in s if x != cand] for s in seqs]
        seqs = [s for s in seqs if s]
    return res


# ----------------------------------------------------------------------------------
# Torch base-class facts, read from the torch *source* (never imported).
# ----------------------------------------------------------------------------------
class TorchFacts:
    """Constructor parameter order and attributes of the torch layer classes the
    repository derives from, obtained by parsing torch/nn/modules/*.py."""

    FILES = ['conv.py', 'linear.py', 'batchnorm.py', 'module.py', 'container.py', 'padding.py']

    def __init__(self):
        self.dir = self._locate()
        self.classes: Dict[str, ast.ClassDef] = {}
        self.bases: Dict[str, List[str]] = {}
        for fn in self.FILES:
            p = self.dir / fn
            if not p.exists():
                continue
            tree = ast.parse(p.read_text())
            for st in tree.body:
                if isinstance(st, ast.ClassDef):
                    self.classes[st.name] = st
                    self.bases[st.name] = [ast.unparse(b).split('.')[-1] for b in st.bases]
        for need in ('Conv1d', 'Conv2d', 'Linear', 'BatchNorm1d', 'BatchNorm2d', '_ConvNd'):
            if need not in self.classes:
                raise AnalysisError(f'torch source: class {need} not found under {self.dir}')

    @staticmethod
    def _locate() -> Path:
        cands = []
        env = os.environ.get('VERIF_TORCH_SRC')
        if env:
            cands.append(Path(env))
        for sp in ['/venv/lib'] + sys.path:
            base = Path(sp)
            if base.is_dir():
                for hit in base.glob('python3*/site-packages/torch/nn/modules'):
                    cands.append(hit)
                hit = base / 'torch' / 'nn' / 'modules'
                if hit.is_dir():
                    cands.append(hit)
        for c in cands:
            if (c / 'conv.py').exists():
                return c
        raise AnalysisError('cannot locate torch/nn/modules source files')

    def _mro(self, name: str) -> List[str]:
        out, todo = [], [name]
        while todo:
            n = todo.pop(0)
            if n in out or n not in self.classes:
                continue
            out.append(n)
            todo += self.bases.get(n, [])
        return out

    def init_params(self, name: str) -> List[str]:
        for c in self._mro(name):
            for b in self.classes[c].body:
                if isinstance(b, ast.FunctionDef) and b.name == '__init__':
                    a = b.args
                    return [x.arg for x in a.posonlyargs + a.args][1:] + \
                           [x.arg for x in a.kwonlyargs]
        return []

    def init_positional(self, name: str) -> List[str]:
        for c in self._mro(name):
            for b in self.classes[c].body:
                if isinstance(b, ast.FunctionDef) and b.name == '__init__':
                    a = b.args
                    return [x.arg for x in a.posonlyargs + a.args][1:]
        return []

    def instance_attrs(self, name: str) -> List[str]:
        """Attribute names assigned on ``self`` by the __init__ chain of the class."""
        out = []
        for c in self._mro(name):
            for b in self.classes[c].body:
                if isinstance(b, ast.FunctionDef) and b.name == '__init__':
                    for n in ast.walk(b):
                        if isinstance(n, ast.Attribute) and isinstance(n.ctx, ast.Store) and \
                                isinstance(n.value, ast.Name) and n.value.id == 'self':
                            if n.attr not in out:
                                out.append(n.attr)
                        if isinstance(n, ast.Call) and isinstance(n.func, ast.Attribute) and \
                                n.func.attr in ('register_buffer', 'register_parameter',
                                                '__setattr__') and \
                                n.args and isinstance(n.args[0], ast.Constant):
                            if n.args[0].value not in out:
                                out.append(n.args[0].value)
        return out

    def weight_axes(self, name: str) -> List[str]:
        """Role of each weight axis for the layer class."""
        if name in ('Conv1d',):
            return ['out', 'in', 'k0']
        if name in ('Conv2d',):
            return ['out', 'in', 'k0', 'k1']
        if name == 'Linear':
            return ['out', 'in']
        return []


_TORCH: Optional[TorchFacts] = None


def torch_facts() -> TorchFacts:
    global _TORCH
    if _TORCH is None:
        _TORCH = TorchFacts()
    return _TORCH
