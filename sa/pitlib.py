"""PIT-specific analyses shared by C01, C04, C08, C11, C12."""
from __future__ import annotations

from typing import Dict, List, Optional, Set, Tuple

from . import poly
from .anchor import AnchorError, AnchorEval, E, Mat, S, Vec, matvec_alive
from .model import AnalysisError, ClassInfo, FunctionInfo, Repo
from .sym import NONE, Term, mentions, show, subterms
from .util import (SELF, Inliner, arg, attr_classes, callee, is_call, method_call, paths,
                   returning, where)


def pit_layer_classes(repo: Repo) -> List[ClassInfo]:
    base = repo.cls('PITModule')
    return [c for c in repo.subclasses(base, strict=True)]


def registered_buffers(repo: Repo, ci: ClassInfo) -> Dict[str, Tuple[Term, FunctionInfo]]:
    """buffer name -> (value term, constructor) for register_buffer calls in __init__ of the
    hierarchy (most derived first wins)."""
    out: Dict[str, Tuple[Term, FunctionInfo]] = {}
    for c in repo.mro(ci):
        if not isinstance(c, ClassInfo) or '__init__' not in c.methods:
            continue
        init = c.methods['__init__']
        for p in paths(repo, init):
            for e in p.calls():
                t = e.data[0]
                mc = method_call(t)
                if mc and mc[0] == SELF and mc[1] == 'register_buffer' and len(mc[2]) >= 2 \
                        and mc[2][0][0] == 'const':
                    out.setdefault(mc[2][0][1], (mc[2][1], init))
    return out


def parameters_of(repo: Repo, ci: ClassInfo) -> Dict[str, FunctionInfo]:
    """attribute name -> constructor, for ``self.x = Parameter(...)`` / nn.Parameter."""
    out: Dict[str, FunctionInfo] = {}
    for c in repo.mro(ci):
        if not isinstance(c, ClassInfo) or '__init__' not in c.methods:
            continue
        init = c.methods['__init__']
        for p in paths(repo, init):
            for e in p.events:
                if e.kind == 'setattr' and e.data[0] == SELF:
                    v = e.data[2]
                    if is_call(v, 'torch.nn.Parameter', 'torch.nn.parameter.Parameter'):
                        out.setdefault(e.data[1], init)
    return out


def _sub1(t, a, b):
    if t == a:
        return b
    if isinstance(t, tuple):
        return tuple(_sub1(x, a, b) for x in t)
    return t


def float_exact(t):
    """Simplify with the identities that hold EXACTLY in IEEE arithmetic for every finite x:
    x*0 = 0, x*1 = x, x+0 = x, x-0 = x, constant folding.  (x + (1 - x) is NOT among them:
    for |x| >= 2**24 in float32 the sum absorbs the 1.)"""
    if not isinstance(t, tuple):
        return t
    if t and t[0] == 'bin' and t[1] in ('+', '-', '*'):
        a, b = float_exact(t[2]), float_exact(t[3])

        def num(x):
            return x[1] if x[0] == 'const' and isinstance(x[1], (int, float)) and \
                not isinstance(x[1], bool) else None
        na, nb = num(a), num(b)
        if na is not None and nb is not None:
            return ('const', {'+': na + nb, '-': na - nb, '*': na * nb}[t[1]])
        if t[1] == '*':
            if na == 0 or nb == 0:
                return ('const', 0)
            if na == 1:
                return b
            if nb == 1:
                return a
        if t[1] == '+':
            if na == 0:
                return b
            if nb == 0:
                return a
        if t[1] == '-' and nb == 0:
            return a
        return ('bin', t[1], a, b)
    return tuple(float_exact(x) for x in t)


class MaskerInfo:
    exact_at_one = None
    exact_at_zero = None
    abs_term = None

    def __init__(self):
        self.cls: Optional[ClassInfo] = None
        self.theta_fn: Optional[FunctionInfo] = None
        self.param: Optional[str] = None          # nn.Parameter attribute read by theta
        self.reads_param = False
        self.blend_ok = False
        self.blend_msg = ''
        self.ka_name: Optional[str] = None
        self.ka: Optional[Vec] = None
        self.c_name: Optional[str] = None
        self.c: Optional[Mat] = None
        self.alive: Dict[str, Optional[bool]] = {S: None, E: None}
        self.error: Optional[str] = None
        self.theta_term: Optional[Term] = None
        self.buffer_only: Optional[str] = None     # theta is a plain buffer (frozen features)
        self.kinds: Dict[str, str] = {}


def _default_env(repo: Repo, fn: FunctionInfo) -> Dict[Term, Term]:
    env = {}
    import ast as _ast
    for p, dv in fn.defaults().items():
        if isinstance(dv, _ast.Constant):
            env[('param', p)] = ('const', dv.value)
    return env


def analyse_masker(repo: Repo, ci: ClassInfo) -> MaskerInfo:
    """Abstract analysis of ``theta`` of a PIT masker class."""
    mi = MaskerInfo()
    mi.cls = ci
    g = repo.find_getter(ci, 'theta')
    if g is None:
        mi.error = 'no theta property'
        return mi
    mi.theta_fn = g
    ps = returning(paths(repo, g))
    if len(ps) != 1:
        mi.error = f'theta has {len(ps)} return paths'
        return mi
    theta = ps[0].retval
    mi.theta_term = theta
    bufs = registered_buffers(repo, ci)
    kinds = storage_kinds(repo, ci)
    params = {k for k, v in kinds.items() if v == 'param'}
    mi.kinds = kinds
    mi.reads_param = mentions(theta, lambda t: t[0] == 'attr' and t[1] == SELF and t[2] in params)
    if theta[0] == 'attr' and theta[1] == SELF and theta[2] in bufs:
        mi.buffer_only = theta[2]
        if is_call(bufs[theta[2]][0], 'torch.ones'):
            # a constant all-ones mask: every position is alive whatever the parameters are
            mi.blend_ok = True
            mi.alive = {S: True, E: True}
        return mi
    # theta = matmul(C, blend) | blend
    blend = theta
    c_term = None
    if is_call(theta, 'torch.matmul', 'torch.mv', 'torch.mm'):
        c_term, blend = theta[2][0], theta[2][1]
    elif theta[0] == 'bin' and theta[1] == '@':
        c_term, blend = theta[2], theta[3]
    # blend = abs(P) * (1 - ka) + ka
    abs_atoms = [t for t in subterms(blend)
                 if (is_call(t, 'torch.abs') and len(t[2]) == 1) or
                 (method_call(t) and method_call(t)[1] == 'abs')]
    buf_atoms = [t for t in subterms(blend)
                 if t[0] == 'attr' and t[1] == SELF and t[2] in bufs and
                 not any(t == (a[2][0] if is_call(a, 'torch.abs') else method_call(a)[0])
                         for a in abs_atoms)]
    if abs_atoms and buf_atoms:
        A, K = abs_atoms[0], buf_atoms[0]
        inner = A[2][0] if is_call(A, 'torch.abs') else method_call(A)[0]
        want = ('bin', '+', ('bin', '*', A, ('bin', '-', ('const', 1), K)), K)
        # normalise torch.mul / torch.add calls to operators first
        if poly.equal(_ops(blend), want) and inner[0] == 'attr' and inner[1] == SELF and \
                kinds.get(inner[2]) in ('param', 'buffer'):
            mi.blend_ok = True
            mi.param = inner[2]
            mi.ka_name = K[2]
            # floating-point exactness at the two values the keep-alive constant takes
            b = _ops(blend)
            mi.exact_at_one = float_exact(_sub1(b, K, ('const', 1)))
            mi.exact_at_zero = float_exact(_sub1(b, K, ('const', 0)))
            mi.abs_term = A
        else:
            mi.blend_msg = f'theta blend is {show(blend)}'
    else:
        mi.blend_msg = f'no |param|/keep-alive blend found in {show(blend)}'
    # abstract values of the constants
    try:
        if mi.ka_name:
            kt, kinit = bufs[mi.ka_name]
            mi.ka = _const_value(repo, ci, kt, kinit)
            if not isinstance(mi.ka, Vec):
                raise AnchorError('keep-alive constant is not a vector')
        if c_term is not None:
            if c_term[0] == 'attr' and c_term[1] == SELF and c_term[2] in bufs:
                mi.c_name = c_term[2]
                ct, cinit = bufs[mi.c_name]
                mi.c = _const_value(repo, ci, ct, cinit)
                if not isinstance(mi.c, Mat):
                    raise AnchorError('C matrix constant is not a matrix')
            else:
                raise AnchorError(f'matmul operand {show(c_term)} is not a registered buffer')
        if mi.ka is not None:
            if mi.c is not None:
                mi.alive = matvec_alive(mi.c, mi.ka)
            else:
                mi.alive = {S: mi.ka.at[S] is True, E: mi.ka.at[E] is True}
    except AnchorError as ex:
        mi.error = str(ex)
    return mi


def _ops(t):
    """torch.mul/add/sub calls -> operator terms (so that poly can normalise them)."""
    if not isinstance(t, tuple):
        return t
    if t and t[0] == 'call':
        c = callee(t)
        m = {'torch.mul': '*', 'torch.multiply': '*', 'torch.add': '+', 'torch.sub': '-',
             'torch.subtract': '-'}.get(c)
        if m and len(t[2]) == 2 and not t[3]:
            return ('bin', m, _ops(t[2][0]), _ops(t[2][1]))
    return tuple(_ops(x) for x in t)


def _const_value(repo: Repo, ci: ClassInfo, term: Term, init: FunctionInfo):
    """Abstract value of a buffer initialiser: ``self._generate_x(args)`` is resolved to
    the return term of that method (all non-empty-loop paths must agree)."""
    mc = method_call(term)
    if mc and mc[0] == SELF:
        m = repo.find_method(ci, mc[1])
        if m is None:
            raise AnchorError(f'generator {mc[1]} not found')
        env = _default_env(repo, m)
        # explicit arguments at the registration site override defaults
        for pname, a in zip(m.params[1:], mc[2]):
            if a[0] == 'param':
                # forwarded constructor parameter: use the constructor's default
                import ast as _ast
                dv = init.defaults().get(a[1])
                if isinstance(dv, _ast.Constant):
                    env[('param', pname)] = ('const', dv.value)
            elif a[0] == 'const':
                env[('param', pname)] = a
        vals = []
        for p in returning(paths(repo, m)):
            if any(e.kind == 'loop0' for e in p.events):
                continue        # the row-building loop runs at least once (len >= 1)
            vals.append(AnchorEval(env).value(p.retval))
        if not vals:
            raise AnchorError(f'{mc[1]} has no usable return path')
        first = vals[0]
        for v in vals[1:]:
            if type(v) is not type(first) or v.at != first.at:
                raise AnchorError(f'{mc[1]}: return paths disagree')
        return first
    return AnchorEval({}).value(term)


def nonpersistent_buffers(repo: Repo, ci: ClassInfo) -> Set[str]:
    """Buffers registered with persistent=False anywhere in the constructor chain: they are
    buffers for nn.Module but are NOT part of the state_dict."""
    out: Set[str] = set()
    for c in repo.mro(ci):
        if not isinstance(c, ClassInfo):
            continue
        for m in c.methods.values():
            for p in paths(repo, m):
                for e in p.calls():
                    mc = method_call(e.data[0])
                    if mc and mc[0] == SELF and mc[1] == 'register_buffer' and mc[2] and \
                            mc[2][0][0] == 'const':
                        pers = dict(mc[3]).get('persistent', mc[2][2] if len(mc[2]) > 2 else None)
                        if pers is not None and pers != ('const', True):
                            out.add(mc[2][0][1])
    return out


def storage_kinds(repo: Repo, ci: ClassInfo, _depth: int = 0) -> Dict[str, str]:
    """attribute -> 'param' | 'buffer' | 'plain' after the constructor chain of ``ci`` ran,
    following ``super().__init__`` calls in program order; ``del self.x`` removes an entry
    (the idiom used to turn an inherited parameter into a buffer)."""
    kinds: Dict[str, str] = {}
    mro = [c for c in repo.mro(ci) if isinstance(c, ClassInfo)]
    owner = None
    for c in mro:
        if '__init__' in c.methods:
            owner = c
            break
    if owner is None or _depth > 8:
        return kinds
    init = owner.methods['__init__']
    ps = returning(paths(repo, init))
    if not ps:
        return kinds
    # all paths are merged in order (later writes win); constructors here are nearly linear
    for p in ps:
        for e in p.events:
            if e.kind == 'call':
                t = e.data[0]
                mc = method_call(t)
                if mc and mc[1] == '__init__' and is_call(mc[0], 'builtins.super'):
                    idx = mro.index(owner)
                    for nxt in mro[idx + 1:]:
                        if '__init__' in nxt.methods:
                            kinds.update(storage_kinds(repo, nxt, _depth + 1))
                            break
                elif mc and mc[0] == SELF and mc[1] == 'register_buffer' and mc[2] and \
                        mc[2][0][0] == 'const':
                    kinds[mc[2][0][1]] = 'buffer'
                elif mc and mc[0] == SELF and mc[1] == 'register_parameter' and mc[2] and \
                        mc[2][0][0] == 'const':
                    kinds[mc[2][0][1]] = 'param'
            elif e.kind == 'setattr' and e.data[0] == SELF:
                name, v = e.data[1], e.data[2]
                if is_call(v, 'torch.nn.Parameter', 'torch.nn.parameter.Parameter'):
                    kinds[name] = 'param'
                elif kinds.get(name) == 'buffer':
                    pass        # nn.Module.__setattr__ keeps a registered buffer a buffer
                elif kinds.get(name) == 'param' and v[0] == 'const' and v[1] is None:
                    kinds[name] = 'plain'
                elif name not in kinds:
                    kinds[name] = 'plain'
            elif e.kind == 'delete':
                t = e.data[0]
                if t[0] == 'attr' and t[1] == SELF:
                    kinds.pop(t[2], None)
    return kinds


def frozen_masker_classes(repo: Repo) -> List[ClassInfo]:
    """Maskers frozen by construction, discovered by structure: a subclass of a class that
    has a ``theta`` property, whose own ``trainable`` setter is a no-op."""
    out = []
    for c in repo.classes.values():
        s = c.setters.get('trainable')
        if s is None or repo.find_getter(c, 'theta') is None:
            continue
        body = [b for b in s.node.body if not (hasattr(b, 'value') and
                                               b.__class__.__name__ == 'Expr' and
                                               b.value.__class__.__name__ == 'Constant')]
        if all(b.__class__.__name__ == 'Pass' for b in body):
            out.append(c)
    return out


def masker_classes(repo: Repo) -> List[ClassInfo]:
    return [c for c in repo.classes.values()
            if repo.find_getter(c, 'theta') is not None and
            repo.find_setter(c, 'trainable') is not None]


# ------------------------------------------------------------------------------------------
# normalisation constants of the continuous effective kernel size

def comp_at(comp: Term, idx: Term) -> Optional[Term]:
    """``[f(j) for j in range(n)][idx]`` is ``f(idx)``: the element of a list comprehension over
    range(n) (one generator, no filter) at a given index."""
    if comp[0] != 'comp' or comp[1] not in ('list', 'listcomp', 'tuple') and \
            not str(comp[1]).startswith('list'):
        return None
    if len(comp[2]) != 1 or len(comp[3]) != 1 or comp[3][0][2]:
        return None
    it = comp[3][0][1]
    if not (is_call(it, 'builtins.range') and len(it[2]) == 1):
        return None
    var = [x for x in subterms(comp[2][0]) if x[0] == 'elem' and x[1] == it]
    if len(set(var)) > 1:
        return None
    return poly.substitute(comp[2][0], {var[0]: idx}) if var else comp[2][0]


def reduce_comp_subs(t):
    """every ``[f(j) for j in range(n)][i]`` inside t replaced by ``f(i)``"""
    if isinstance(t, tuple):
        t = tuple(reduce_comp_subs(x) for x in t)
        if t and t[0] == 'sub' and isinstance(t[1], tuple) and t[1] and t[1][0] == 'comp':
            r = comp_at(t[1], t[2])
            if r is not None:
                return r
    return t


def _deficit_zero(c: Term, env: Dict[Term, Term]) -> Optional[bool]:
    """Is the non-negative count ``c`` certainly 0 (True) / certainly > 0 (False) under the
    substitution ``env``?  Loop-accumulated counts appear as the generic summand
    ``0 + (0 if cond else 1)`` whose inner index stays free: the sum is zero iff the summand
    is zero for an arbitrary index."""
    if c[0] == 'sub' and c[1][0] == 'comp':
        r = comp_at(c[1], c[2])
        if r is not None:
            return _deficit_zero(r, env)
    k = poly.is_const(poly.to_poly(c, env))
    if k is not None:
        return k == 0
    if c[0] == 'bin' and c[1] == '+':
        a, b = _deficit_zero(c[2], env), _deficit_zero(c[3], env)
        if a is True and b is True:
            return True
        if (a is False and b is not None) or (b is False and a is not None):
            return False
        return None
    if is_call(c, 'builtins.sum', 'torch.sum') and len(c[2]) >= 1 and c[2][0][0] == 'comp' and \
            len(c[2][0][2]) == 1:
        # sum(f(i, p) for p in ... [if g(i, p)]): zero iff the summand is zero, or filtered out,
        # for an arbitrary p (the comprehension variable stays free)
        start = _deficit_zero(c[2][1], env) if len(c[2]) > 1 else True
        z = _deficit_zero(c[2][0][2][0], env)
        for g in c[2][0][3]:
            for f in g[2]:
                if poly.simplify_truth(poly.substitute(f, env), env) is False:
                    z = True
        if z is True and start is True:
            return True
        return None
    if c[0] == 'ifexp':
        t = poly.simplify_truth(poly.substitute(c[1], env), env)
        a, b = _deficit_zero(c[2], env), _deficit_zero(c[3], env)
        if t is True:
            return a
        if t is False:
            return b
        return a if a is not None and a == b else None
    return None


def norm_full_at(repo: Repo, gen: FunctionInfo, k: int) -> Tuple[Dict[str, Optional[bool]], Term]:
    """For component ``k`` of the tuple returned by a normalisation-constant generator:
    pos -> is the constant there certainly 1/A with A the full count (True), certainly
    1/(A - c) with c > 0 (False), or unknown (None); plus A.  Elements have the shape
    ``1.0 / (A - c(i))`` for i in range(n), the vector optionally flipped.  Counts accumulated
    under ``if`` statements arrive as several paths: a path contributes at a position when its
    branch conditions are not refuted there."""
    shapes = []
    for p in returning(paths(repo, gen)):
        if any(e.kind == 'loop0' for e in p.events):
            continue
        r = p.retval
        if r[0] == 'tuple':
            if k >= len(r[1]):
                raise AnchorError('generator returns too few components')
            r = r[1][k]
        elif k != 0:
            raise AnchorError('generator does not return a tuple')
        rs = rowsum_form(repo, gen, r)
        if rs is not None:
            return rs
        conds = [(e.data[0], e.data[1]) for e in p.events if e.kind == 'assume']
        shapes.append(_norm_shape(r, conds) + (conds,))
    if not shapes:
        raise AnchorError('generator has no usable return path')
    flips, A, idx, n = shapes[0][:4]
    for sh in shapes[1:]:
        if sh[:4] != (flips, A, idx, n):
            raise AnchorError('return paths build the constant differently')
    out = {}
    for pos, i in ((S, ('const', 0)), (E, ('bin', '-', n, ('const', 1)))):
        env = {idx: i} if idx is not None else {}
        res = []
        for sh in shapes:
            c, conds = sh[4], sh[5]
            if any(poly.simplify_truth(poly.substitute(a, env), env) is (not pol)
                   for a, pol in conds):
                continue            # this branch combination cannot occur at that position
            res.append(_deficit_zero(c, env))
        if res and all(r is True for r in res):
            out[pos] = True
        elif res and all(r is False for r in res):
            out[pos] = False
        else:
            out[pos] = None
    if flips % 2:
        out = {S: out[E], E: out[S]}
    return out, A


def rowsum_form(repo: Repo, gen: FunctionInfo, r: Term):
    """Normalisation written as the reciprocal of the row sums of the masker's own 0/1 matrix:
    ``1 / C.sum(dim=1)`` with ``theta = C @ blend``.  The constant at an output position is
    then 1/(number of parameters reaching it), in C's own coordinates: it is the full count
    where the row of C is full (ones in both extreme columns) -- unless the vector is flipped
    an odd number of times afterwards.  Returns (pos -> full?, A) or None for other forms."""
    from .util import attr_classes
    t, flips = r, 0
    while True:
        c, mc = callee(t), method_call(t)
        if c in ('torch.flip', 'torch.flipud'):
            flips, t = flips + 1, t[2][0]
        elif mc and mc[1] == 'flip':
            flips, t = flips + 1, mc[0]
        elif mc and mc[1] in ('float', 'to', 'clone', 'detach', 'contiguous', 'double', 'type'):
            t = mc[0]
        else:
            break
    if not (t[0] == 'bin' and t[1] == '/' and poly.is_const(poly.to_poly(t[2])) == 1):
        return None
    den = t[3]
    c, mc = callee(den), method_call(den)
    if c == 'torch.sum' and den[2]:
        M, rest, kws = den[2][0], den[2][1:], dict(den[3])
    elif mc and mc[1] == 'sum':
        M, rest, kws = mc[0], mc[2], dict(mc[3])
    else:
        return None
    if not (M[0] == 'attr' and M[1][0] == 'attr' and M[1][1] == SELF) or gen.cls is None:
        return None
    dim = kws.get('dim', rest[0] if rest else None)
    mcls = [k for k in attr_classes(repo, gen.cls, M[1][2]) if repo.find_getter(k, 'theta')]
    if not mcls:
        return None
    mi = analyse_masker(repo, mcls[0])
    if mi.error or mi.c is None or mi.c_name != M[2]:
        raise AnchorError(f'{show(M)} is not the matrix that {mcls[0].name}.theta multiplies by')
    if dim not in (('const', 1), ('const', -1)):
        raise AnchorError(f'{show(den)} does not sum over the parameters reaching each position '
                          f'(theta = C @ blend sums over dim 1)')
    out = {}
    for pos in (S, E):
        a, b = mi.c.at[(pos, S)], mi.c.at[(pos, E)]
        out[pos] = True if (a is True and b is True) else False if (a is False or b is False) \
            else None
    if flips % 2:
        out = {S: out[E], E: out[S]}
    return out, ('sym', f'columns of {M[2]}')


def _norm_shape(best: Term, conds=()):
    t, flips = best, 0
    ev = AnchorEval({})
    while True:
        c, mc = callee(t), method_call(t)
        if c == 'torch.flip' or c == 'torch.flipud':
            flips += 1
            t = t[2][0]
        elif mc and mc[1] == 'flip':
            flips += 1
            t = mc[0]
        elif c in ('torch.tensor', 'torch.as_tensor', 'torch.Tensor', 'torch.FloatTensor'):
            t = t[2][0]
            break
        elif mc and mc[1] in ('float', 'to', 'clone', 'detach', 'contiguous', 'double', 'type'):
            t = mc[0]
        else:
            raise AnchorError(f'unsupported normalisation constructor {show(t)}')
    if t[0] == 'comp':
        if len(t[3]) != 1 or len(t[2]) != 1 or t[3][0][2]:
            raise AnchorError('nested/filtered comprehension')
        it = t[3][0][1]
        e = reduce_comp_subs(t[2][0])
        idx = ev.find_elem(e, it)
        n = ev.range_len(it)
    elif t[0] == 'list' and len(t[1]) == 1:
        e = reduce_comp_subs(t[1][0])
        elems = ev.elems_of(e)
        for a, _pol in conds:
            elems += [x for x in ev.elems_of(a) if x not in elems]
        elems = sorted([x for x in elems if is_call(x[1], 'builtins.range')],
                       key=lambda x: x[2] if len(x) > 2 else ())
        if not elems:
            raise AnchorError('constant does not depend on the position')
        idx = elems[0]                  # outermost loop variable (lexically first)
        n = ev.range_len(idx[1])
    else:
        raise AnchorError(f'unsupported normalisation list {show(t)}')
    if not (e[0] == 'bin' and e[1] == '/' and poly.is_const(poly.to_poly(e[2])) == 1):
        raise AnchorError(f'normalisation element is not a reciprocal: {show(e)}')
    den = e[3]
    if den[0] == 'bin' and den[1] == '-':
        A, c = den[2], den[3]
    else:
        A, c = den, ('const', 0)
    if idx is not None and mentions(A, lambda x: x == idx):
        raise AnchorError(f'full count {show(A)} depends on the position')
    return flips, A, idx, n, c
