"""Stale-snapshot detection (AST def-use).

A name ``u`` whose value was computed from the contents of a mutable object ``X``
(``u = f(X)``) is a snapshot of X.  If a loop mutates X in place (``X[i] = ..``, ``X[i] op= ..``,
``X op= ..``, in-place / container-mutating method) and reads ``u`` in the same loop without
recomputing it in the loop, iterations after the first see a snapshot that no longer describes
X.  Reported per (loop, snapshot, mutated object).  Names that are deliberately kept as the
"before" state do not read the mutated object (``new = old.clone()`` reads ``old``, and it is
``new`` that is mutated), so they are not reported.
"""
from __future__ import annotations

import ast
from typing import Dict, List, Set, Tuple

MUTATORS = {'append', 'extend', 'pop', 'remove', 'insert', 'clear', 'update', 'add', 'discard',
            'sort', 'reverse', 'setdefault', 'popitem'}
COPIES = {'clone', 'copy', 'deepcopy', 'detach', 'item', 'tolist', 'numpy'}


def _base_name(n: ast.AST):
    while isinstance(n, (ast.Subscript, ast.Attribute)):
        n = n.value
    return n.id if isinstance(n, ast.Name) else None


def mutated_in(loop: ast.AST) -> Dict[str, ast.AST]:
    out: Dict[str, ast.AST] = {}
    for n in ast.walk(loop):
        if isinstance(n, ast.Assign):
            for t in n.targets:
                for x in ([t] if not isinstance(t, (ast.Tuple, ast.List)) else t.elts):
                    if isinstance(x, ast.Subscript):
                        b = _base_name(x)
                        if b:
                            out.setdefault(b, n)
        elif isinstance(n, ast.AugAssign):
            if isinstance(n.target, ast.Subscript):
                b = _base_name(n.target)
                if b:
                    out.setdefault(b, n)
        elif isinstance(n, ast.Call) and isinstance(n.func, ast.Attribute):
            m = n.func.attr
            if (m in MUTATORS or (m.endswith('_') and not m.endswith('__'))) and \
                    isinstance(n.func.value, ast.Name):
                out.setdefault(n.func.value.id, n)
    return out


def stored_in(node: ast.AST) -> Set[str]:
    return {n.id for n in ast.walk(node) if isinstance(n, ast.Name) and
            isinstance(n.ctx, (ast.Store, ast.Del))}


def _loads(node: ast.AST) -> Set[str]:
    return {n.id for n in ast.walk(node) if isinstance(n, ast.Name) and
            isinstance(n.ctx, ast.Load)}


def stale_snapshots(fn: ast.FunctionDef) -> Tuple[List[Tuple[ast.AST, str, str, ast.AST, ast.AST]], int]:
    """Returns ([(loop, snapshot name, mutated object, def site, mutation site)], loops seen)."""
    # all simple definitions  name = expr  in the function, by line
    defs: Dict[str, List[ast.Assign]] = {}
    for n in ast.walk(fn):
        if isinstance(n, ast.Assign) and len(n.targets) == 1 and isinstance(n.targets[0], ast.Name):
            defs.setdefault(n.targets[0].id, []).append(n)
    found = []
    loops = [n for n in ast.walk(fn) if isinstance(n, (ast.For, ast.While))]
    for loop in loops:
        mut = mutated_in(loop)
        if not mut:
            continue
        local = stored_in(loop)
        used = set()
        for s in loop.body + loop.orelse:
            used |= _loads(s)
        if isinstance(loop, ast.While):
            used |= _loads(loop.test)
        for u in sorted(used - local):
            # reaching definitions before the loop
            for d in [x for x in defs.get(u, []) if x.lineno < loop.lineno]:
                # what the definition reads, through earlier single definitions of names that
                # are themselves not recomputed in the loop
                seen, work = set(), [d.value]
                reads: Set[str] = set()
                while work:
                    e = work.pop()
                    for nm in _loads(e):
                        if nm in seen:
                            continue
                        seen.add(nm)
                        reads.add(nm)
                        if nm in local:
                            continue
                        for dd in defs.get(nm, []):
                            if dd.lineno < d.lineno:
                                work.append(dd.value)
                for X in sorted(reads & set(mut)):
                    if X == u:
                        continue
                    # u = X.clone() style: u is a copy made on purpose before the loop and X
                    # itself is the object being rewritten -> that is the "before" state
                    found.append((loop, u, X, d, mut[X]))
    return found, len(loops)
