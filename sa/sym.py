"""Path-enumerating def-use evaluator: turns a function body into *terms*.

This is a dataflow analysis, not an execution: values are never computed.  Each local
variable is replaced by the (hashable, structurally comparable) term that defines it on
the current path, so that rules can ask "which expression reaches this argument /
subscript / return", independently of temporaries, statement order of independent
statements, ``cast``/``torch.no_grad`` wrappers, etc.

A *path* is one way through the structured control flow (if/elif/else, for/while taken
zero or one time, with, try/except, return/raise/break/continue).  Branch conditions are
recorded as assumptions ``(atom, polarity)``; a later test of the same atom on the same
path follows the recorded polarity only (correlated branches such as
``if conv.bias is not None`` repeated three times in a constructor do not create
infeasible paths).
"""
from __future__ import annotations

import ast
import itertools
from dataclasses import dataclass, field
from typing import Any, Callable, Dict, Iterable, List, Optional, Tuple

from .model import AnalysisError, ClassInfo, FunctionInfo, Module, Repo

Term = tuple

MAX_PATHS = 6000

_uid = itertools.count(1)


def const(v) -> Term:
    return ('const', v)


NONE = ('const', None)
TRUE = ('const', True)
FALSE = ('const', False)

BINOPS = {ast.Add: '+', ast.Sub: '-', ast.Mult: '*', ast.Div: '/', ast.FloorDiv: '//',
          ast.Mod: '%', ast.Pow: '**', ast.MatMult: '@', ast.BitAnd: '&', ast.BitOr: '|',
          ast.BitXor: '^', ast.LShift: '<<', ast.RShift: '>>'}
UNOPS = {ast.Not: 'not', ast.USub: 'neg', ast.UAdd: 'pos', ast.Invert: '~'}
CMPOPS = {ast.Eq: '==', ast.NotEq: '!=', ast.Lt: '<', ast.LtE: '<=', ast.Gt: '>', ast.GtE: '>=',
          ast.Is: 'is', ast.IsNot: 'is not', ast.In: 'in', ast.NotIn: 'not in'}

# wrappers that do not change the value they are applied to (def-use transparent)
TRANSPARENT_CALLS = {'typing.cast': 1, 'cast': 1}


@dataclass
class Event:
    kind: str               # call | setattr | setitem | assume | return | raise | yield | delete | assert
    data: tuple
    node: Optional[ast.AST]
    ctx: tuple              # active contexts: ('with', term) / ('loop', uid, iter) / ('try',) / ('except', type)

    @property
    def lineno(self) -> int:
        return getattr(self.node, 'lineno', 0)


@dataclass
class State:
    env: Dict[str, Term]
    events: List[Event] = field(default_factory=list)
    assumptions: List[Tuple[Term, bool]] = field(default_factory=list)
    status: str = 'normal'      # normal | return | raise | break | continue
    retval: Optional[Term] = None
    ctx: tuple = ()
    undefined_uses: List[Tuple[str, ast.AST]] = field(default_factory=list)
    maybe_deleted: set = field(default_factory=set)
    types: Dict[Term, str] = field(default_factory=dict)     # from cast(T, x)

    def fork(self) -> 'State':
        return State(dict(self.env), list(self.events), list(self.assumptions), self.status,
                     self.retval, self.ctx, list(self.undefined_uses), set(self.maybe_deleted),
                     dict(self.types))

    # -- queries used by rules ------------------------------------------------------------
    def calls(self) -> List[Event]:
        return [e for e in self.events if e.kind == 'call']

    def stores(self) -> List[Event]:
        return [e for e in self.events if e.kind in ('setattr', 'setitem')]


_LOCAL_FNS: Dict[str, FunctionInfo] = {}


def _subst_terms(t, m):
    if isinstance(t, tuple):
        if t in m:
            return m[t]
        return tuple(_subst_terms(x, m) for x in t)
    return t


def _rebuild_free(x, free):
    """Free variables of a nested function appear as unresolved globals (``self.a.b`` folded
    into one dotted name): rebuilt from the environment frozen at the definition."""
    if isinstance(x, tuple):
        if len(x) == 2 and x[0] == 'global' and isinstance(x[1], str) and \
                x[1].startswith('builtins.'):
            parts = x[1][len('builtins.'):].split('.')
            if parts[0] in free:
                v = free[parts[0]]
                for a in parts[1:]:
                    v = ('attr', v, a)
                return v
        return tuple(_rebuild_free(y, free) for y in x)
    return x


class _ForkInline(Exception):
    def __init__(self, node, paths_):
        self.node = node
        self.paths = paths_


class Evaluator:
    """Evaluates one function.  ``bind`` maps parameter names to caller-supplied terms."""

    def __init__(self, repo: Repo, fn: FunctionInfo, bind: Optional[Dict[str, Term]] = None,
                 max_paths: int = MAX_PATHS, loop_unroll: int = 1, inline=None, _depth: int = 0):
        # ``inline``: predicate FunctionInfo -> bool.  Calls of repository functions / methods
        # of the same object it accepts are replaced by the callee's body: its events are
        # spliced into the caller's path (contexts prefixed) and the call evaluates to what the
        # callee returns.  A callee with several returning paths is inlined only where the call
        # is the whole statement / assigned value / returned value (the caller's path forks).
        self.inline = inline
        self._depth = _depth
        self._stmt_call = None
        self._inlined_call = None
        self._forced: Dict[int, State] = {}
        self.repo = repo
        self.fn = fn
        self.module: Module = fn.module
        self.bind = bind or {}
        self.max_paths = max_paths
        self.loop_unroll = loop_unroll
        self.local_names = _assigned_names(fn.node)
        self.local_fns: Dict[str, FunctionInfo] = {}
        self.npaths = 0

    # -- entry --------------------------------------------------------------------------
    def run(self) -> List[State]:
        env: Dict[str, Term] = {}
        for p in self.fn.all_params:
            env[p] = self.bind.get(p, ('param', p))
        st = State(env)
        outs = self.block(self.fn.node.body, [st])
        res = []
        for s in outs:
            if s.status in ('normal', 'break', 'continue'):
                s.status = 'return'
                s.retval = NONE
                s.events.append(Event('return', (NONE,), None, s.ctx))
            res.append(s)
        return res

    # -- statements ----------------------------------------------------------------------
    def block(self, stmts: List[ast.stmt], states: List[State]) -> List[State]:
        for st in stmts:
            nxt: List[State] = []
            for s in states:
                if s.status != 'normal':
                    nxt.append(s)
                else:
                    nxt.extend(self.stmt(st, s))
            states = nxt
            if len(states) > self.max_paths:
                raise AnalysisError(f'{self.fn.qualname}: more than {self.max_paths} paths')
        return states

    def stmt(self, st: ast.stmt, s: State) -> List[State]:
        m = getattr(self, 'st_' + type(st).__name__, None)
        if m is None:
            raise AnalysisError(f'{self.fn.where}: unsupported statement {type(st).__name__} '
                                f'at line {st.lineno}')
        if self.inline is None:
            return m(st, s)
        top = None
        if isinstance(st, (ast.Expr, ast.Return)) and isinstance(st.value, ast.Call):
            top = st.value
        elif isinstance(st, ast.Expr) and isinstance(st.value, ast.YieldFrom) and \
                isinstance(st.value.value, ast.Call):
            top = st.value.value
        elif isinstance(st, (ast.Assign, ast.AnnAssign)) and isinstance(st.value, ast.Call):
            top = st.value
        if top is None:
            return m(st, s)
        pristine = s.fork()
        prev, self._stmt_call = self._stmt_call, top
        try:
            return m(st, s)
        except _ForkInline as fk:
            outs: List[State] = []
            for q in fk.paths:
                s2 = pristine.fork()
                self._forced[id(fk.node)] = q
                try:
                    outs.extend(m(st, s2))
                finally:
                    self._forced.pop(id(fk.node), None)
            return outs
        finally:
            self._stmt_call = prev

    # -- inlining --------------------------------------------------------------------------
    def _inline_target(self, f: Term, args, kws):
        if self.inline is None or self._depth >= 2:
            return None
        fi, bind = None, {}
        if f[0] == 'global' and f[1] in self.repo.functions:
            cand = self.repo.functions[f[1]]
            if cand.cls is None and cand is not self.fn:
                fi, formal = cand, list(cand.params)
            elif cand.cls is not None and cand.kind == 'static' and cand is not self.fn:
                fi, formal = cand, list(cand.params)        # Class.static_helper(...)
        elif f[0] == 'attr' and self.fn.cls is not None and self.fn.params and \
                f[1] == self.bind.get(self.fn.params[0], ('param', self.fn.params[0])) and \
                self.fn.kind != 'static':
            cand = self.repo.find_method(self.fn.cls, f[2])
            if cand is not None and cand is not self.fn and cand.kind in ('method', 'static'):
                fi = cand
                if cand.kind == 'method':
                    bind[cand.params[0]] = f[1]
                    formal = list(cand.params[1:])
                else:
                    formal = list(cand.params)
        if fi is None or not fi.module.name.startswith('plinio.') or not self.inline(fi):
            return None
        if any(isinstance(a, tuple) and a and a[0] == 'starred' for a in args):
            return None
        for prm, a in zip(formal, args):
            bind[prm] = a
        for k, a in kws:
            if k == '**':
                return None
            bind[k] = a
        for prm, dv in fi.defaults().items():
            if prm not in bind:
                bind[prm] = ('const', dv.value) if isinstance(dv, ast.Constant) else \
                    ('unknown', 'default', prm)
        for prm in fi.all_params:
            bind.setdefault(prm, ('unknown', 'unbound', prm))
        return fi, bind

    def _splice(self, s: State, q: State, call_node=None, events=None):
        # spliced events live in the callee's frame: the marker records the call site, so that
        # guards_of can combine the tests enclosing the call site (caller's frame) with the
        # tests enclosing the construct inside the callee
        mark = (('inlined', call_node),) if call_node is not None else ()
        for e in (q.events if events is None else events):
            if e.kind == 'return':
                continue
            s.events.append(Event(e.kind, e.data, e.node, tuple(s.ctx) + mark + tuple(e.ctx)))
        for a in q.assumptions:
            if a not in s.assumptions:
                s.assumptions.append(a)
        s.types.update(q.types)

    def st_Expr(self, st: ast.Expr, s: State):
        if isinstance(st.value, ast.Constant):
            return [s]
        if isinstance(st.value, (ast.Yield, ast.YieldFrom)):
            n0 = len(s.events)
            v = self.expr(st.value.value, s) if st.value.value is not None else NONE
            if isinstance(st.value, ast.YieldFrom) and self._inlined_call is st.value.value:
                return [s]      # ``yield from helper()``: the inlined helper's yields are ours
            s.events.append(Event('yield', (v,), st, s.ctx))
            return [s]
        self.expr(st.value, s)
        return [s]

    def st_Pass(self, st, s):
        return [s]

    def st_Import(self, st, s):
        return [s]

    def st_ImportFrom(self, st: ast.ImportFrom, s: State):
        base = self.repo._abs_module(self.module, st.module, st.level)
        for a in st.names:
            q = self.repo.canonical(f'{base}.{a.name}' if base else a.name)
            s.env[a.asname or a.name] = ('global', q)
        return [s]

    def st_Global(self, st, s):
        return [s]

    def st_Nonlocal(self, st, s):
        return [s]

    def st_Assert(self, st: ast.Assert, s: State):
        c = self.expr(st.test, s)
        s.events.append(Event('assert', (c,), st, s.ctx))
        self.assume(s, c, True, st)
        return [s]

    def st_Delete(self, st: ast.Delete, s: State):
        for t in st.targets:
            if isinstance(t, ast.Name):
                s.env.pop(t.id, None)
            else:
                s.events.append(Event('delete', (self.expr(t, s),), st, s.ctx))
        return [s]

    def st_Return(self, st: ast.Return, s: State):
        v = self.expr(st.value, s) if st.value is not None else NONE
        s.status = 'return'
        s.retval = v
        s.events.append(Event('return', (v,), st, s.ctx))
        return [s]

    def st_Raise(self, st: ast.Raise, s: State):
        v = self.expr(st.exc, s) if st.exc is not None else NONE
        s.status = 'raise'
        s.retval = v
        s.events.append(Event('raise', (v,), st, s.ctx))
        return [s]

    def st_Break(self, st, s):
        s.status = 'break'
        return [s]

    def st_Continue(self, st, s):
        s.status = 'continue'
        return [s]

    def st_FunctionDef(self, st: ast.FunctionDef, s: State):
        fi = FunctionInfo(st.name, f'{self.fn.qualname}.<locals>.{st.name}@{st.lineno}', st, self.module,
                          self.fn.cls, 'function', parent=self.fn)
        self.local_fns[fi.qualname] = fi
        _LOCAL_FNS[fi.qualname] = fi
        s.env[st.name] = ('localfn', fi.qualname, _freeze_env(s.env, _free_names(st)))
        return [s]

    def st_ClassDef(self, st, s):
        s.env[st.name] = ('unknown', 'local class', st.lineno)
        return [s]

    def st_Assign(self, st: ast.Assign, s: State):
        v = self.expr(st.value, s)
        for t in st.targets:
            self.assign(t, v, s, st)
        return [s]

    def st_AnnAssign(self, st: ast.AnnAssign, s: State):
        if st.value is not None:
            v = self.expr(st.value, s)
            self.assign(st.target, v, s, st)
        return [s]

    def st_AugAssign(self, st: ast.AugAssign, s: State):
        cur = self.expr(_as_load(st.target), s)
        v = self.expr(st.value, s)
        nv = ('bin', BINOPS.get(type(st.op), '?'), cur, v)
        if isinstance(st.target, ast.Name):
            # x += v mutates the object x names when it is a tensor: rules that care about
            # aliasing (values handed out by reference) see the old value and the operand
            s.events.append(Event('augname', (st.target.id, cur, v), st, s.ctx))
        self.assign(st.target, nv, s, st, aug=True)
        return [s]

    def assign(self, t: ast.expr, v: Term, s: State, node: ast.AST, aug: bool = False):
        if isinstance(t, ast.Name):
            s.env[t.id] = v
            s.maybe_deleted.discard(t.id)
        elif isinstance(t, (ast.Tuple, ast.List)):
            starred = any(isinstance(e, ast.Starred) for e in t.elts)
            for i, e in enumerate(t.elts):
                if isinstance(e, ast.Starred):
                    self.assign(e.value, ('sub', v, ('slice', const(i), NONE, NONE)), s, node)
                elif v[0] in ('tuple', 'list') and not starred and len(v[1]) == len(t.elts):
                    self.assign(e, v[1][i], s, node)
                else:
                    self.assign(e, ('sub', v, const(i)), s, node)
        elif isinstance(t, ast.Attribute):
            obj = self.expr(t.value, s)
            s.events.append(Event('setattr', (obj, t.attr, v, aug), node, s.ctx))
            key = ('attr', obj, t.attr)
            s.assumptions = [(a, p) for a, p in s.assumptions if not _mentions(a, key)]
        elif isinstance(t, ast.Subscript):
            obj = self.expr(t.value, s)
            idx = self.index(t.slice, s)
            s.events.append(Event('setitem', (obj, idx, v, aug), node, s.ctx))
        elif isinstance(t, ast.Starred):
            self.assign(t.value, v, s, node)
        else:
            raise AnalysisError(f'{self.fn.where}: unsupported assignment target '
                                f'{type(t).__name__}')

    def st_If(self, st: ast.If, s: State):
        c = self.expr(st.test, s)
        d = self.decide(s, c)
        outs: List[State] = []
        if d is not False:
            s1 = s.fork() if d is None else s
            self.assume(s1, c, True, st)
            outs += self.block(st.body, [s1])
        if d is not True:
            s2 = s
            self.assume(s2, c, False, st)
            outs += self.block(st.orelse, [s2])
        return outs

    def _loop(self, st, s: State, iter_term: Optional[Term], cond_expr: Optional[ast.expr]):
        """Zero iterations and ``loop_unroll`` iterations; break/continue handled."""
        uid = (getattr(st, 'lineno', 0), getattr(st, 'col_offset', 0))
        outs: List[State] = []
        # zero iterations
        s0 = s.fork()
        if cond_expr is not None:
            c = self.expr(cond_expr, s0)
            d = self.decide(s0, c)
            if d is True:
                s0 = None
            else:
                self.assume(s0, c, False, st)
        if s0 is not None:
            s0.events.append(Event('loop0', (uid, iter_term), st, s0.ctx))
            outs += self.block(st.orelse, [s0])
        # one (or more) iterations
        cur = [s]
        for k in range(self.loop_unroll):
            nxt: List[State] = []
            for si in cur:
                if cond_expr is not None:
                    c = self.expr(cond_expr, si)
                    d = self.decide(si, c)
                    if d is False:
                        if k > 0:
                            nxt_done = si
                            nxt_done.status = 'normal'
                            outs += self.block(st.orelse, [nxt_done])
                        continue
                    self.assume(si, c, True, st)
                else:
                    elem = ('elem', iter_term, uid) if k == 0 else ('elem', iter_term, uid + (k,))
                    self.assign(st.target, elem, si, st)
                old_ctx = si.ctx
                si.ctx = si.ctx + (('loop', uid, iter_term),)
                body_out = self.block(st.body, [si])
                for b in body_out:
                    b.ctx = old_ctx
                    if b.status == 'break':
                        b.status = 'normal'
                        outs.append(b)
                    elif b.status in ('return', 'raise'):
                        outs.append(b)
                    else:
                        b.status = 'normal'
                        nxt.append(b)
            cur = nxt
        # after the modelled iterations the loop ends normally -> else clause.  For a
        # ``while`` the exit condition is *not* assumed false: further iterations may have
        # run, so nothing is known about it.
        for si in cur:
            si.events.append(Event('loopend', (uid, iter_term), st, si.ctx))
            outs += self.block(st.orelse, [si])
        return outs

    def _global_tuple(self, qual: str) -> Optional[Term]:
        """Term of a module-level constant table ``NAME = (a, b, ...)`` (a tuple display of at
        most 4 elements, assigned once): iterating it is iterating the display."""
        modname, _, name = qual.rpartition('.')
        mod = self.repo.modules.get(modname)
        if mod is None:
            return None
        sts = mod.assigns.get(name, [])
        if len(sts) != 1 or not isinstance(sts[0], (ast.Assign, ast.AnnAssign)) or \
                not isinstance(sts[0].value, ast.Tuple) or not 1 <= len(sts[0].value.elts) <= 4:
            return None
        node = ast.parse('def _verif_const():\n    pass').body[0]
        fi = FunctionInfo('_verif_const', modname + '._verif_const', node, mod, None, 'function')
        try:
            return Evaluator(self.repo, fi).expr(sts[0].value, State({}))
        except AnalysisError:
            return None

    def _probe_target(self, call: ast.Call, s: State):
        """(function, binding) when ``call`` is a call of an inlinable helper, evaluated on a
        scratch state (no events are recorded)."""
        probe = s.fork()
        prev_inline, self.inline = self.inline, None        # evaluate the call expression plainly
        try:
            f = self.expr(call.func, probe)
            args = tuple(self.expr(a, probe) for a in call.args
                         if not isinstance(a, ast.Starred))
            kws = tuple((k.arg if k.arg is not None else '**', self.expr(k.value, probe))
                        for k in call.keywords)
        finally:
            self.inline = prev_inline
        self._probed_term = ('call', f, args, kws)
        if any(isinstance(a, ast.Starred) for a in call.args):
            return None
        return self._inline_target(f, args, kws)

    def _generator_loop(self, st: ast.For, s: State):
        """``for x in helper(...)`` where helper is an inlinable generator: the helper runs up to
        each of its yields, the loop body runs with the target bound to the yielded value, and
        the helper resumes -- the paths of the loop written in place (helper paths that yield
        nothing are the zero-iteration paths)."""
        call = st.iter
        tgt = self._probe_target(call, s)
        if tgt is None:
            return None
        fi, cbind = tgt
        own = [n for n in ast.walk(fi.node) if isinstance(n, (ast.Yield, ast.YieldFrom))]
        if not own or fi.node.decorator_list:
            return None
        try:
            sub = Evaluator(self.repo, fi, cbind, self.max_paths, self.loop_unroll,
                            self.inline, self._depth + 1).run()
        except AnalysisError:
            return None
        rets = [q for q in sub if q.status == 'return']
        if not rets or len(rets) > 8 or \
                any(sum(1 for e in q.events if e.kind == 'yield') > 2 for q in rets):
            return None
        uid = (getattr(st, 'lineno', 0), getattr(st, 'col_offset', 0))
        it = self._probed_term          # the iteration domain is the generator call
        outs: List[State] = []
        for q in rets:
            cur = [s.fork()]
            seg: List[Event] = []
            done: List[State] = []
            n_y = 0
            for e in q.events:
                if e.kind != 'yield':
                    seg.append(e)
                    continue
                nxt: List[State] = []
                for si in cur:
                    self._splice(si, q, call, seg)
                    self.assign(st.target, e.data[0], si, st)
                    old_ctx = si.ctx
                    si.ctx = si.ctx + (('loop', uid + (('gen', n_y),), it, call),)
                    for b in self.block(st.body, [si]):
                        b.ctx = old_ctx
                        if b.status == 'break':
                            b.status = 'normal'
                            done.append(b)
                        elif b.status in ('return', 'raise'):
                            outs.append(b)
                        else:
                            b.status = 'normal'
                            nxt.append(b)
                cur, seg = nxt, []
                n_y += 1
                if len(cur) > 64:
                    raise AnalysisError(f'{self.fn.qualname}: too many paths in a generator loop')
            for si in cur:
                self._splice(si, q, call, seg)
                si.events.append(Event('loop0' if n_y == 0 else 'loopend', (uid, it), st, si.ctx))
                outs += self.block(st.orelse, [si])
            outs += done
        return outs

    def st_For(self, st: ast.For, s: State):
        if self.inline is not None and isinstance(st.iter, ast.Call):
            g = self._generator_loop(st, s)
            if g is not None:
                return g
        it = self.expr(st.iter, s)
        if it[0] == 'global' and isinstance(it[1], str):
            tab = self._global_tuple(it[1])
            if tab is not None and tab[0] == 'tuple':
                it = tab
        if it[0] == 'call' and it[1] == ('global', 'builtins.range') and not it[3]:
            # integer constant folding of the bounds (range(2, 2 + n_dims) with n_dims bound to a
            # constant at the call of a helper)
            def _fold(a):
                if a[0] == 'bin' and a[1] in ('+', '-', '*'):
                    x, y = _fold(a[2]), _fold(a[3])
                    if x[0] == 'const' and y[0] == 'const' and type(x[1]) is int and \
                            type(y[1]) is int:
                        return ('const', {'+': x[1] + y[1], '-': x[1] - y[1],
                                          '*': x[1] * y[1]}[a[1]])
                return a
            it = (it[0], it[1], tuple(_fold(a) for a in it[2]), it[3])
        if it[0] == 'call' and it[1] == ('global', 'builtins.range') and 1 <= len(it[2]) <= 3 and \
                not it[3] and all(a[0] == 'const' and type(a[1]) is int for a in it[2]) and \
                (len(it[2]) < 3 or it[2][2][1] != 0) and \
                len(range(*[a[1] for a in it[2]])) <= 4:
            # range(n) / range(a, b) with known small bounds (typically a helper's parameter
            # bound at the call)
            it = ('tuple', tuple(('const', k) for k in range(*[a[1] for a in it[2]])))
            if not it[1]:
                s.events.append(Event('loopend', ((st.lineno, st.col_offset), it), st, s.ctx))
                return self.block(st.orelse, [s])
        if it[0] in ('tuple', 'list') and 1 <= len(it[1]) <= 4 and \
                (all(_is_literal(x) for x in it[1]) or it[0] == 'tuple' or
                 isinstance(st.iter, (ast.Tuple, ast.List))):
            # a literal collection, or a display written in the loop header (its elements are
            # evaluated once, before the first iteration): executed exactly
            return self._const_loop(st, s, it)
        return self._loop(st, s, it, None)

    def _const_loop(self, st: ast.For, s: State, it: Term):
        """A loop over a short literal collection is executed exactly, one iteration per
        element with the loop variable bound to that literal (``for name in ('a', 'b')``)."""
        uid = (getattr(st, 'lineno', 0), getattr(st, 'col_offset', 0))
        outs: List[State] = []
        cur = [s]
        broken: List[State] = []
        for k, elem in enumerate(it[1]):
            nxt: List[State] = []
            for si in cur:
                self.assign(st.target, elem, si, st)
                old_ctx = si.ctx
                si.ctx = si.ctx + (('loop', uid + (('lit', k),), it),)
                for b in self.block(st.body, [si]):
                    b.ctx = old_ctx
                    if b.status == 'break':
                        b.status = 'normal'
                        broken.append(b)
                    elif b.status in ('return', 'raise'):
                        outs.append(b)
                    else:
                        b.status = 'normal'
                        nxt.append(b)
            cur = nxt
            if len(cur) > 64:
                raise AnalysisError(f'{self.fn.qualname}: too many paths in a literal loop')
        for si in cur:
            si.events.append(Event('loopend', (uid, it), st, si.ctx))
            outs += self.block(st.orelse, [si])
        return outs + broken

    def st_While(self, st: ast.While, s: State):
        return self._loop(st, s, None, st.test)

    def st_With(self, st: ast.With, s: State):
        old = s.ctx
        # ``with helper(...):`` where helper is an inlinable @contextmanager generator: its
        # statements before the yield run on entry, those after it on exit (no exception path)
        if self.inline is not None and len(st.items) == 1 and \
                isinstance(st.items[0].context_expr, ast.Call):
            cm = self._context_manager(st, s)
            if cm is not None:
                return cm
        for item in st.items:
            ce = self.expr(item.context_expr, s)
            if item.optional_vars is not None:
                self.assign(item.optional_vars, ('enter', ce), s, st)
            s.ctx = s.ctx + (('with', ce),)
        outs = self.block(st.body, [s])
        for o in outs:
            o.ctx = old
        return outs

    def _context_manager(self, st: ast.With, s: State):
        call = st.items[0].context_expr
        tgt = self._probe_target(call, s)
        if tgt is None:
            return None
        fi, cbind = tgt
        decos = [ast.unparse(d) for d in getattr(fi.node, 'decorator_list', [])]
        if not any(d.endswith('contextmanager') for d in decos):
            return None
        try:
            sub = Evaluator(self.repo, fi, cbind, self.max_paths, self.loop_unroll,
                            self.inline, self._depth + 1).run()
        except AnalysisError:
            return None
        rets = [q for q in sub if q.status == 'return' and
                sum(1 for e in q.events if e.kind == 'yield') == 1]
        if not rets or len(rets) > 4:
            return None
        outs: List[State] = []
        for q in rets:
            s2 = s.fork()
            k = next(i for i, e in enumerate(q.events) if e.kind == 'yield')
            self._splice(s2, q, call, q.events[:k])
            if st.items[0].optional_vars is not None:
                self.assign(st.items[0].optional_vars, q.events[k].data[0], s2, st)
            for a in q.assumptions:
                if a not in s2.assumptions:
                    s2.assumptions.append(a)
            for b in self.block(st.body, [s2]):
                if b.status in ('normal', 'return', 'break', 'continue'):
                    self._splice(b, q, call, q.events[k + 1:])
                outs.append(b)
        return outs

    def st_Try(self, st: ast.Try, s: State):
        outs: List[State] = []
        old = s.ctx
        # handler paths: the try body is assumed to fail before any of its effects
        for h in st.handlers:
            sh = s.fork()
            ht = self.expr(h.type, sh) if h.type is not None else NONE
            sh.ctx = old + (('except', ht),)
            if h.name:
                sh.env[h.name] = ('exception', ht)
            hs = self.block(h.body, [sh])
            for o in hs:
                o.ctx = old
            outs += hs
        s.ctx = old + (('try',),)
        body = self.block(st.body, [s])
        for o in body:
            o.ctx = old
        body = self.block(st.orelse, body)
        outs += body
        if st.finalbody:
            fin: List[State] = []
            for o in outs:
                status, rv = o.status, o.retval
                o.status = 'normal'
                for f in self.block(st.finalbody, [o]):
                    if f.status == 'normal':
                        f.status, f.retval = status, rv
                    fin.append(f)
            outs = fin
        return outs

    # -- conditions ----------------------------------------------------------------------
    def atomize(self, c: Term) -> Tuple[Term, bool]:
        """(atom, polarity) such that c <=> (atom is polarity)."""
        pol = True
        while True:
            if c[0] == 'un' and c[1] == 'not':
                c, pol = c[2], not pol
                continue
            if c[0] == 'cmp':
                op, a, b = c[1], c[2], c[3]
                if op in ('is', 'is not') and (b == NONE or a == NONE):
                    x = a if b == NONE else b
                    return ('isnone', x), (pol if op == 'is' else not pol)
                if op == '!=':
                    return ('cmp', '==', a, b), not pol
                if op == 'is not':
                    return ('cmp', 'is', a, b), not pol
                if op == 'not in':
                    return ('cmp', 'in', a, b), not pol
            return c, pol

    def decide(self, s: State, c: Term) -> Optional[bool]:
        if c[0] == 'const':
            return bool(c[1])
        if c[0] == 'bool':
            for a, p in s.assumptions:
                if a == c:
                    return p
            vals = [self.decide(s, v) for v in c[2]]
            if c[1] == 'and':
                if any(v is False for v in vals):
                    return False
                if all(v is True for v in vals):
                    return True
                return None
            if any(v is True for v in vals):
                return True
            if all(v is False for v in vals):
                return False
            return None
        atom, pol = self.atomize(c)
        if atom[0] == 'bool' and atom is not c:
            d = self.decide(s, atom)
            return None if d is None else (d == pol)
        if atom[0] == 'isnone':
            k = _static_noneness(atom[1])
            if k is not None:
                return k == pol
        for a, p in s.assumptions:
            if a == atom:
                return p == pol
        return None

    def assume(self, s: State, c: Term, val: bool, node: ast.AST):
        if c[0] == 'const':
            return
        atom, pol = self.atomize(c)
        want = (val == pol)
        if atom[0] == 'bool':
            if (atom[1] == 'and' and want) or (atom[1] == 'or' and not want):
                for v in atom[2]:
                    self.assume(s, v, want, node)
                return
            # a false conjunction / true disjunction: if all but one are decided the
            # remaining one is implied
            und = [v for v in atom[2] if self.decide(s, v) is None]
            if len(und) == 1:
                self.assume(s, und[0], want, node)
                return
        if self.decide(s, atom) is None:
            s.assumptions.append((atom, want))
        s.events.append(Event('assume', (atom, want), node, s.ctx))

    # -- expressions ---------------------------------------------------------------------
    def index(self, e: ast.expr, s: State) -> Term:
        if isinstance(e, ast.Slice):
            return ('slice', self.expr(e.lower, s) if e.lower else NONE,
                    self.expr(e.upper, s) if e.upper else NONE,
                    self.expr(e.step, s) if e.step else NONE)
        if isinstance(e, ast.Tuple):
            return ('tuple', tuple(self.index(x, s) for x in e.elts))
        return self.expr(e, s)

    def expr(self, e: Optional[ast.expr], s: State) -> Term:
        if e is None:
            return NONE
        m = getattr(self, 'ex_' + type(e).__name__, None)
        if m is None:
            raise AnalysisError(f'{self.fn.where}: unsupported expression {type(e).__name__} '
                                f'at line {getattr(e, "lineno", 0)}')
        return m(e, s)

    def ex_Constant(self, e: ast.Constant, s):
        v = e.value
        if isinstance(v, (bytes,)):
            v = repr(v)
        if v is Ellipsis:
            v = '...'
        return ('const', v)

    def ex_Name(self, e: ast.Name, s: State):
        if e.id in s.env:
            return s.env[e.id]
        if e.id in self.local_names:
            # a local that is not (yet) bound on this path
            s.undefined_uses.append((e.id, e))
            return ('undef', e.id)
        q = self.resolve_global(e.id)
        return q

    def resolve_global(self, name: str) -> Term:
        # enclosing function locals are not modelled (closures get a frozen env instead)
        q = self.repo.resolve_name(self.module, name)
        if q is not None:
            return ('global', q)
        return ('global', f'builtins.{name}')

    def ex_Attribute(self, e: ast.Attribute, s: State):
        b = self.expr(e.value, s)
        if b[0] == 'global':
            q = self.repo.canonical(f'{b[1]}.{e.attr}')
            return ('global', q)
        return ('attr', b, e.attr)

    def ex_Subscript(self, e: ast.Subscript, s: State):
        b = self.expr(e.value, s)
        i = self.index(e.slice, s)
        if b[0] in ('tuple', 'list') and i[0] == 'const' and isinstance(i[1], int) \
                and -len(b[1]) <= i[1] < len(b[1]):
            return b[1][i[1]]
        return ('sub', b, i)

    def ex_Starred(self, e: ast.Starred, s):
        return ('starred', self.expr(e.value, s))

    def ex_Tuple(self, e: ast.Tuple, s):
        return ('tuple', tuple(self.expr(x, s) for x in e.elts))

    def ex_List(self, e: ast.List, s):
        return ('list', tuple(self.expr(x, s) for x in e.elts))

    def ex_Set(self, e: ast.Set, s):
        return ('set', tuple(self.expr(x, s) for x in e.elts))

    def ex_Dict(self, e: ast.Dict, s):
        return ('dict', tuple((self.expr(k, s) if k is not None else ('starstar',),
                               self.expr(v, s)) for k, v in zip(e.keys, e.values)))

    def ex_BinOp(self, e: ast.BinOp, s):
        return ('bin', BINOPS.get(type(e.op), '?'), self.expr(e.left, s), self.expr(e.right, s))

    def ex_UnaryOp(self, e: ast.UnaryOp, s):
        v = self.expr(e.operand, s)
        op = UNOPS.get(type(e.op), '?')
        if op == 'neg' and v[0] == 'const' and isinstance(v[1], (int, float)):
            return ('const', -v[1])
        if op == 'not' and v[0] == 'const':
            return ('const', not v[1])
        return ('un', op, v)

    def ex_BoolOp(self, e: ast.BoolOp, s):
        return ('bool', 'and' if isinstance(e.op, ast.And) else 'or',
                tuple(self.expr(v, s) for v in e.values))

    def ex_Compare(self, e: ast.Compare, s):
        left = self.expr(e.left, s)
        parts = []
        for op, r in zip(e.ops, e.comparators):
            rt = self.expr(r, s)
            parts.append(('cmp', CMPOPS.get(type(op), '?'), left, rt))
            left = rt
        parts = [_fold_cmp(x) for x in parts]
        if len(parts) == 1:
            return parts[0]
        if all(x[0] == 'const' for x in parts):
            return ('const', all(x[1] for x in parts))
        return ('bool', 'and', tuple(parts))

    def ex_IfExp(self, e: ast.IfExp, s: State):
        c = self.expr(e.test, s)
        d = self.decide(s, c)
        a = self.expr(e.body, s)
        b = self.expr(e.orelse, s)
        if d is True:
            return a
        if d is False:
            return b
        return ('ifexp', c, a, b)

    def ex_Lambda(self, e: ast.Lambda, s: State):
        params = tuple(a.arg for a in e.args.posonlyargs + e.args.args)
        if e.args.vararg:
            params += ('*' + e.args.vararg.arg,)
        s2 = s.fork()
        for p in params:
            s2.env[p.lstrip('*')] = ('bound', p.lstrip('*'))
        body = self.expr(e.body, s2)
        # calls made inside the lambda body are not events of the enclosing path
        return ('lambda', params, body)

    def ex_JoinedStr(self, e: ast.JoinedStr, s):
        parts = []
        for v in e.values:
            if isinstance(v, ast.Constant):
                parts.append(('const', v.value))
            elif isinstance(v, ast.FormattedValue):
                parts.append(self.expr(v.value, s))
        return ('fstr', tuple(parts))

    def ex_FormattedValue(self, e, s):
        return self.expr(e.value, s)

    def ex_NamedExpr(self, e: ast.NamedExpr, s):
        v = self.expr(e.value, s)
        self.assign(e.target, v, s, e)
        return v

    def ex_Await(self, e, s):
        return self.expr(e.value, s)

    def ex_Yield(self, e: ast.Yield, s):
        v = self.expr(e.value, s) if e.value is not None else NONE
        s.events.append(Event('yield', (v,), e, s.ctx))
        return ('unknown', 'yield value', getattr(e, 'lineno', 0))

    def ex_YieldFrom(self, e, s):
        v = self.expr(e.value, s)
        s.events.append(Event('yield', (('starred', v),), e, s.ctx))
        return ('unknown', 'yield from', getattr(e, 'lineno', 0))

    def _comp(self, kind: str, e, elts: List[ast.expr], s: State):
        s2 = s.fork()
        gens = []
        for g in e.generators:
            it = self.expr(g.iter, s2)
            uid = (g.iter.lineno, g.iter.col_offset)
            self.assign(g.target, ('elem', it, uid), s2, e)
            conds = tuple(self.expr(c, s2) for c in g.ifs)
            gens.append((ast.unparse(g.target), it, conds))
        vals = tuple(self.expr(x, s2) for x in elts)
        # calls evaluated inside a comprehension are events of the path too (tagged)
        for ev in s2.events[len(s.events):]:
            ev.ctx = ev.ctx + (('comp', getattr(e, 'lineno', 0)),)
            s.events.append(ev)
        s.undefined_uses = s2.undefined_uses
        return ('comp', kind, vals, tuple(gens))

    def ex_ListComp(self, e: ast.ListComp, s):
        return self._comp('list', e, [e.elt], s)

    def ex_SetComp(self, e, s):
        return self._comp('set', e, [e.elt], s)

    def ex_GeneratorExp(self, e, s):
        return self._comp('gen', e, [e.elt], s)

    def ex_DictComp(self, e: ast.DictComp, s):
        return self._comp('dict', e, [e.key, e.value], s)

    def ex_Call(self, e: ast.Call, s: State):
        f = self.expr(e.func, s)
        args = tuple(self.expr(a, s) for a in e.args)
        kws = tuple((k.arg if k.arg is not None else '**', self.expr(k.value, s))
                    for k in e.keywords)
        # transparent wrappers
        if f[0] == 'global' and f[1] in ('typing.cast', 'builtins.cast') and len(args) == 2:
            if args[0][0] == 'global':
                s.types[args[1]] = args[0][1]
            return args[1]
        # beta-reduction: a lambda / local function value called where it is known (typically a
        # callable handed to an inlined helper)
        if f[0] == 'lambda' and not kws and self._depth > 0:
            m = {('bound', p.lstrip('*')): a for p, a in zip(f[1], args)}
            if len(m) == len(f[1]) == len(args):
                return _subst_terms(f[2], m)
        if f[0] == 'localfn' and f[1] in _LOCAL_FNS and 0 < self._depth < 3:
            fi = _LOCAL_FNS[f[1]]
            cbind = {p: a for p, a in zip(fi.params, args)}
            for k, a in kws:
                cbind[k] = a
            try:
                sub = Evaluator(self.repo, fi, cbind, self.max_paths, self.loop_unroll,
                                self.inline, self._depth + 1).run()
            except AnalysisError:
                sub = []
            rets = [q for q in sub if q.status == 'return']
            if len(rets) == 1 and rets[0].retval is not None:
                free = dict(f[2])
                q = rets[0]
                q.events = [Event(ev.kind, tuple(_rebuild_free(x, free) for x in ev.data),
                                  ev.node, ev.ctx) for ev in q.events]
                self._splice(s, q, e)
                return _rebuild_free(q.retval, free)
        # a list display written as an argument is bound as an immutable sequence: a loop over
        # the parameter is then a loop over the display (unrolled exactly)
        args_b = args
        if len(e.args) == len(args):
            args_b = tuple(('tuple', a[1]) if isinstance(n, ast.List) and a[0] == 'list' else a
                           for n, a in zip(e.args, args))
        tgt = self._inline_target(f, args_b, kws)
        if tgt is not None:
            if id(e) in self._forced:
                q = self._forced[id(e)]
                self._splice(s, q, e)
                self._inlined_call = e
                return q.retval if q.retval is not None else NONE
            fi, cbind = tgt
            try:
                sub = Evaluator(self.repo, fi, cbind, self.max_paths, self.loop_unroll,
                                self.inline, self._depth + 1).run()
            except AnalysisError:
                sub = []
            rets = [q for q in sub if q.status == 'return']
            if len(rets) == 1:
                self._splice(s, rets[0], e)
                self._inlined_call = e
                return rets[0].retval if rets[0].retval is not None else NONE
            if len(rets) > 1 and e is self._stmt_call and len(rets) <= 24:
                raise _ForkInline(e, rets)
        # getattr(obj, 'name') with a constant name is the attribute itself
        if f == ('global', 'builtins.getattr') and len(args) == 2 and not kws and \
                args[1][0] == 'const' and isinstance(args[1][1], str):
            return ('attr', args[0], args[1][1])
        t = ('call', f, args, kws)
        s.events.append(Event('call', (t,), e, s.ctx))
        # d.update({'k': v, ...}) / d.update(k=v) store the listed items
        if f[0] == 'attr' and f[2] == 'update' and len(args) <= 1:
            items = []
            if args and args[0][0] == 'dict' and all(k[0] == 'const' for k, _ in args[0][1]):
                items = [(k, v) for k, v in args[0][1]]
            if not args or items:
                items += [(('const', k), v) for k, v in kws if k != '**']
            for k, v in items:
                s.events.append(Event('setitem', (f[1], k, v, False), e, s.ctx))
        # setattr(obj, 'name', v) with a constant name is an attribute store
        if f == ('global', 'builtins.setattr') and len(args) == 3 and args[1][0] == 'const' and \
                isinstance(args[1][1], str):
            s.events.append(Event('setattr', (args[0], args[1][1], args[2], False), e, s.ctx))
        # list building through ``name.append(v)`` on a local list literal is tracked in the
        # environment (the element may mention the loop variable: one generic row)
        if isinstance(e.func, ast.Attribute) and e.func.attr == 'append' and \
                isinstance(e.func.value, ast.Name) and len(args) == 1 and \
                s.env.get(e.func.value.id, ('?',))[0] == 'list':
            s.env[e.func.value.id] = ('list', s.env[e.func.value.id][1] + (args[0],))
        return t


# ----------------------------------------------------------------------------------
def _fold_cmp(c: Term) -> Term:
    """Fold comparisons between literal constants (used when a callee is analysed with a
    constant argument, e.g. conversion_type='export')."""
    op, a, b = c[1], c[2], c[3]
    if a[0] == 'const' and b[0] == 'const':
        try:
            if op == '==':
                return ('const', a[1] == b[1])
            if op == '!=':
                return ('const', a[1] != b[1])
            if op == 'is':
                return ('const', a[1] is b[1])
            if op == 'is not':
                return ('const', a[1] is not b[1])
        except Exception:       # noqa: BLE001
            return c
    if a[0] == 'const' and op in ('in', 'not in') and b[0] in ('tuple', 'list', 'set') and \
            all(x[0] == 'const' for x in b[1]):
        r = a[1] in [x[1] for x in b[1]]
        return ('const', r if op == 'in' else not r)
    return c


def _static_noneness(t: Term) -> Optional[bool]:
    """True if the term is certainly None, False if certainly not None, else None."""
    if t == NONE:
        return True
    if t[0] == 'const':
        return False
    if t[0] in ('tuple', 'list', 'dict', 'set', 'comp', 'lambda', 'fstr', 'bin'):
        return False
    return None


def _mentions(t: Any, key: Term) -> bool:
    if t == key:
        return True
    if isinstance(t, tuple):
        return any(_mentions(x, key) for x in t)
    return False


def mentions(t: Any, pred: Callable[[Term], bool]) -> bool:
    """Does any sub-term satisfy pred?"""
    if isinstance(t, tuple):
        if t and isinstance(t[0], str) and pred(t):
            return True
        return any(mentions(x, pred) for x in t)
    return False


def subterms(t: Any) -> Iterable[Term]:
    if isinstance(t, tuple):
        if t and isinstance(t[0], str):
            yield t
        for x in t:
            yield from subterms(x)


def _as_load(t: ast.expr) -> ast.expr:
    import copy
    n = copy.deepcopy(t)
    for x in ast.walk(n):
        if hasattr(x, 'ctx'):
            x.ctx = ast.Load()
    return n


def _assigned_names(fn: ast.FunctionDef) -> set:
    """Names bound somewhere in the function body (locals), nested scopes excluded."""
    out = set()

    def visit(n):
        for c in ast.iter_child_nodes(n):
            if isinstance(c, (ast.FunctionDef, ast.AsyncFunctionDef, ast.ClassDef)):
                out.add(c.name)
                continue
            if isinstance(c, (ast.Lambda, ast.ListComp, ast.SetComp, ast.DictComp,
                              ast.GeneratorExp)):
                continue
            if isinstance(c, ast.Name) and isinstance(c.ctx, (ast.Store, ast.Del)):
                out.add(c.id)
            if isinstance(c, ast.ExceptHandler) and c.name:
                out.add(c.name)
            if isinstance(c, (ast.Import, ast.ImportFrom)):
                for a in c.names:
                    out.add((a.asname or a.name).split('.')[0])
            visit(c)
    visit(fn)
    a = fn.args
    for x in a.posonlyargs + a.args + a.kwonlyargs:
        out.discard(x.arg)
    return out


def _free_names(fn: ast.FunctionDef) -> set:
    return {n.id for n in ast.walk(fn) if isinstance(n, ast.Name)}


def _is_literal(t: Term) -> bool:
    if t[0] == 'const':
        return True
    return t[0] == 'tuple' and all(_is_literal(x) for x in t[1])


def _freeze_env(env: Dict[str, Term], names: set) -> tuple:
    return tuple(sorted((k, v) for k, v in env.items() if k in names))


# ----------------------------------------------------------------------------------
# pretty printer (diagnostics)
# ----------------------------------------------------------------------------------
def show(t: Any, depth: int = 0) -> str:
    if not isinstance(t, tuple) or not t or not isinstance(t[0], str):
        return repr(t)
    if depth > 8:
        return '...'
    k = t[0]
    d = depth + 1
    if k == 'const':
        return repr(t[1])
    if k == 'param':
        return t[1]
    if k == 'bound':
        return t[1]
    if k == 'global':
        q = t[1]
        return q.replace('builtins.', '').replace('plinio.', '')
    if k == 'attr':
        return f'{show(t[1], d)}.{t[2]}'
    if k == 'call':
        a = [show(x, d) for x in t[2]] + [f'{kk}={show(v, d)}' for kk, v in t[3]]
        return f'{show(t[1], d)}({", ".join(a)})'
    if k == 'sub':
        return f'{show(t[1], d)}[{show(t[2], d)}]'
    if k == 'slice':
        f = lambda x: '' if x == NONE else show(x, d)
        return f'{f(t[1])}:{f(t[2])}' + ('' if t[3] == NONE else ':' + show(t[3], d))
    if k in ('tuple', 'list', 'set'):
        o, c = {'tuple': '()', 'list': '[]', 'set': '{}'}[k]
        return o + ', '.join(show(x, d) for x in t[1]) + c
    if k == 'dict':
        return '{' + ', '.join(f'{show(a, d)}: {show(b, d)}' for a, b in t[1]) + '}'
    if k == 'bin':
        return f'({show(t[2], d)} {t[1]} {show(t[3], d)})'
    if k == 'un':
        return f'({t[1]} {show(t[2], d)})'
    if k == 'cmp':
        return f'({show(t[2], d)} {t[1]} {show(t[3], d)})'
    if k == 'bool':
        return '(' + f' {t[1]} '.join(show(x, d) for x in t[2]) + ')'
    if k == 'ifexp':
        return f'({show(t[2], d)} if {show(t[1], d)} else {show(t[3], d)})'
    if k == 'isnone':
        return f'({show(t[1], d)} is None)'
    if k == 'elem':
        return f'elem<{show(t[1], d)}>'
    if k == 'comp':
        gens = ' '.join(f'for {g[0]} in {show(g[1], d)}' +
                        ''.join(f' if {show(c, d)}' for c in g[2]) for g in t[3])
        return f'{t[1]}comp[{", ".join(show(x, d) for x in t[2])} {gens}]'
    if k == 'lambda':
        return f'(lambda {", ".join(t[1])}: {show(t[2], d)})'
    if k == 'fstr':
        return 'f"' + ''.join(show(x, d) if x[0] != 'const' else str(x[1]) for x in t[1]) + '"'
    if k == 'starred':
        return '*' + show(t[1], d)
    if k == 'undef':
        return f'<undefined {t[1]}>'
    if k == 'localfn':
        return f'<localfn {t[1].rsplit(".", 1)[-1]}>'
    if k == 'enter':
        return f'enter({show(t[1], d)})'
    if k == 'phi':
        return 'phi(' + ' | '.join(show(x, d) for x in t[1]) + ')'
    return '<' + ' '.join(str(x) if not isinstance(x, tuple) else show(x, d) for x in t) + '>'
