"""A small abstract interpreter for straight Python *syntax trees* over a finite token
domain.  It is used where a property is about a small look-up / bookkeeping procedure
whose inputs can be abstracted to a handful of opaque tokens (C15: entries of a cost
specification are "unconstrained", "constrained and matching", "constrained and not
matching").  The repository code is never executed: the interpreter walks the AST taken
from the parsed source and manipulates tokens, lists, tuples and dicts of tokens.

Anything outside the supported subset raises ``Unsupported`` (reported as
ANALYSIS-ERROR, never as a verdict).
"""
from __future__ import annotations

import ast
from typing import Any, Callable, Dict, List, Optional


class Unsupported(Exception):
    pass


class Raised(Exception):
    """The interpreted code executed ``raise``."""

    def __init__(self, exc_type: str, node: ast.AST):
        super().__init__(exc_type)
        self.exc_type = exc_type
        self.node = node


class Token:
    """Opaque value.  Equality is identity of the name."""

    def __init__(self, name: str, call: Optional[Callable] = None):
        self.name = name
        self.call = call

    def __repr__(self):
        return f'<{self.name}>'

    def __eq__(self, other):
        return isinstance(other, Token) and other.name == self.name

    def __hash__(self):
        return hash(('tok', self.name))


class Obj:
    """Instance with attributes (``self``)."""

    def __init__(self, cls_name: str):
        self.cls_name = cls_name
        self.attrs: Dict[str, Any] = {}

    def __repr__(self):
        return f'<obj {self.cls_name}>'


class _Return(Exception):
    def __init__(self, v):
        self.v = v


class _Break(Exception):
    pass


class _Continue(Exception):
    pass


class Closure:
    def __init__(self, node, env, interp):
        self.node, self.env, self.interp = node, env, interp


MAX_STEPS = 20000


class Mini:
    def __init__(self, globals_: Optional[Dict[str, Any]] = None,
                 super_init: Optional[Callable[[Obj], None]] = None):
        self.globals = globals_ or {}
        self.super_init = super_init
        self.steps = 0

    # -- API ------------------------------------------------------------------------------
    def call_function(self, fn: ast.FunctionDef, args: List[Any],
                      kwargs: Optional[Dict[str, Any]] = None) -> Any:
        env: Dict[str, Any] = {}
        a = fn.args
        params = [x.arg for x in a.posonlyargs + a.args]
        defaults = a.defaults
        kwargs = dict(kwargs or {})
        for i, p in enumerate(params):
            if i < len(args):
                env[p] = args[i]
            elif p in kwargs:
                env[p] = kwargs.pop(p)
            else:
                di = i - (len(params) - len(defaults))
                if di < 0:
                    raise Unsupported(f'missing argument {p}')
                env[p] = self.expr(defaults[di], {})
        for k, d in zip(a.kwonlyargs, a.kw_defaults):
            if k.arg in kwargs:
                env[k.arg] = kwargs.pop(k.arg)
            elif d is not None:
                env[k.arg] = self.expr(d, {})
        if kwargs:
            raise Unsupported(f'unexpected keyword arguments {list(kwargs)}')
        try:
            self.block(fn.body, env)
        except _Return as r:
            return r.v
        return None

    # -- statements ------------------------------------------------------------------------
    def tick(self, node):
        self.steps += 1
        if self.steps > MAX_STEPS:
            raise Unsupported('step budget exceeded (unbounded loop?)')

    def block(self, stmts, env):
        for st in stmts:
            self.stmt(st, env)

    def stmt(self, st, env):
        self.tick(st)
        if isinstance(st, ast.Expr):
            if not isinstance(st.value, ast.Constant):
                self.expr(st.value, env)
        elif isinstance(st, ast.Pass):
            pass
        elif isinstance(st, ast.Assign):
            v = self.expr(st.value, env)
            for t in st.targets:
                self.assign(t, v, env)
        elif isinstance(st, ast.AnnAssign):
            if st.value is not None:
                self.assign(st.target, self.expr(st.value, env), env)
        elif isinstance(st, ast.AugAssign):
            cur = self.expr(_load(st.target), env)
            v = self.expr(st.value, env)
            self.assign(st.target, self.binop(st.op, cur, v), env)
        elif isinstance(st, ast.If):
            if self.truth(self.expr(st.test, env)):
                self.block(st.body, env)
            else:
                self.block(st.orelse, env)
        elif isinstance(st, ast.For):
            it = self.iterate(self.expr(st.iter, env))
            broke = False
            for x in it:
                self.assign(st.target, x, env)
                try:
                    self.block(st.body, env)
                except _Break:
                    broke = True
                    break
                except _Continue:
                    continue
            if not broke:
                self.block(st.orelse, env)
        elif isinstance(st, ast.While):
            broke = False
            while self.truth(self.expr(st.test, env)):
                self.tick(st)
                try:
                    self.block(st.body, env)
                except _Break:
                    broke = True
                    break
                except _Continue:
                    continue
            if not broke:
                self.block(st.orelse, env)
        elif isinstance(st, ast.Return):
            raise _Return(self.expr(st.value, env) if st.value is not None else None)
        elif isinstance(st, ast.Raise):
            name = 'Exception'
            if st.exc is not None:
                e = st.exc
                if isinstance(e, ast.Call):
                    e = e.func
                name = ast.unparse(e)
            raise Raised(name, st)
        elif isinstance(st, ast.With):
            # context managers are entered for their value only (no exception paths modelled)
            for item in st.items:
                v = self.expr(item.context_expr, env)
                if item.optional_vars is not None:
                    self.assign(item.optional_vars, v, env)
            self.block(st.body, env)
        elif isinstance(st, ast.Break):
            raise _Break()
        elif isinstance(st, ast.Continue):
            raise _Continue()
        elif isinstance(st, ast.Assert):
            if not self.truth(self.expr(st.test, env)):
                raise Raised('AssertionError', st)
        elif isinstance(st, ast.Try):
            try:
                self.block(st.body, env)
            except Raised as r:
                for h in st.handlers:
                    hn = ast.unparse(h.type) if h.type is not None else None
                    if hn is None or hn in (r.exc_type, 'Exception', 'BaseException') or \
                            (isinstance(h.type, ast.Tuple) and
                             r.exc_type in [ast.unparse(x) for x in h.type.elts]):
                        if h.name:
                            env[h.name] = Token('exc:' + r.exc_type)
                        self.block(h.body, env)
                        break
                else:
                    self.block(st.finalbody, env)
                    raise
            else:
                self.block(st.orelse, env)
            self.block(st.finalbody, env)
        elif isinstance(st, ast.FunctionDef):
            env[st.name] = Closure(st, env, self)
        elif isinstance(st, ast.Delete):
            for t in st.targets:
                if isinstance(t, ast.Name):
                    env.pop(t.id, None)
                elif isinstance(t, ast.Subscript):
                    del self.expr(t.value, env)[self.expr(t.slice, env)]
                else:
                    raise Unsupported('del target')
        else:
            raise Unsupported(f'statement {type(st).__name__} at line {st.lineno}')

    def assign(self, t, v, env):
        if isinstance(t, ast.Name):
            env[t.id] = v
        elif isinstance(t, (ast.Tuple, ast.List)):
            vals = list(self.iterate(v))
            if len(vals) != len(t.elts):
                raise Unsupported('unpack length mismatch')
            for e, x in zip(t.elts, vals):
                self.assign(e, x, env)
        elif isinstance(t, ast.Attribute):
            o = self.expr(t.value, env)
            if not isinstance(o, Obj):
                raise Unsupported('attribute store on non-object')
            o.attrs[t.attr] = v
        elif isinstance(t, ast.Subscript):
            o = self.expr(t.value, env)
            k = self.expr(t.slice, env)
            if isinstance(o, (dict, list)):
                o[k] = v
            else:
                raise Unsupported('subscript store on ' + type(o).__name__)
        else:
            raise Unsupported('assignment target ' + type(t).__name__)

    # -- expressions -----------------------------------------------------------------------
    def truth(self, v) -> bool:
        if isinstance(v, Token):
            if v.name.startswith('bool:'):
                return v.name == 'bool:True'
            return True
        if isinstance(v, (Obj, Closure)):
            return True
        return bool(v)

    def iterate(self, v):
        if isinstance(v, (list, tuple, set, frozenset)):
            return list(v)
        if isinstance(v, dict):
            return list(v.keys())
        if isinstance(v, (range, type({}.items()), type({}.keys()), type({}.values()))):
            return list(v)
        if hasattr(v, '__iter__') and not isinstance(v, (str, Token)):
            return list(v)
        raise Unsupported('iteration over ' + repr(v))

    def binop(self, op, a, b):
        try:
            if isinstance(op, ast.Add):
                return a + b
            if isinstance(op, ast.Sub):
                return a - b
            if isinstance(op, ast.Mult):
                return a * b
            if isinstance(op, ast.FloorDiv):
                return a // b
            if isinstance(op, ast.Mod):
                return a % b
        except TypeError:
            pass
        raise Unsupported('binary operation on ' + repr((a, b)))

    def expr(self, e, env):
        self.tick(e)
        if isinstance(e, ast.Constant):
            return e.value
        if isinstance(e, ast.Name):
            if e.id in env:
                return env[e.id]
            if e.id in self.globals:
                return self.globals[e.id]
            if e.id in ('True', 'False', 'None'):
                return {'True': True, 'False': False, 'None': None}[e.id]
            return Token('global:' + e.id)
        if isinstance(e, ast.Attribute):
            o = self.expr(e.value, env)
            if isinstance(o, Obj):
                if e.attr in o.attrs:
                    return o.attrs[e.attr]
                raise Unsupported(f'attribute {e.attr} not set on {o}')
            return ('boundmethod', o, e.attr)
        if isinstance(e, ast.Subscript):
            o = self.expr(e.value, env)
            if isinstance(e.slice, ast.Slice):
                lo = self.expr(e.slice.lower, env) if e.slice.lower else None
                hi = self.expr(e.slice.upper, env) if e.slice.upper else None
                stp = self.expr(e.slice.step, env) if e.slice.step else None
                return o[lo:hi:stp]
            k = self.expr(e.slice, env)
            try:
                return o[k]
            except (KeyError, IndexError, TypeError) as ex:
                if isinstance(ex, KeyError):
                    raise Raised('KeyError', e)
                if isinstance(ex, IndexError):
                    raise Raised('IndexError', e)
                raise Unsupported('subscript on ' + repr(o))
        if isinstance(e, (ast.Tuple, ast.List)):
            out = []
            for x in e.elts:
                if isinstance(x, ast.Starred):
                    out += list(self.iterate(self.expr(x.value, env)))
                else:
                    out.append(self.expr(x, env))
            return tuple(out) if isinstance(e, ast.Tuple) else out
        if isinstance(e, ast.Set):
            return {self.expr(x, env) for x in e.elts}
        if isinstance(e, ast.Dict):
            return {self.expr(k, env): self.expr(v, env) for k, v in zip(e.keys, e.values)}
        if isinstance(e, ast.UnaryOp):
            v = self.expr(e.operand, env)
            if isinstance(e.op, ast.Not):
                return not self.truth(v)
            if isinstance(e.op, ast.USub):
                return -v
            raise Unsupported('unary op')
        if isinstance(e, ast.BoolOp):
            if isinstance(e.op, ast.And):
                v = True
                for x in e.values:
                    v = self.expr(x, env)
                    if not self.truth(v):
                        return v
                return v
            v = False
            for x in e.values:
                v = self.expr(x, env)
                if self.truth(v):
                    return v
            return v
        if isinstance(e, ast.Compare):
            left = self.expr(e.left, env)
            for op, r in zip(e.ops, e.comparators):
                right = self.expr(r, env)
                if not self.compare(op, left, right):
                    return False
                left = right
            return True
        if isinstance(e, ast.IfExp):
            return self.expr(e.body if self.truth(self.expr(e.test, env)) else e.orelse, env)
        if isinstance(e, ast.BinOp):
            return self.binop(e.op, self.expr(e.left, env), self.expr(e.right, env))
        if isinstance(e, (ast.ListComp, ast.GeneratorExp, ast.SetComp)):
            out = []
            self.comp(e.generators, 0, dict(env), lambda en: out.append(self.expr(e.elt, en)))
            return set(out) if isinstance(e, ast.SetComp) else out
        if isinstance(e, ast.DictComp):
            out = {}

            def put(en):
                out[self.expr(e.key, en)] = self.expr(e.value, en)
            self.comp(e.generators, 0, dict(env), put)
            return out
        if isinstance(e, ast.Lambda):
            return Closure(e, env, self)
        if isinstance(e, ast.JoinedStr):
            return 'fstring'
        if isinstance(e, ast.Call):
            return self.call(e, env)
        if isinstance(e, ast.NamedExpr):
            v = self.expr(e.value, env)
            self.assign(e.target, v, env)
            return v
        raise Unsupported(f'expression {type(e).__name__}')

    def comp(self, gens, i, env, emit):
        if i == len(gens):
            emit(env)
            return
        g = gens[i]
        for x in self.iterate(self.expr(g.iter, env)):
            self.assign(g.target, x, env)
            if all(self.truth(self.expr(c, env)) for c in g.ifs):
                self.comp(gens, i + 1, env, emit)

    def compare(self, op, a, b) -> bool:
        if isinstance(op, ast.Is):
            return a is b or (isinstance(a, Token) and a == b) or \
                (a is None and b is None) or (isinstance(a, bool) and a is b)
        if isinstance(op, ast.IsNot):
            return not self.compare(ast.Is(), a, b)
        if isinstance(op, ast.Eq):
            return a == b
        if isinstance(op, ast.NotEq):
            return a != b
        if isinstance(op, ast.In):
            return a in b
        if isinstance(op, ast.NotIn):
            return a not in b
        try:
            if isinstance(op, ast.Lt):
                return a < b
            if isinstance(op, ast.LtE):
                return a <= b
            if isinstance(op, ast.Gt):
                return a > b
            if isinstance(op, ast.GtE):
                return a >= b
        except TypeError:
            raise Unsupported('ordering comparison on tokens')
        raise Unsupported('comparison')

    def call(self, e: ast.Call, env):
        # super(...).__init__(...)
        if isinstance(e.func, ast.Attribute) and isinstance(e.func.value, ast.Call) and \
                isinstance(e.func.value.func, ast.Name) and e.func.value.func.id == 'super':
            if self.super_init is None:
                raise Unsupported('super() call')
            self.super_init(env.get('self'), e.func.attr,
                            [self.expr(a, env) for a in e.args])
            return None
        args = []
        for a in e.args:
            if isinstance(a, ast.Starred):
                args += list(self.iterate(self.expr(a.value, env)))
            else:
                args.append(self.expr(a, env))
        kwargs = {k.arg: self.expr(k.value, env) for k in e.keywords if k.arg}
        if isinstance(e.func, ast.Name) and e.func.id not in env and e.func.id not in self.globals:
            return self.builtin(e.func.id, args, kwargs, e)
        f = self.expr(e.func, env)
        return self.apply(f, args, kwargs, e)

    def apply(self, f, args, kwargs, node):
        if isinstance(f, Token):
            if f.call is None:
                raise Unsupported(f'call of opaque token {f}')
            return f.call(*args)
        if isinstance(f, Closure):
            if isinstance(f.node, ast.Lambda):
                en = dict(f.env)
                for p, a in zip([x.arg for x in f.node.args.args], args):
                    en[p] = a
                return self.expr(f.node.body, en)
            sub = Mini(dict(self.globals, **{k: v for k, v in f.env.items()}), self.super_init)
            sub.steps = self.steps
            return sub.call_function(f.node, args, kwargs)
        if isinstance(f, tuple) and len(f) == 3 and f[0] == 'boundmethod':
            return self.method(f[1], f[2], args, kwargs, node)
        if callable(f):
            return f(*args, **kwargs)
        raise Unsupported('call of ' + repr(f))

    def builtin(self, name, args, kwargs, node):
        if name == 'len':
            return len(args[0])
        if name == 'any':
            return any(self.truth(x) for x in self.iterate(args[0]))
        if name == 'all':
            return all(self.truth(x) for x in self.iterate(args[0]))
        if name == 'list':
            return list(self.iterate(args[0])) if args else []
        if name == 'tuple':
            return tuple(self.iterate(args[0])) if args else ()
        if name == 'set':
            return set(self.iterate(args[0])) if args else set()
        if name == 'dict':
            return dict(args[0]) if args else dict(kwargs)
        if name == 'range':
            return list(range(*args))
        if name == 'enumerate':
            return list(enumerate(self.iterate(args[0]), *args[1:]))
        if name == 'zip':
            return list(zip(*[self.iterate(a) for a in args]))
        if name == 'reversed':
            return list(reversed(self.iterate(args[0])))
        if name == 'sorted':
            key = kwargs.get('key')
            items = self.iterate(args[0])
            if key is not None:
                return sorted(items, key=lambda x: self._sortkey(self.apply(key, [x], {}, node)),
                              reverse=bool(kwargs.get('reverse', False)))
            try:
                return sorted(items, reverse=bool(kwargs.get('reverse', False)))
            except TypeError:
                raise Unsupported('sorted() on tokens')
        if name == 'callable':
            return isinstance(args[0], (Token, Closure)) and \
                (not isinstance(args[0], Token) or args[0].call is not None)
        if name == 'bool':
            return self.truth(args[0])
        if name == 'int':
            return int(args[0])
        if name == 'isinstance':
            # concrete python values against builtin types
            types = {'global:tuple': tuple, 'global:list': list, 'global:int': int,
                     'global:float': float, 'global:str': str, 'global:dict': dict,
                     'global:bool': bool, 'global:set': set}
            cs = args[1] if isinstance(args[1], tuple) else (args[1],)
            if all(isinstance(c, Token) and c.name in types for c in cs) and \
                    not isinstance(args[0], (Token, Obj)):
                return isinstance(args[0], tuple(types[c.name] for c in cs))
            raise Unsupported('isinstance on tokens')
        if name == 'id':
            return id(args[0]) if not isinstance(args[0], Token) else hash(args[0])
        if name in ('min', 'max', 'sum'):
            try:
                return {'min': min, 'max': max, 'sum': sum}[name](
                    *(args if len(args) > 1 else [self.iterate(args[0])]))
            except TypeError:
                raise Unsupported(name + '() on tokens')
        if name == 'next':
            it = self.iterate(args[0])
            if it:
                return it[0]
            if len(args) > 1:
                return args[1]
            raise Raised('StopIteration', node)
        if name == 'filter':
            return [x for x in self.iterate(args[1])
                    if self.truth(self.apply(args[0], [x], {}, node) if args[0] is not None
                                  else x)]
        if name == 'map':
            return [self.apply(args[0], [x], {}, node) for x in self.iterate(args[1])]
        if name == 'print':
            return None
        if name in ('KeyError', 'ValueError', 'Exception', 'TypeError'):
            return Token('exc:' + name)
        raise Unsupported(f'builtin {name}')

    @staticmethod
    def _sortkey(v):
        if isinstance(v, bool) or isinstance(v, (int, float, str)):
            return v
        if isinstance(v, tuple):
            return tuple(Mini._sortkey(x) for x in v)
        raise Unsupported('sort key is not a plain value')

    def method(self, o, name, args, kwargs, node):
        if isinstance(o, list):
            if name == 'append':
                o.append(args[0])
                return None
            if name == 'insert':
                o.insert(args[0], args[1])
                return None
            if name == 'extend':
                o.extend(self.iterate(args[0]))
                return None
            if name == 'pop':
                return o.pop(*args)
            if name == 'index':
                try:
                    return o.index(args[0])
                except ValueError:
                    raise Raised('ValueError', node)
            if name == 'copy':
                return list(o)
            if name == 'sort':
                key = kwargs.get('key')
                if key is None:
                    raise Unsupported('list.sort without key on tokens')
                o.sort(key=lambda x: self._sortkey(self.apply(key, [x], {}, node)),
                       reverse=bool(kwargs.get('reverse', False)))
                return None
            if name == 'count':
                return o.count(args[0])
            if name == 'remove':
                o.remove(args[0])
                return None
            if name == 'reverse':
                o.reverse()
                return None
        if isinstance(o, dict):
            if name == 'get':
                return o.get(args[0], args[1] if len(args) > 1 else None)
            if name == 'setdefault':
                return o.setdefault(args[0], args[1] if len(args) > 1 else None)
            if name == 'items':
                return list(o.items())
            if name == 'keys':
                return list(o.keys())
            if name == 'values':
                return list(o.values())
            if name == 'pop':
                return o.pop(*args)
            if name == 'update':
                o.update(args[0])
                return None
            if name == 'copy':
                return dict(o)
        if isinstance(o, (set,)):
            if name == 'add':
                o.add(args[0])
                return None
        if isinstance(o, tuple) and name in ('index', 'count'):
            return getattr(o, name)(*args)
        raise Unsupported(f'method {name} on {type(o).__name__}')


def _load(t):
    import copy
    n = copy.deepcopy(t)
    for x in ast.walk(n):
        if hasattr(x, 'ctx'):
            x.ctx = ast.Load()
    return n
