"""Cost-specification facts: CostSpec instances, registrations, patterns, keys read."""
from __future__ import annotations

import ast
from dataclasses import dataclass, field
from typing import Dict, List, Optional, Set, Tuple

from .model import AnalysisError, ClassInfo, FunctionInfo, Module, Repo
from .sym import NONE, Term, mentions, show, subterms
from .util import SELF, arg, callee, is_call, method_call, paths, returning


@dataclass
class Registration:
    spec: str                    # variable name of the CostSpec (e.g. 'params')
    spec_qual: str
    pattern: str                 # name of the pattern tuple (Conv1dDW)
    layer_type: str              # torch.nn.Conv1d
    constraint: Optional[FunctionInfo]
    fn: FunctionInfo
    node: ast.stmt
    module: Module


@dataclass
class SpecInfo:
    name: str
    qual: str
    module: Module
    shared: Optional[bool]
    default_behavior: str
    regs: List[Registration] = field(default_factory=list)


def cost_specs(repo: Repo) -> Dict[str, SpecInfo]:
    cs_q = repo.cls('CostSpec').qualname
    out: Dict[str, SpecInfo] = {}
    for m in repo.modules.values():
        for name, sts in m.assigns.items():
            for st in sts:
                v = st.value if isinstance(st, (ast.Assign, ast.AnnAssign)) else None
                if isinstance(v, ast.Call) and repo.resolve_expr_name(m, v.func) == cs_q:
                    shared = True
                    default = 'zero'
                    params = ['shared', 'default_behavior']
                    for i, a in enumerate(v.args):
                        if isinstance(a, ast.Constant):
                            if params[i] == 'shared':
                                shared = a.value
                            else:
                                default = a.value
                    for k in v.keywords:
                        if isinstance(k.value, ast.Constant):
                            if k.arg == 'shared':
                                shared = k.value.value
                            if k.arg == 'default_behavior':
                                default = k.value.value
                    out[name] = SpecInfo(name, f'{m.name}.{name}', m, shared, default)
    # registrations: top-level  spec[Pattern] = fn
    for si in out.values():
        m = si.module
        for st in m.tree.body:
            if isinstance(st, ast.Assign) and len(st.targets) == 1 and \
                    isinstance(st.targets[0], ast.Subscript) and \
                    isinstance(st.targets[0].value, ast.Name) and \
                    st.targets[0].value.id == si.name:
                pat_e = st.targets[0].slice
                fn_q = repo.resolve_expr_name(m, st.value)
                fn = repo.functions.get(fn_q) if fn_q else None
                if fn is None:
                    raise AnalysisError(f'{m.relpath}:{st.lineno}: cost function '
                                        f'{ast.unparse(st.value)} not resolved')
                pname, ltype, constr = resolve_pattern(repo, m, pat_e)
                si.regs.append(Registration(si.name, si.qual, pname, ltype, constr, fn, st, m))
    return out


def resolve_pattern(repo: Repo, m: Module, e: ast.expr) -> Tuple[str, str, Optional[FunctionInfo]]:
    """(pattern name, torch layer type, constraint function) of a pattern expression."""
    name = ast.unparse(e)
    tup = e
    mod = m
    if isinstance(e, (ast.Name, ast.Attribute)):
        q = repo.resolve_expr_name(m, e)
        v = repo.module_assign_value(q) if q else None
        if v is None:
            raise AnalysisError(f'{m.relpath}: pattern {name} not resolved')
        tup = v
        mod = repo.modules[q.rsplit('.', 1)[0]]
    if not isinstance(tup, ast.Tuple) or len(tup.elts) != 2:
        raise AnalysisError(f'{m.relpath}: pattern {name} is not a (type, constraint) pair')
    ltype = repo.resolve_expr_name(mod, tup.elts[0]) or ast.unparse(tup.elts[0])
    c = tup.elts[1]
    constr = None
    if not (isinstance(c, ast.Constant) and c.value is None):
        cq = repo.resolve_expr_name(mod, c)
        constr = repo.functions.get(cq) if cq else None
        if constr is None:
            raise AnalysisError(f'{m.relpath}: constraint of pattern {name} not resolved')
    return name, ltype, constr


def spec_param(fn: FunctionInfo) -> Term:
    ps = fn.params
    if not ps:
        raise AnalysisError(f'{fn.qualname}: cost function without a spec parameter')
    return ('param', ps[0])


def keys_read(repo: Repo, fn: FunctionInfo, _seen: Optional[Set[str]] = None,
              problems: Optional[List[str]] = None) -> Dict[str, List[Tuple[FunctionInfo, int]]]:
    """spec keys read by a cost function, transitively through repository helpers that
    receive the same spec object.  When a helper is called with another dict built in the
    function (re-keyed spec), the helper's reads are checked against that dict's writes
    (reported in ``problems``) and not attributed to the outer spec."""
    _seen = _seen if _seen is not None else set()
    if fn.qualname in _seen:
        return {}
    _seen.add(fn.qualname)
    sp = spec_param(fn)
    out: Dict[str, List[Tuple[FunctionInfo, int]]] = {}
    # syntactic reads (also those bound to locals that are never used: they still raise
    # KeyError at run time when the key is missing)
    for n in ast.walk(fn.node):
        if isinstance(n, ast.Subscript) and isinstance(n.value, ast.Name) and \
                n.value.id == sp[1] and isinstance(n.slice, ast.Constant) and \
                isinstance(n.slice.value, str) and isinstance(n.ctx, ast.Load):
            out.setdefault(n.slice.value, []).append((fn, n.lineno))
    for p in paths(repo, fn):
        terms = []
        for e in p.events:
            terms.extend(e.data)
        if p.retval is not None:
            terms.append(p.retval)
        for a, _ in p.assumptions:
            terms.append(a)
        for t in terms:
            for x in subterms(t):
                if x[0] == 'sub' and x[1] == sp and x[2][0] == 'const' and \
                        isinstance(x[2][1], str):
                    out.setdefault(x[2][1], []).append((fn, 0))
        for e in p.calls():
            t = e.data[0]
            c = callee(t)
            if c in repo.functions and repo.functions[c].cls is None and t[2]:
                sub = repo.functions[c]
                a0 = t[2][0]
                if a0 == sp:
                    for k, v in keys_read(repo, sub, _seen, problems).items():
                        out.setdefault(k, []).extend(v)
                elif a0[0] == 'dict' or (a0[0] == 'call' and is_call(a0, 'builtins.dict')):
                    written = set()
                    if a0[0] == 'dict':
                        written |= {k[1] for k, _ in a0[1] if k[0] == 'const'}
                    for e2 in p.events:
                        if e2.kind == 'setitem' and e2.data[0] == a0 and \
                                e2.data[1][0] == 'const':
                            written.add(e2.data[1][1])
                    need = keys_read(repo, sub, set(), problems)
                    miss = sorted(set(need) - written)
                    if miss and problems is not None:
                        problems.append(f'{fn.qualname} calls {sub.name} with a re-keyed spec '
                                        f'lacking {miss}')
    return out


def registrations_for(specs: Dict[str, SpecInfo], layer_type: str) -> List[Registration]:
    return [r for s in specs.values() for r in s.regs if r.layer_type == layer_type]


def layer_map(repo: Repo, var_suffix: str) -> Dict[str, ClassInfo]:
    """torch type -> repository class, from a registry dict such as pit_layer_map."""
    for m in repo.modules.values():
        if var_suffix in m.assigns:
            v = repo.module_assign_value(f'{m.name}.{var_suffix}')
            if isinstance(v, ast.Dict):
                out = {}
                for k, val in zip(v.keys, v.values):
                    kq = repo.resolve_expr_name(m, k) or ast.unparse(k)
                    vq = repo.resolve_expr_name(m, val)
                    if vq in repo.classes:
                        out[kq] = repo.classes[vq]
                return out
    raise AnalysisError(f'registry {var_suffix} not found')
