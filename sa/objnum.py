"""Object-sensitive extension of the numeric domain for performance-model classes.

``ObjEval`` evaluates properties and methods of ONE instance of a plain (non-Module) class
whose fields are constants, constructor arguments or named inputs:

* ``self.<getter>``           -> join over the getter's returning paths (recursively)
* ``self.<method>(args)``     -> the method inlined with its parameters bound
* ``self.<field>``            -> the value given by ``fields`` (constants, inputs) or by a
                                 class-level constant
* calls of local closures     -> the nested ``def`` evaluated with its parameters bound and its
                                 free variables taken from the frozen environment of the term
* **tiling lemma** on  ``floor(K / b) * G(b) + (G(K % b) if K % b != 0 else 0)``:
  if G(k) >= 0 and G is non-decreasing in k on [0, b], the sum is non-decreasing in K
  (inside a tile the ragged term grows, at a tile boundary G(b) >= G(b - eps), and going from
  a full tiling to one more ragged tile adds G(eps) >= 0); its direction in any other input is
  G's direction in it (coefficients floor(K/b) >= 0).  The lemma needs quotient and remainder
  over the same K and b — rule R16e checks exactly that premise on its own.
"""
from __future__ import annotations

import ast
from typing import Callable, Dict, Optional

from .model import ClassInfo, FunctionInfo, Repo
from .numdom import AV, INF, NumError, NumEval, add, const, join, mul
from .sym import NONE, Term, show, subterms
from .util import SELF, callee, is_call, method_call, paths


def _subst(t, m):
    if isinstance(t, tuple):
        if t in m:
            return m[t]
        return tuple(_subst(x, m) for x in t)
    return t


class ObjEval(NumEval):
    def __init__(self, repo: Repo, ci: ClassInfo, fields: Dict[str, object],
                 inputs: Callable[[Term], Optional[AV]], depth: int = 12):
        super().__init__(repo, inputs, depth)
        self.ci = ci
        self.fields = fields          # name -> AV | Term
        self._getter_cache: Dict[str, AV] = {}
        self.lemma_uses = 0

    # ---- values of self.<name> ----------------------------------------------------------
    def field(self, name: str, d: int) -> Optional[AV]:
        if name in self.fields:
            v = self.fields[name]
            return v if isinstance(v, AV) else self.ev(v, d)
        g = self.repo.find_getter(self.ci, name)
        if g is not None:
            if name not in self._getter_cache:
                rets = [p for p in paths(self.repo, g) if p.status == 'return']
                v = None
                if len(rets) == 1 and rets[0].retval[0] in ('bool', 'cmp', 'un'):
                    c = self.cond(rets[0].retval, d - 1)      # boolean configuration property
                    if c is not None:
                        v = AV(float(c), float(c), kind='bool')
                if v is None:
                    v = self.function_value(g, {'self': SELF}, d - 1)
                self._getter_cache[name] = v
            return self._getter_cache[name]
        for c in self.repo.mro(self.ci):
            if isinstance(c, ClassInfo) and name in c.class_assigns:
                return self.const_ast(c.class_assigns[name])
        return None

    def const_ast(self, n: ast.AST) -> AV:
        if isinstance(n, ast.Constant) and isinstance(n.value, (int, float)):
            return const(float(n.value))
        if isinstance(n, (ast.Tuple, ast.List)):
            return AV(kind='tuple', elems=[self.const_ast(x) for x in n.elts])
        raise NumError(f'class constant {ast.unparse(n)} is not numeric')

    def ev(self, t: Term, depth: Optional[int] = None) -> AV:
        d = self.depth if depth is None else depth
        if t[0] in ('attr', 'sub') and t[1][0] == 'call':
            # field / element of a record (NamedTuple) built in place: the value passed in
            from .util import resolve_namedtuples
            t2 = resolve_namedtuples(self.repo, t)
            if t2 != t:
                return self.ev(t2, depth)
        r = self.inputs(t)
        if r is not None:
            return r
        if d <= 0:
            raise NumError('evaluation depth exceeded')
        if t[0] == 'attr' and t[1] == SELF:
            v = self.field(t[2], d)
            if v is not None:
                return v
            raise NumError(f'field self.{t[2]} has no known value')
        if t[0] == 'bin' and t[1] == '+':
            lem = self.tiling(t, d)
            if lem is not None:
                return lem
        if t[0] == 'cmp' and t[1] in ('==', '!=') and t[2][0] == 'attr' and t[2][1] == SELF:
            # comparisons of constant configuration fields (operation == 'conv', shape == (3, 3))
            a = self.fields.get(t[2][2])
            if isinstance(a, tuple) and a and a[0] in ('const', 'tuple') and \
                    t[3][0] in ('const', 'tuple'):
                eq = a == t[3]
                return const(float(eq if t[1] == '==' else not eq))
        return super().ev(t, d)

    def cond(self, c: Term, d: int) -> Optional[bool]:
        # boolean configuration fields / properties decide branches
        if c[0] == 'attr' and c[1] == SELF:
            v = self.field(c[2], d)
            if v is not None and v.lo == v.hi and v.kind in ('num', 'bool'):
                return bool(v.lo)
        if c[0] == 'un' and c[1] == 'not':
            v = self.cond(c[2], d)
            return None if v is None else not v
        if c[0] == 'bool':
            vals = [self.cond(x, d) for x in c[2]]
            if c[1] == 'and':
                if any(v is False for v in vals):
                    return False
                return True if all(v is True for v in vals) else None
            if any(v is True for v in vals):
                return True
            return False if all(v is False for v in vals) else None
        if c[0] == 'cmp' and c[1] in ('==', '!=') and c[2][0] == 'attr' and c[2][1] == SELF:
            try:
                v = self.ev(c, d)
                if v.lo == v.hi:
                    return bool(v.lo)
            except NumError:
                pass
        return super().cond(c, d)

    # ---- calls ----------------------------------------------------------------------------
    def call(self, t: Term, d: int) -> AV:
        mc = method_call(t)
        if mc is not None and mc[0] == SELF:
            m = self.repo.find_method(self.ci, mc[1])
            if m is not None and m.kind == 'method':
                return self.inline(m, (SELF,) + t[2], t[3], d)
        if t[1][0] == 'localfn':
            return self.closure(t, d)
        return super().call(t, d)

    def closure(self, t: Term, d: int) -> AV:
        qual, frozen = t[1][1], dict(t[1][2])
        parent_q, rest = qual.split('.<locals>.')
        name, lineno = rest.split('@')
        parent = self.repo.functions.get(parent_q) or self._find_fn(parent_q)
        node = None
        for n in ast.walk(parent.node):
            if isinstance(n, ast.FunctionDef) and n.name == name and n.lineno == int(lineno):
                node = n
        if node is None:
            raise NumError(f'local function {rest} not found')
        fi = FunctionInfo(name, qual, node, parent.module, parent.cls, 'function', parent=parent)
        bind = {p: a for p, a in zip(fi.params, t[2])}
        free = dict(frozen)
        free.setdefault('self', SELF)

        def rewrite(x):
            # free variables of the closure appear as unresolved globals (``self.a.b`` is
            # folded into one dotted name): rebuild them from the frozen environment
            if isinstance(x, tuple):
                if len(x) == 2 and x[0] == 'global' and isinstance(x[1], str) and \
                        x[1].startswith('builtins.'):
                    parts = x[1][len('builtins.'):].split('.')
                    if parts[0] in free:
                        v = free[parts[0]]
                        for a in parts[1:]:
                            v = ('attr', v, a)
                        return v
                return tuple(rewrite(y) for y in x)
            return x
        vals = []
        for p in paths(self.repo, fi, bind):
            if p.status == 'return' and p.retval is not None:
                vals.append(self.ev(rewrite(p.retval), d - 1))
        if not vals:
            raise NumError(f'local function {rest}: no returning path')
        r = vals[0]
        for v in vals[1:]:
            r = join(r, v)
        return r

    def _find_fn(self, q: str) -> FunctionInfo:
        for f in self.repo.all_functions():
            if f.qualname == q:
                return f
        raise NumError(f'function {q} not found')

    # ---- tiling lemma ---------------------------------------------------------------------
    def _quot(self, t: Term):
        """(K, b) if t is floor(K / b) in one of its spellings"""
        c = callee(t) if t[0] == 'call' else None
        if c and c.endswith('FloorDivideSTE.apply') and len(t[2]) == 2:
            return t[2]
        if c == 'torch.floor_divide' and len(t[2]) == 2:
            return t[2]
        if t[0] == 'bin' and t[1] == '//':
            return (t[2], t[3])
        return None

    def _rem(self, t: Term):
        c = callee(t) if t[0] == 'call' else None
        if c and c.endswith('ModuloSTE.apply') and len(t[2]) == 2:
            return t[2]
        if t[0] == 'bin' and t[1] == '%':
            return (t[2], t[3])
        return None

    def tiling(self, t: Term, d: int) -> Optional[AV]:
        a, b = t[2], t[3]
        if not (a[0] == 'bin' and a[1] == '*' and b[0] == 'ifexp'):
            return None
        q = self._quot(a[2])
        body = a[3]
        if q is None:
            q, body = self._quot(a[3]), a[2]
        if q is None or body[0] != 'call':
            return None
        K, tile = q
        # ragged term:  G(K % b) if K % b != 0 else 0
        cnd, yes, no = b[1], b[2], b[3]
        if cnd[0] == 'cmp' and cnd[1] in ('!=', '>') and cnd[3] == ('const', 0):
            rem_t, ragged, zero = cnd[2], yes, no
        elif cnd[0] == 'cmp' and cnd[1] == '==' and cnd[3] == ('const', 0):
            rem_t, ragged, zero = cnd[2], no, yes
        else:
            return None
        r = self._rem(rem_t)
        if r is None or r != (K, tile) or zero != ('const', 0):
            return None
        # same function G applied to the tile size and to the remainder
        if ragged[0] != 'call' or ragged[1] != body[1] or len(body[2]) != 1 or \
                ragged[2] != (rem_t,) or body[2] != (tile,):
            return None
        kv = self.ev(K, d)
        bv = self.ev(tile, d)
        if not (bv.lo > 0 and not bv.inputs()) or kv.lo < 0:
            return None
        # G on [0, b] with its argument as a fresh input
        ARG = ('param', '__tile_arg__')
        prev = self.inputs

        def inputs2(x):
            if x == ARG:
                return AV(0.0, bv.hi, {'__k__': 1})
            return prev(x)
        self.inputs = inputs2
        try:
            g = self.ev((body[0], body[1], (ARG,), body[3]), d - 1)
        finally:
            self.inputs = prev
        if not (g.lo >= 0 and g.d('__k__') in (0, 1)):
            return None
        self.lemma_uses += 1
        mono = {}
        for x in (set(g.mono) | set(kv.mono)) - {'__k__'}:
            dg = g.d(x)
            dk = kv.d(x)
            if dk == 0:
                mono[x] = dg if dg in (0, 1) else None
            elif dk == 1 and dg in (0, 1):
                mono[x] = 1
            else:
                mono[x] = None
        lo = g.lo if kv.lo > 0 else 0.0      # K > 0: a full tile or a ragged one is present
        return AV(lo, INF, mono)
