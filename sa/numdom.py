"""Interval x monotonicity abstract domain over terms (C16, C19, C12d).

An abstract value is an interval [lo, hi] (extended reals) together with, per named
input, the direction in which the value moves when that input grows and everything else is
held fixed: 0 (independent), +1 (non-decreasing), -1 (non-increasing), None (unknown).
Transfer functions are the usual compositional rules (product rule with the sign of the
co-factor, reciprocal flips the direction when the sign is constant, floor/ceil/max/min
preserve directions, ``%`` destroys them).  Joins over return paths keep a direction only
when no path condition depends on that input, except for the *zero-guard lemma*:

    if x == 0 (or ...): return 0     and the remaining value is >= 0 and non-decreasing
    in x  ==>  the whole function is non-decreasing in x  (x >= 0).

Repository functions are inlined through their return paths (depth-bounded).
"""
from __future__ import annotations

import math
from typing import Callable, Dict, List, Optional, Tuple

from .model import AnalysisError, ClassInfo, FunctionInfo, Repo
from .sym import NONE, Term, mentions, show, subterms
from .util import SELF, arg, callee, is_call, method_call, paths, returning

INF = math.inf
Dir = Optional[int]


class NumError(Exception):
    pass


def _mulb(a: float, b: float) -> float:
    if a == 0 or b == 0:
        return 0.0
    return a * b


class AV:
    __slots__ = ('lo', 'hi', 'mono', 'elems', 'kind', 'note')

    def __init__(self, lo=-INF, hi=INF, mono=None, elems=None, kind='num', note=''):
        self.lo, self.hi = lo, hi
        self.mono: Dict[str, Dir] = mono or {}
        self.elems: Optional[List['AV']] = elems
        self.kind = kind
        self.note = note

    def d(self, x: str) -> Dir:
        return self.mono.get(x, 0)

    def inputs(self):
        return {k for k, v in self.mono.items() if v != 0}

    def __repr__(self):
        m = {k: {1: 'inc', -1: 'dec', None: '?', 0: 'const'}[v] for k, v in self.mono.items()}
        return f'[{self.lo}, {self.hi}] {m}'


def const(c: float) -> AV:
    return AV(float(c), float(c))


def add_dir(a: Dir, b: Dir) -> Dir:
    if a == 0:
        return b
    if b == 0:
        return a
    if a is None or b is None:
        return None
    return a if a == b else None


def scale_dir(d: Dir, lo: float, hi: float) -> Dir:
    if d == 0:
        return 0
    if lo == 0 and hi == 0:
        return 0
    if d is None:
        return None
    if lo >= 0:
        return d
    if hi <= 0:
        return -d
    return None


def neg(a: AV) -> AV:
    return AV(-a.hi, -a.lo, {k: (None if v is None else -v) for k, v in a.mono.items()})


def add(a: AV, b: AV) -> AV:
    keys = set(a.mono) | set(b.mono)
    return AV(a.lo + b.lo, a.hi + b.hi, {k: add_dir(a.d(k), b.d(k)) for k in keys})


def mul(a: AV, b: AV) -> AV:
    c = [_mulb(a.lo, b.lo), _mulb(a.lo, b.hi), _mulb(a.hi, b.lo), _mulb(a.hi, b.hi)]
    keys = set(a.mono) | set(b.mono)
    mono = {k: add_dir(scale_dir(a.d(k), b.lo, b.hi), scale_dir(b.d(k), a.lo, a.hi))
            for k in keys}
    return AV(min(c), max(c), mono)


def recip(b: AV) -> AV:
    if b.lo > 0 or b.hi < 0:
        lo, hi = 1.0 / b.hi if b.hi != 0 else -INF, 1.0 / b.lo if b.lo != 0 else INF
        if math.isinf(b.hi):
            lo = 0.0
        if math.isinf(b.lo):
            hi = 0.0
        return AV(min(lo, hi), max(lo, hi),
                  {k: (None if v is None else -v) for k, v in b.mono.items()})
    raise NumError('division by a value whose sign is not constant (may be zero)')


def join(a: AV, b: AV) -> AV:
    keys = set(a.mono) | set(b.mono)
    mono = {}
    for k in keys:
        da, db = a.d(k), b.d(k)
        if da == db:
            mono[k] = da
        elif da == 0:
            mono[k] = db      # the alternative does not depend on k (condition fixed)
        elif db == 0:
            mono[k] = da
        else:
            mono[k] = None
    return AV(min(a.lo, b.lo), max(a.hi, b.hi), mono)


def monotone_map(a: AV, f_lo: Callable[[float], float], f_hi: Callable[[float], float]) -> AV:
    """Apply a non-decreasing function (floor, ceil, round...)."""
    return AV(f_lo(a.lo), f_hi(a.hi), dict(a.mono))


def _floor(x):
    return x if math.isinf(x) else float(math.floor(x))


def _ceil(x):
    return x if math.isinf(x) else float(math.ceil(x))


class NumEval:
    """``inputs``: callable Term -> Optional[(name, AV)] recognising input terms.
    ``heap``: values stored into local dicts  (dict term, key) -> value term."""

    def __init__(self, repo: Repo, inputs: Callable[[Term], Optional[AV]], depth: int = 6,
                 summaries: Optional[Dict[str, Callable]] = None):
        self.repo = repo
        self.inputs = inputs
        self.depth = depth
        self.summaries = summaries or {}
        self.notes: List[str] = []

    # ------------------------------------------------------------------------------------
    def ev(self, t: Term, depth: Optional[int] = None) -> AV:
        d = self.depth if depth is None else depth
        if t[0] in ('attr', 'sub') and t[1][0] == 'call':
            # field / element of a record (NamedTuple) built in place: the value passed in
            from .util import resolve_namedtuples
            t2 = resolve_namedtuples(self.repo, t)
            if t2 != t:
                return self.ev(t2, depth)
        r = self.inputs(t)
        if r is not None:
            return r
        k = t[0]
        if k == 'const':
            v = t[1]
            if isinstance(v, bool):
                return AV(float(v), float(v), kind='bool')
            if isinstance(v, (int, float)):
                return const(v)
            if v is None:
                return AV(kind='other', note='None')
            return AV(kind='other', note=repr(v))
        if k == 'bin':
            return self.binop(t[1], t[2], t[3], d)
        if k == 'un':
            if t[1] == 'neg':
                return neg(self.ev(t[2], d))
            if t[1] == 'pos':
                return self.ev(t[2], d)
            if t[1] == 'not':
                return AV(0.0, 1.0, kind='bool')
        if k == 'tuple' or k == 'list':
            el = []
            for x in t[1]:
                try:
                    el.append(self.ev(x, d))
                except NumError as ex:
                    # an element nobody may read (e.g. an auxiliary ratio returned next to the
                    # cost): the error is raised only if the element is used
                    el.append(AV(kind='error', note=str(ex)))
            return AV(kind='tuple', elems=el)
        if k == 'global':
            from .util import global_value_term
            gv = global_value_term(self.repo, t[1])
            if gv is not None and gv[0] in ('const', 'tuple', 'list', 'bin', 'un'):
                return self.ev(gv, d - 1 if d else d)
        if k == 'sub':
            # literal dictionaries: d['k'] is the entry written in the literal; module-level
            # constant tables are looked through
            base_t = t[1]
            if t[2][0] == 'bin':
                # an index computed from integer constants (offset + unrolled loop index)
                from . import poly
                try:
                    kc = poly.is_const(poly.to_poly(t[2]))
                except Exception:       # noqa: BLE001
                    kc = None
                if kc is not None and int(kc) == kc:
                    t = ('sub', t[1], ('const', int(kc)))
            if base_t[0] == 'global':
                from .util import global_value_term
                gv = global_value_term(self.repo, base_t[1])
                if gv is not None and gv[0] == 'dict':
                    t = ('sub', gv, t[2])
                    base_t = gv
            elif base_t[0] == 'sub' and base_t[1][0] == 'global':
                from .util import global_value_term
                gv = global_value_term(self.repo, base_t[1][1])
                if gv is not None and gv[0] == 'dict':
                    t = ('sub', ('sub', gv, base_t[2]), t[2])
                    base_t = t[1]
            if base_t[0] == 'dict' and t[2][0] == 'const':
                hit = [v for kk, v in base_t[1] if kk == t[2]]
                if len(hit) == 1:
                    return self.ev(hit[0], d)
            tab = self.dict_table(t, d)
            if tab is not None:
                return tab
            base = self.ev(t[1], d)
            if base.kind == 'tuple' and base.elems is not None and t[2][0] == 'const' and \
                    isinstance(t[2][1], int) and -len(base.elems) <= t[2][1] < len(base.elems):
                r_ = base.elems[t[2][1]]
                if r_.kind == 'error':
                    raise NumError(r_.note)
                return r_
            if base.kind == 'tuple' and base.elems is not None and t[2][0] == 'slice':
                lo_, hi_, st_ = t[2][1], t[2][2], t[2][3]
                if all(x == NONE or (x[0] == 'const' and isinstance(x[1], int))
                       for x in (lo_, hi_, st_)):
                    sl = slice(*(None if x == NONE else x[1] for x in (lo_, hi_, st_)))
                    return AV(kind='tuple', elems=base.elems[sl])
            if base.kind == 'table':
                return base          # indexing a constant table keeps its hull
            raise NumError(f'subscript {show(t)}')
        if k == 'ifexp':
            c = self.cond(t[1], d)
            a, b = self.ev(t[2], d), self.ev(t[3], d)
            if c is True:
                return a
            if c is False:
                return b
            j = join(a, b)
            tt = t[1][2] if (t[1][0] == 'un' and t[1][1] == 'not') else t[1]
            if tt[0] == 'call' and (callee(tt) or '') in ('builtins.isinstance',
                                                         'torch.is_tensor'):
                # a dispatch on the TYPE of a value (number vs tensor): its outcome does not
                # change while the value varies, so each world keeps its own direction and the
                # join is monotone wherever both arms are
                return j
            for x in self.cond_inputs(t[1], d):
                # zero-guard lemma on a conditional expression:  g(x) if x != 0 else 0
                if self.zero_guard(t[1], x, d) and self._is_zero_branch(t, d) and \
                        j.lo >= 0 and self._nonzero_branch(t, d).d(x) == 1:
                    j.mono[x] = 1
                else:
                    j.mono[x] = None
            return j
        if k == 'cmp':
            dec = self.cond(t, d)
            if dec is not None:
                return AV(float(dec), float(dec), kind='num')
            if t[1] in ('>=', '>', '<=', '<'):
                try:
                    a, b = self.ev(t[2], d), self.ev(t[3], d)
                    if a.kind == 'num' and b.kind == 'num':
                        diff = add(a, neg(b)) if t[1] in ('>=', '>') else add(b, neg(a))
                        # indicator of (diff >= 0): non-decreasing in diff
                        return AV(0.0, 1.0, dict(diff.mono), kind='num')
                except NumError:
                    pass
            return AV(0.0, 1.0, kind='bool',
                      mono={x: None for x in self.term_inputs(t, d)})
        if k == 'bool':
            return AV(0.0, 1.0, kind='bool',
                      mono={x: None for x in self.term_inputs(t, d)})
        if k == 'call':
            return self.call(t, d)
        if k == 'phi':
            vals = [self.ev(x, d) for x in t[1]]
            r = vals[0]
            for v in vals[1:]:
                r = join(r, v)
            return r
        if k == 'attr':
            raise NumError(f'attribute {show(t)} is not a known input or constant')
        raise NumError(f'unsupported term {show(t)}')

    def _is_zero_branch(self, t, d):
        for br in (t[2], t[3]):
            v = self.ev(br, d)
            if v.lo == 0 and v.hi == 0:
                return True
        return False

    def _nonzero_branch(self, t, d):
        for br in (t[2], t[3]):
            v = self.ev(br, d)
            if not (v.lo == 0 and v.hi == 0):
                return v
        return const(0)

    # ------------------------------------------------------------------------------------
    def binop(self, op: str, ta: Term, tb: Term, d: int) -> AV:
        a, b = self.ev(ta, d), self.ev(tb, d)
        if a.kind == 'tuple' and b.kind == 'tuple' and op == '+':
            return AV(kind='tuple', elems=(a.elems or []) + (b.elems or []))
        if a.kind == 'tuple' or b.kind == 'tuple':
            raise NumError(f'arithmetic on a tuple: {op}')
        if op == '+':
            return add(a, b)
        if op == '-':
            return add(a, neg(b))
        if op == '*':
            return mul(a, b)
        if op == '/':
            return mul(a, recip(b))
        if op == '//':
            if b.lo > 0 and not b.inputs():
                q = mul(a, recip(b))
                return monotone_map(q, _floor, _floor)
            if b.lo > 0:
                q = mul(a, recip(b))
                return monotone_map(q, _floor, _floor)
            raise NumError('floor division by a value that may be <= 0')
        if op == '%':
            if a.lo == a.hi and b.lo == b.hi and b.lo > 0 and not math.isinf(a.lo):
                return const(a.lo % b.lo)
            if b.lo > 0:
                hi = b.hi
                return AV(0.0, hi, {x: None for x in a.inputs() | b.inputs()})
            raise NumError('modulo by a value that may be <= 0')
        if op == '**':
            # base ** exponent
            if a.lo == a.hi and a.lo > 1 and not a.inputs():
                # c ** x : increasing in x
                lo = a.lo ** b.lo if not math.isinf(b.lo) else 0.0
                hi = a.lo ** b.hi if not math.isinf(b.hi) else INF
                return AV(lo, hi, dict(b.mono))
            if b.lo == b.hi and float(b.lo).is_integer() and 1 <= b.lo <= 8:
                r = a
                for _ in range(int(b.lo) - 1):
                    r = mul(r, a)
                return r
            if b.lo == b.hi and b.lo < 0 and float(b.lo).is_integer() and a.lo == a.hi:
                return const(a.lo ** b.lo)
            raise NumError(f'power {show(ta)} ** {show(tb)}')
        raise NumError(f'operator {op}')

    # ------------------------------------------------------------------------------------
    def term_inputs(self, t: Term, d: int) -> set:
        """Inputs a term's VALUE can depend on.  A subscript of a literal dictionary depends
        only on the selected entry, not on everything written in the literal."""
        if not isinstance(t, tuple) or not t:
            return set()
        if not isinstance(t[0], str):           # a tuple of terms (argument list)
            out = set()
            for x in t:
                out |= self.term_inputs(x, d)
            return out
        r = self.inputs(t)
        if r is not None:
            return set(r.inputs())
        if t[0] == 'sub' and isinstance(t[1], tuple) and t[1] and t[1][0] == 'dict' and \
                t[2][0] == 'const':
            hit = [v for kk, v in t[1][1] if kk == t[2]]
            if len(hit) == 1:
                return self.term_inputs(hit[0], d)
        out = set()
        if isinstance(t, tuple):
            for x in t:
                if isinstance(x, tuple):
                    out |= self.term_inputs(x, d)
        return out

    def cond_inputs(self, c: Term, d: int) -> set:
        return self.term_inputs(c, d)

    def cond(self, c: Term, d: int) -> Optional[bool]:
        """Decide a condition from intervals when possible."""
        if c[0] == 'const':
            return bool(c[1])
        if c[0] == 'un' and c[1] == 'not':
            v = self.cond(c[2], d)
            return None if v is None else not v
        if c[0] == 'isnone':
            return None
        if c[0] == 'cmp' and c[1] in ('==', '!=', '<', '<=', '>', '>='):
            try:
                a, b = self.ev(c[2], d), self.ev(c[3], d)
            except NumError:
                return None
            if a.kind != 'num' or b.kind != 'num':
                return None
            op = c[1]
            if op in ('>', '>='):
                a, b, op = b, a, {'>': '<', '>=': '<='}[op]
            if op == '<':
                if a.hi < b.lo:
                    return True
                if a.lo >= b.hi:
                    return False
            if op == '<=':
                if a.hi <= b.lo:
                    return True
                if a.lo > b.hi:
                    return False
            if op in ('==', '!='):
                if a.hi < b.lo or b.hi < a.lo:
                    return op == '!='
                if a.lo == a.hi == b.lo == b.hi:
                    return op == '=='
            return None
        if c[0] == 'bool':
            vals = [self.cond(v, d) for v in c[2]]
            if c[1] == 'and':
                if any(v is False for v in vals):
                    return False
                return True if all(v is True for v in vals) else None
            if any(v is True for v in vals):
                return True
            return False if all(v is False for v in vals) else None
        return None

    def zero_guard(self, c: Term, x: str, d: int) -> bool:
        """Is the condition (as assumed TRUE for the non-zero branch) of the form
        ``x != 0`` / ``x > 0`` — or, negated, ``x == 0 [or ...]``?"""
        def is_x(t):
            r = self.inputs(t)
            return r is not None and r.inputs() == {x} and r.d(x) == 1
        if c[0] == 'cmp' and c[3] == ('const', 0) and is_x(c[2]) and c[1] in ('!=', '>', '=='):
            return True
        if c[0] == 'cmp' and c[2] == ('const', 0) and is_x(c[3]) and c[1] in ('!=', '<', '=='):
            return True
        if c[0] == 'bool' and c[1] == 'or':
            return any(self.zero_guard(v, x, d) for v in c[2])
        return False

    # ------------------------------------------------------------------------------------
    def call(self, t: Term, d: int) -> AV:
        c = callee(t)
        mc = method_call(t)
        if c in self.summaries:
            return self.summaries[c](self, t, d)
        # torch / math / builtins with monotone semantics
        if c in ('torch.floor', 'math.floor'):
            return monotone_map(self.ev(t[2][0], d), _floor, _floor)
        if c in ('torch.ceil', 'math.ceil'):
            return monotone_map(self.ev(t[2][0], d), _ceil, _ceil)
        if c in ('torch.round', 'builtins.round'):
            return monotone_map(self.ev(t[2][0], d), _floor, _ceil)
        if c in ('builtins.int', 'builtins.float', 'torch.tensor', 'torch.as_tensor',
                 'builtins.abs', 'torch.abs') and len(t[2]) >= 1:
            a = self.ev(t[2][0], d)
            if c in ('builtins.abs', 'torch.abs'):
                if a.lo >= 0:
                    return a
                return AV(0.0, max(abs(a.lo), abs(a.hi)), {x: None for x in a.inputs()})
            if c == 'builtins.int':
                if a.lo >= 0:
                    return monotone_map(a, _floor, _floor)
                return monotone_map(a, _floor, _ceil)
            if a.kind == 'tuple':
                return self.table(a)
            return a
        if c in ('torch.zeros', 'torch.zeros_like'):
            return const(0)
        if c in ('torch.ones', 'torch.ones_like'):
            return const(1)
        if c in ('torch.floor_divide',):
            return self.binop('//', t[2][0], t[2][1], d)
        if c in ('torch.remainder',) and len(t[2]) == 2:
            return self.binop('%', t[2][0], t[2][1], d)
        if c in ('torch.fmod', 'math.fmod') and len(t[2]) == 2:
            # truncated remainder: the floor modulo for a non-negative dividend, else in (-b, b)
            a, b = self.ev(t[2][0], d), self.ev(t[2][1], d)
            if a.lo >= 0:
                return self.binop('%', t[2][0], t[2][1], d)
            if b.lo > 0:
                return AV(-b.hi, b.hi, {x: None for x in a.inputs() | b.inputs()})
            raise NumError('fmod by a value that may be <= 0')
        if c in ('torch.mul',):
            return self.binop('*', t[2][0], t[2][1], d)
        if c in ('torch.add',):
            return self.binop('+', t[2][0], t[2][1], d)
        if c in ('torch.div', 'torch.divide'):
            if dict(t[3]).get('rounding_mode') == ('const', 'floor'):
                return self.binop('//', t[2][0], t[2][1], d)
            return self.binop('/', t[2][0], t[2][1], d)
        if c in ('torch.clamp', 'torch.clip', 'torch.relu', 'torch.nn.functional.relu'):
            # clamp(x, min=a, max=b) = min(max(x, a), b); relu(x) = max(x, 0)
            kw = dict(t[3])
            lo = kw.get('min', t[2][1] if len(t[2]) > 1 else None)
            hi = kw.get('max', t[2][2] if len(t[2]) > 2 else None)
            if c.endswith('relu'):
                lo, hi = ('const', 0), None
            r = t[2][0]
            if lo is not None and lo != ('const', None):
                r = ('call', ('global', 'torch.maximum'), (r, lo), ())
            if hi is not None and hi != ('const', None):
                r = ('call', ('global', 'torch.minimum'), (r, hi), ())
            return self.ev(r, d)
        if c in ('builtins.max', 'torch.max', 'torch.maximum', 'builtins.min', 'torch.min',
                 'torch.minimum'):
            vals = [self.ev(x, d) for x in t[2]]
            if len(vals) == 1 and vals[0].kind == 'tuple':
                vals = vals[0].elems
            r = vals[0]
            is_max = 'max' in c
            for v in vals[1:]:
                keys = set(r.mono) | set(v.mono)
                mono = {}
                for k in keys:
                    da, db = r.d(k), v.d(k)
                    if da == db:
                        mono[k] = da
                    elif da == 0 or db == 0:
                        mono[k] = da if db == 0 else db     # max/min with a constant
                    else:
                        mono[k] = None
                r = AV(max(r.lo, v.lo) if is_max else min(r.lo, v.lo),
                       max(r.hi, v.hi) if is_max else min(r.hi, v.hi), mono)
            return r
        if c in ('numpy.prod', 'math.prod', 'torch.prod'):
            a = self.ev(t[2][0], d)
            if a.kind == 'tuple':
                r = const(1)
                for e in a.elems:
                    r = mul(r, e)
                return r
            raise NumError('prod of a non-tuple')
        if c in ('builtins.sum', 'torch.sum'):
            a = self.ev(t[2][0], d)
            if a.kind == 'tuple':
                r = const(0)
                for e in a.elems:
                    r = add(r, e)
                return r
            return a
        if mc is not None:
            recv, name = mc[0], mc[1]
            if name in ('item', 'float', 'detach', 'clone', 'to', 'double', 'cpu', 'long', 'int'):
                return self.ev(recv, d)
            if name == 'mean':
                a = self.ev(recv, d)
                if a.kind in ('table', 'tuple'):
                    return self.table(a) if a.kind == 'tuple' else a
                return a
            if name == 'apply' and recv[0] == 'global' and recv[1] in self.repo.classes:
                fwd = self.repo.classes[recv[1]].methods.get('forward')
                if fwd is None:
                    raise NumError(f'{recv[1]}.forward not found')
                key = recv[1] + '.forward'
                if key in self.summaries:
                    return self.summaries[key](self, t, d)
                return self.inline(fwd, (('param', 'ctx'),) + t[2], t[3], d)
        if c is not None and c.endswith('.apply') and c[:-6] in self.repo.classes:
            cls = self.repo.classes[c[:-6]]
            fwd = cls.methods.get('forward')
            if fwd is None:
                raise NumError(f'{c[:-6]}.forward not found')
            key = c[:-6] + '.forward'
            if key in self.summaries:
                return self.summaries[key](self, t, d)
            return self.inline(fwd, (('param', 'ctx'),) + t[2], t[3], d)
        # repository function
        if c in self.repo.functions and self.repo.functions[c].cls is None:
            return self.inline(self.repo.functions[c], t[2], t[3], d)
        raise NumError(f'call {show(t)} is not modelled')

    def dict_table(self, t: Term, d: int) -> Optional[AV]:
        """``LIT[i][j]...`` where LIT is a nested dict literal with numeric constant keys and
        values: hull of the admissible entries, and per index non-decreasing iff the table is
        non-decreasing along that axis for every setting of the other indices."""
        idx = []
        base = t
        while base[0] == 'sub':
            idx.append(base[2])
            base = base[1]
        if base[0] != 'dict' or not idx or not base[1]:
            return None
        if not all(k[0] == 'const' and isinstance(k[1], (int, float)) and
                   not isinstance(k[1], bool) for k, _ in base[1]):
            return None
        idx.reverse()
        idx_vals = [self.ev(i, d) for i in idx]

        def entries(node, depth, keys):
            if depth == len(idx):
                v = self.ev(node, d)
                if v.kind != 'num' or v.inputs() or v.lo != v.hi:
                    raise NumError('table entry is not a numeric constant')
                yield tuple(keys), v.lo
                return
            if node[0] != 'dict':
                raise NumError('table is not uniformly nested')
            for k, v in node[1]:
                if k[0] != 'const' or not isinstance(k[1], (int, float)):
                    raise NumError('table key is not a numeric constant')
                yield from entries(v, depth + 1, keys + [k[1]])
        ents = dict(entries(base, 0, []))
        # restrict to keys inside the index intervals
        adm = {k: v for k, v in ents.items()
               if all(iv.lo <= kk <= iv.hi for kk, iv in zip(k, idx_vals))}
        if not adm:
            raise NumError('no table entry is admissible')
        mono: Dict[str, Dir] = {}
        for ax, iv in enumerate(idx_vals):
            others = {}
            for k, v in ents.items():
                others.setdefault(k[:ax] + k[ax + 1:], []).append((k[ax], v))
            nondecr = all(all(b[1] >= a[1] for a, b in zip(sorted(g), sorted(g)[1:]))
                          for g in others.values())
            for x in iv.inputs():
                dx = iv.d(x)
                mono[x] = add_dir(mono.get(x, 0), dx if (nondecr and dx is not None) else None)
        return AV(min(adm.values()), max(adm.values()), mono)

    def table(self, a: AV) -> AV:
        """Hull of a constant table (tuple of constants, possibly nested)."""
        vals = []

        def walk(x):
            if x.kind == 'tuple':
                for e in x.elems:
                    walk(e)
            else:
                vals.append(x)
        walk(a)
        if not vals:
            raise NumError('empty table')
        if any(v.inputs() for v in vals):
            raise NumError('table with non-constant entries')
        return AV(min(v.lo for v in vals), max(v.hi for v in vals), kind='num')

    # ------------------------------------------------------------------------------------
    def inline(self, fn: FunctionInfo, args: tuple, kws: tuple, d: int) -> AV:
        if d <= 0:
            raise NumError(f'inlining depth exceeded at {fn.qualname}')
        bind = {}
        for p, a in zip(fn.params, args):
            bind[p] = a
        for k, v in kws:
            bind[k] = v
        import ast as _ast
        for p, dv in fn.defaults().items():
            if p not in bind and isinstance(dv, _ast.Constant):
                bind[p] = ('const', dv.value)
        return self.function_value(fn, bind, d - 1)

    def ev_path(self, p, d: int) -> AV:
        """value returned by one path (hook: subclasses may need the path's events)"""
        return self.ev(p.retval, d)

    def function_value(self, fn: FunctionInfo, bind: Dict[str, Term], d: int) -> AV:
        """Join over the returning paths, with path-condition analysis."""
        ps = [p for p in paths(self.repo, fn, bind) if p.status == 'return']
        if not ps:
            raise NumError(f'{fn.qualname}: no returning path')
        vals: List[Tuple[AV, list]] = []
        for p in ps:
            # drop paths whose assumptions are infeasible under the input intervals
            feasible = True
            conds = []
            for a, pol in p.assumptions:
                cterm = a if a[0] != 'isnone' else None
                if cterm is None:
                    continue
                dec = self.cond(cterm, d)
                if dec is not None and dec != pol:
                    feasible = False
                    break
                if dec is None:
                    conds.append((cterm, pol))
            if not feasible:
                continue
            if any(e.kind == 'loop0' for e in p.events) and any(
                    e.kind == 'loopend' for q in ps for e in q.events):
                # loops over non-empty constant collections run at least once
                continue
            vals.append((self.ev_path(p, d), conds))
        if not vals:
            raise NumError(f'{fn.qualname}: every path is infeasible')
        r = vals[0][0]
        for v, _ in vals[1:]:
            r = join(r, v) if r.kind == 'num' and v.kind == 'num' else r
        if len(vals) > 1 and r.kind == 'num':
            for x in set().union(*[self.term_inputs(c, d) for _, cs in vals for c, _ in cs]):
                # zero-guard lemma across return paths
                zero_paths = [v for v, cs in vals if v.lo == 0 and v.hi == 0 and
                              any(self.zero_guard(c, x, d) for c, _ in cs)]
                rest = [v for v, cs in vals if not (v.lo == 0 and v.hi == 0)]
                other_cond = [c for v, cs in vals for c, _ in cs
                              if x in self.term_inputs(c, d) and not self.zero_guard(c, x, d)]
                if zero_paths and rest and not other_cond and all(
                        v.lo >= 0 and v.d(x) in (0, 1) for v in rest):
                    # 0 at x == 0, then a non-negative non-decreasing (possibly constant) value
                    r.mono[x] = 1
                else:
                    r.mono[x] = None
        return r
