"""Anchor domain for the constant tensors PIT maskers build.

Every axis of interest has two distinguished symbolic positions, START (index 0) and END
(index len-1); lengths are symbolic (assumed > 1: for length 1 the two positions coincide
and anchoring is moot).  Abstract values:

  Vec   pos -> True (certainly 1) | False (certainly 0) | None (unknown)
  Mat   (row pos, col pos) -> True (certainly 1, entries are 0/1) | False | None

Transfer functions cover the idioms the repository uses to build such constants: list
concatenation/repetition of literals, ``torch.tensor``, ``flip/flipud/fliplr``,
``transpose/.t()``, ``triu/tril(ones)``, comprehension rows ``[1.0 if C else 0.0 for j in
range(n)]`` whose condition is decided symbolically at j = 0 and j = n-1 (poly.py),
and ``matmul(C, v)`` for the "which output positions are certainly >= 1" question.
"""
from __future__ import annotations

from typing import Dict, Optional, Tuple

from . import poly
from .sym import NONE, Term, show
from .util import arg, callee, is_call, method_call

S, E = 'START', 'END'


class AnchorError(Exception):
    pass


class Vec:
    def __init__(self, at: Dict[str, Optional[bool]], length: Optional[Term] = None):
        self.at = at
        self.length = length

    def flip(self):
        return Vec({S: self.at[E], E: self.at[S]}, self.length)

    def __repr__(self):
        return f'Vec(START={self.at[S]}, END={self.at[E]})'


class Mat:
    def __init__(self, at: Dict[Tuple[str, str], Optional[bool]]):
        self.at = at

    def transpose(self):
        return Mat({(a, b): self.at[(b, a)] for a in (S, E) for b in (S, E)})

    def flip(self, axis: int):
        o = {S: E, E: S}
        if axis == 0:
            return Mat({(a, b): self.at[(o[a], b)] for a in (S, E) for b in (S, E)})
        return Mat({(a, b): self.at[(a, o[b])] for a in (S, E) for b in (S, E)})

    def __repr__(self):
        return 'Mat(' + ', '.join(f'{a[0]}{b[0]}={v}' for (a, b), v in self.at.items()) + ')'


def _num(t: Term) -> Optional[float]:
    if t[0] == 'const' and isinstance(t[1], (int, float)) and not isinstance(t[1], bool):
        return float(t[1])
    return None


def _positive(t: Term, env: Dict[Term, Term]) -> Optional[bool]:
    """Is an integer length term certainly >= 1 (given len > 1 for axis lengths)?"""
    c = poly.is_const(poly.to_poly(t, env))
    if c is not None:
        return c >= 1
    return None


class AnchorEval:
    """``lens``: terms known to be axis lengths (assumed > 1).  ``env``: substitutions
    applied before deciding (e.g. a parameter replaced by its default)."""

    def __init__(self, env: Optional[Dict[Term, Term]] = None):
        self.env = env or {}

    # -- lists -----------------------------------------------------------------------------
    def list_parts(self, t: Term):
        """Flatten a list expression into parts: ('lit', value) single elements or
        ('rep', value, count_term)."""
        if t[0] == 'list':
            out = []
            for x in t[1]:
                v = _num(x)
                if v is None:
                    raise AnchorError(f'non-literal list element {show(x)}')
                out.append(('lit', v))
            return out
        if t[0] == 'bin' and t[1] == '+':
            return self.list_parts(t[2]) + self.list_parts(t[3])
        if t[0] == 'bin' and t[1] == '*':
            a, b = t[2], t[3]
            if b[0] == 'list':
                a, b = b, a
            if a[0] == 'list' and len(a[1]) == 1 and _num(a[1][0]) is not None:
                return [('rep', _num(a[1][0]), b)]
        raise AnchorError(f'unsupported list expression {show(t)}')

    def vec_from_list(self, t: Term) -> Vec:
        if t[0] == 'comp':
            return self.vec_from_comp(t)
        parts = self.list_parts(t)
        # drop repetitions that may be empty only when it cannot matter: a 'rep' part is
        # non-empty when the total length exceeds the number of literal elements (len > 1
        # assumption) -- we require at most one 'rep' whose emptiness is undecided.
        def val(part):
            return part[1] == 1.0 if part[1] in (0.0, 1.0) else None

        def nonempty(part):
            if part[0] == 'lit':
                return True
            return _positive(part[2], self.env)
        first, last = None, None
        # START: first certainly-non-empty part, provided all parts before it are
        # certainly empty -- undecided parts are resolved by the len > 1 assumption when
        # they are the only repetition next to single literals.
        reps = [p for p in parts if p[0] == 'rep' and nonempty(p) is None]
        assume_nonempty = len(reps) == 1 and all(p[0] == 'lit' or nonempty(p) is not None
                                                 for p in parts if p is not reps[0])
        def ne(p):
            r = nonempty(p)
            if r is None and assume_nonempty:
                return True
            return r
        for p in parts:
            r = ne(p)
            if r is True:
                first = val(p)
                break
            if r is None:
                first = None
                break
        for p in reversed(parts):
            r = ne(p)
            if r is True:
                last = val(p)
                break
            if r is None:
                last = None
                break
        return Vec({S: first, E: last})

    def vec_from_comp(self, t: Term) -> Vec:
        # [ (1.0 if C else 0.0) for j in range(n) ]
        kind, vals, gens = t[1], t[2], t[3]
        if len(gens) != 1 or len(vals) != 1:
            raise AnchorError('nested comprehension')
        tgt, it, conds = gens[0]
        if conds:
            raise AnchorError('filtered comprehension')
        n = self.range_len(it)
        elem = self.find_elem(vals[0], it)
        out = {}
        for pos, idx in ((S, ('const', 0)), (E, ('bin', '-', n, ('const', 1)))):
            out[pos] = self.truth01(vals[0], dict(self.env, **({elem: idx} if elem else {})))
        return Vec(out, n)

    @staticmethod
    def range_len(it: Term) -> Term:
        if is_call(it, 'builtins.range') and len(it[2]) == 1:
            return it[2][0]
        raise AnchorError(f'iteration over {show(it)} (only range(n) is modelled)')

    @staticmethod
    def find_elem(t, it: Term) -> Optional[Term]:
        found = []

        def walk(x):
            if isinstance(x, tuple):
                if x and x[0] == 'elem' and x[1] == it:
                    found.append(x)
                    return
                for y in x:
                    walk(y)
        walk(t)
        return found[0] if found else None

    def truth01(self, t: Term, env: Dict[Term, Term]) -> Optional[bool]:
        """Is a 0/1-valued element expression certainly 1 / certainly 0?"""
        v = _num(t)
        if v is not None:
            return True if v == 1.0 else (False if v == 0.0 else None)
        if t[0] == 'ifexp':
            c = poly.simplify_truth(poly.substitute(t[1], env), env)
            a, b = self.truth01(t[2], env), self.truth01(t[3], env)
            if c is True:
                return a
            if c is False:
                return b
            if a is not None and a == b:
                return a
            return None
        if is_call(t, 'builtins.float', 'builtins.int') and len(t[2]) == 1:
            c = poly.simplify_truth(poly.substitute(t[2][0], env), env)
            return c
        return None

    # -- tensors ---------------------------------------------------------------------------
    def value(self, t: Term):
        """Abstract value (Vec or Mat) of a tensor-building term."""
        c = callee(t)
        mc = method_call(t)
        if c in ('torch.tensor', 'torch.as_tensor', 'torch.Tensor', 'torch.FloatTensor'):
            a = t[2][0]
            return self.from_nested(a)
        if c == 'torch.flip' or (mc and mc[1] == 'flip'):
            x = self.value(t[2][0] if c == 'torch.flip' else mc[0])
            dims = t[2][1] if c == 'torch.flip' else (mc[2][0] if mc[2] else None)
            dims = dims if dims is not None else arg(t, None, 'dims')
            ds = self.dims(dims)
            if isinstance(x, Vec):
                return x.flip() if 0 in ds or -1 in ds else x
            for d in ds:
                x = x.flip(d % 2)
            return x
        if c in ('torch.flipud', 'torch.fliplr'):
            x = self.value(t[2][0])
            if isinstance(x, Vec):
                if c == 'torch.flipud':
                    return x.flip()
                raise AnchorError('fliplr on a vector')
            return x.flip(0 if c == 'torch.flipud' else 1)
        if c in ('torch.transpose', 'torch.t', 'torch.swapaxes') or \
                (mc and mc[1] in ('t', 'transpose', 'T')):
            x = self.value(t[2][0] if c and c.startswith('torch.') else mc[0])
            return x.transpose() if isinstance(x, Mat) else x
        if c in ('torch.triu', 'torch.tril'):
            inner = t[2][0]
            if len(t[2]) > 1 or t[3]:
                raise AnchorError('triu/tril with a diagonal offset')
            if not is_call(inner, 'torch.ones'):
                raise AnchorError(f'{c} of {show(inner)}')
            up = c == 'torch.triu'
            return Mat({(S, S): True, (E, E): True, (S, E): up, (E, S): not up})
        if c == 'torch.ones':
            shape = t[2][0] if t[2] else None
            if shape is not None and shape[0] == 'tuple' and len(shape[1]) == 2 or len(t[2]) == 2:
                return Mat({(a, b): True for a in (S, E) for b in (S, E)})
            return Vec({S: True, E: True})
        if c == 'torch.zeros':
            return Vec({S: False, E: False})
        if c in ('torch.stack',):
            return self.from_nested(t[2][0])
        if mc and mc[1] in ('float', 'to', 'clone', 'detach', 'contiguous', 'double', 'type'):
            return self.value(mc[0])
        if t[0] == 'attr' and t[2] == 'T':
            x = self.value(t[1])
            return x.transpose() if isinstance(x, Mat) else x
        raise AnchorError(f'unsupported tensor constructor {show(t)}')

    @staticmethod
    def dims(d: Optional[Term]):
        if d is None:
            raise AnchorError('flip without dims')
        if d[0] == 'const':
            return [d[1]]
        if d[0] in ('tuple', 'list'):
            out = []
            for x in d[1]:
                if x[0] != 'const':
                    raise AnchorError('non-constant flip dims')
                out.append(x[1])
            return out
        raise AnchorError('non-constant flip dims')

    def from_nested(self, a: Term):
        # matrix given as a list with one generic row (built in a loop over range(L)) or a
        # nested comprehension
        if a[0] == 'list' and len(a[1]) == 1 and a[1][0][0] in ('comp', 'list', 'bin') and \
                self.find_any_elem(a[1][0]) is not None and a[1][0][0] == 'comp':
            row = a[1][0]
            row_elems = self.elems_of(row)
            inner_it = row[3][0][1]
            outer = [e for e in row_elems if e[1] != inner_it]
            if not outer:
                raise AnchorError('rows do not depend on the row index')
            return self.mat_from_rows(row, outer[0])
        if a[0] == 'comp' and a[2][0][0] == 'comp':
            row = a[2][0]
            outer_it = a[3][0][1]
            oe = self.find_elem(row, outer_it)
            if oe is None:
                raise AnchorError('rows do not depend on the row index')
            return self.mat_from_rows(row, oe)
        return self.vec_from_list(a)

    def mat_from_rows(self, row: Term, outer_elem: Term) -> Mat:
        inner_it = row[3][0][1]
        n_cols = self.range_len(inner_it)
        n_rows = self.range_len(outer_elem[1])
        inner_elem = self.find_elem(row[2][0], inner_it)
        at = {}
        for rp, ri in ((S, ('const', 0)), (E, ('bin', '-', n_rows, ('const', 1)))):
            for cp, cidx in ((S, ('const', 0)), (E, ('bin', '-', n_cols, ('const', 1)))):
                env = dict(self.env)
                env[outer_elem] = ri
                if inner_elem is not None:
                    env[inner_elem] = cidx
                at[(rp, cp)] = self.truth01(row[2][0], env)
        return Mat(at)

    @staticmethod
    def elems_of(t):
        out = []

        def walk(x):
            if isinstance(x, tuple):
                if x and x[0] == 'elem':
                    if x not in out:
                        out.append(x)
                    return
                for y in x:
                    walk(y)
        walk(t)
        return out

    def find_any_elem(self, t):
        e = self.elems_of(t)
        return e[0] if e else None


def matvec_alive(m: Mat, ka: Vec) -> Dict[str, Optional[bool]]:
    """Positions of  m @ (|p|*(1-ka)+ka)  that are certainly >= 1 for every real p:
    a position a is alive if some keep-alive column q (ka[q]=1) has m[a,q]=1."""
    out = {}
    for a in (S, E):
        alive = False
        for q in (S, E):
            if ka.at[q] is True and m.at[(a, q)] is True:
                alive = True
        out[a] = alive
    return out
