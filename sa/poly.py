"""Polynomial normal form over terms (integer/rational coefficients).

Used to compare formulas up to commutativity / re-association / distribution:
``(k - 1) * d`` vs ``d * k - d``; ``rf - 1 - (rf - 1)`` vs ``0``; depthwise vs generic cost.
Non-arithmetic sub-terms are opaque atoms.  ~100 lines, no external dependency.
"""
from __future__ import annotations

from fractions import Fraction
from typing import Dict, Optional, Tuple

from .sym import Term

Poly = Dict[Tuple[Term, ...], Fraction]


def _const(c) -> Poly:
    c = Fraction(c)
    return {(): c} if c != 0 else {}


def _atom(t: Term) -> Poly:
    return {(t,): Fraction(1)}


def add(a: Poly, b: Poly, sign: int = 1) -> Poly:
    r = dict(a)
    for m, c in b.items():
        r[m] = r.get(m, Fraction(0)) + sign * c
        if r[m] == 0:
            del r[m]
    return r


def mul(a: Poly, b: Poly) -> Poly:
    r: Poly = {}
    for m1, c1 in a.items():
        for m2, c2 in b.items():
            m = tuple(sorted(m1 + m2, key=repr))
            r[m] = r.get(m, Fraction(0)) + c1 * c2
            if r[m] == 0:
                del r[m]
    return r


def is_const(p: Poly) -> Optional[Fraction]:
    if not p:
        return Fraction(0)
    if len(p) == 1 and () in p:
        return p[()]
    return None


def to_poly(t: Term, subst: Optional[Dict[Term, Term]] = None) -> Poly:
    if subst and t in subst:
        return to_poly(subst[t], subst)
    k = t[0]
    if k == 'const' and isinstance(t[1], (int, float)) and not isinstance(t[1], bool):
        return _const(Fraction(t[1]).limit_denominator(10**9))
    if k == 'bin':
        op = t[1]
        if op in ('+', '-', '*'):
            a, b = to_poly(t[2], subst), to_poly(t[3], subst)
            if op == '+':
                return add(a, b)
            if op == '-':
                return add(a, b, -1)
            return mul(a, b)
        if op == '/':
            den = to_poly(t[3], subst)
            b = is_const(den)
            if b is not None and b != 0:
                return mul(to_poly(t[2], subst), _const(1 / b))
            if len(den) == 1:
                # exact division by a monomial when every numerator monomial contains it
                (dm, dc), = den.items()
                num = to_poly(t[2], subst)
                out: Poly = {}
                exact = True
                for m, c in num.items():
                    rest = list(m)
                    for a in dm:
                        if a in rest:
                            rest.remove(a)
                        else:
                            exact = False
                    if not exact:
                        break
                    out[tuple(rest)] = out.get(tuple(rest), Fraction(0)) + c / dc
                if exact:
                    return {m: c for m, c in out.items() if c != 0}
        if op == '**':
            e = is_const(to_poly(t[3], subst))
            base = to_poly(t[2], subst)
            bc = is_const(base)
            if e is not None and e.denominator == 1 and 0 <= e <= 6:
                r = _const(1)
                for _ in range(int(e)):
                    r = mul(r, base)
                return r
            if bc is not None and e is not None and e.denominator == 1 and abs(e) < 64 and bc != 0:
                return _const(bc ** int(e))
        if op in ('%', '//'):
            a = to_poly(t[2], subst)
            ac, bc = is_const(a), is_const(to_poly(t[3], subst))
            if ac is not None and ac == 0:
                return {}
            if bc is not None and bc == 1:
                return {} if op == '%' else a
            if ac is not None and bc is not None and bc != 0 and \
                    ac.denominator == 1 and bc.denominator == 1:
                return _const(int(ac) % int(bc) if op == '%' else int(ac) // int(bc))
            return _atom(('bin', op, from_poly(a), from_poly(to_poly(t[3], subst))))
    if k == 'un' and t[1] == 'neg':
        return mul(_const(-1), to_poly(t[2], subst))
    if k == 'un' and t[1] == 'pos':
        return to_poly(t[2], subst)
    if subst:
        t = substitute(t, subst)
    return _atom(t)


def substitute(t, subst):
    if t in subst:
        return subst[t]
    if isinstance(t, tuple):
        return tuple(substitute(x, subst) for x in t)
    return t


def from_poly(p: Poly) -> Term:
    """A canonical term for a polynomial (used to build canonical atoms)."""
    if not p:
        return ('const', 0)
    parts = []
    for m in sorted(p, key=repr):
        c = p[m]
        cv = int(c) if c.denominator == 1 else float(c)
        mono: Term = ('const', cv)
        for a in m:
            mono = a if mono == ('const', 1) else ('bin', '*', mono, a)
        parts.append(mono)
    r = parts[0]
    for x in parts[1:]:
        r = ('bin', '+', r, x)
    return r


def equal(a: Term, b: Term, subst: Optional[Dict[Term, Term]] = None) -> bool:
    return not add(to_poly(a, subst), to_poly(b, subst), -1)


def simplify_truth(c: Term, subst: Optional[Dict[Term, Term]] = None) -> Optional[bool]:
    """Truth of a comparison term when both sides normalise to constants."""
    if c[0] == 'cmp':
        a, b = is_const(to_poly(c[2], subst)), is_const(to_poly(c[3], subst))
        if a is not None and b is not None:
            return {'==': a == b, '!=': a != b, '<': a < b, '<=': a <= b,
                    '>': a > b, '>=': a >= b}.get(c[1])
        if c[1] in ('==', '<=', '>=') and equal(c[2], c[3], subst):
            return True
        if c[1] in ('!=', '<', '>') and equal(c[2], c[3], subst):
            return False
    if c[0] == 'const':
        return bool(c[1])
    if c[0] == 'un' and c[1] == 'not':
        v = simplify_truth(c[2], subst)
        return None if v is None else not v
    if c[0] == 'bool':
        vals = [simplify_truth(v, subst) for v in c[2]]
        if c[1] == 'and':
            if any(v is False for v in vals):
                return False
            return True if all(v is True for v in vals) else None
        if any(v is True for v in vals):
            return True
        return False if all(v is False for v in vals) else None
    return None


# ------------------------------------------------------------------------------------------
# rational normal form: (numerator, denominator) polynomials, for identities with nested
# divisions (``1 / (a / b) == b / a``)

def to_rat(t: Term, subst: Optional[Dict[Term, Term]] = None):
    if subst and t in subst:
        return to_rat(subst[t], subst)
    if t[0] == 'bin' and t[1] in ('+', '-', '*', '/'):
        (an, ad), (bn, bd) = to_rat(t[2], subst), to_rat(t[3], subst)
        if t[1] == '*':
            return mul(an, bn), mul(ad, bd)
        if t[1] == '/':
            return mul(an, bd), mul(ad, bn)
        return add(mul(an, bd), mul(bn, ad), 1 if t[1] == '+' else -1), mul(ad, bd)
    if t[0] == 'un' and t[1] == 'neg':
        n, d = to_rat(t[2], subst)
        return mul(_const(-1), n), d
    return to_poly(t, subst), _const(1)


def rat_equal(a: Term, b: Term, subst: Optional[Dict[Term, Term]] = None) -> bool:
    (an, ad), (bn, bd) = to_rat(a, subst), to_rat(b, subst)
    l, r = mul(an, bd), mul(bn, ad)
    return {m: c for m, c in l.items() if c != 0} == {m: c for m, c in r.items() if c != 0}
